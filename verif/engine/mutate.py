"""Sensitivity audit of the checker (thorough tier).

Each rule module lists *mutants* (realistic edits that break a clause while the tree still parses)
and *variants* (behaviour-preserving rewrites).  The audit applies each to a scratch copy of
``stepup/core`` under ``$TMPDIR`` (outside /repo and /verif), re-runs the property's rules on the
copy, and requires: a mutant is reported by (one of) the expected rule(s); a variant adds no
violation.  A miss is an ANALYSIS-ERROR of the checker, never a violation of the repository.
Scratch copies are removed before returning.  Nothing is executed: the copy is only parsed.
"""
from __future__ import annotations

import ast
import concurrent.futures
import os
import pathlib
import random
import re
import shutil
import tempfile
from dataclasses import dataclass, field

from .source import AnalysisError


@dataclass
class Mutant:
    name: str
    file: str  # module file name under stepup/core, e.g. "workflow.py"
    transform: callable  # text -> new text, or None when the anchor text is not there
    expect: tuple  # rule ids of which at least one must fire
    note: str = ""


@dataclass
class Variant:
    name: str
    file: str
    transform: callable
    note: str = ""


def sub_once(pattern: str, repl: str, flags=0, count_required=1):
    """Transform factory: regex substitution that must match exactly ``count_required`` times."""
    rx = re.compile(pattern, flags)

    def tr(text):
        n = len(rx.findall(text))
        if n != count_required:
            return None
        return rx.sub(repl, text)

    return tr


def replace_once(old: str, new: str):
    def tr(text):
        if text.count(old) != 1:
            return None
        return text.replace(old, new)

    return tr


def in_function(qualname: str, inner):
    """Apply ``inner`` (text -> text|None) to the source segment of one function only."""

    def tr(text):
        try:
            tree = ast.parse(text)
        except SyntaxError:
            return None
        node = _find(tree, qualname.split("."))
        if node is None:
            return None
        lines = text.splitlines(keepends=True)
        start = node.lineno - 1
        if node.decorator_list:
            start = min(d.lineno for d in node.decorator_list) - 1
        seg = "".join(lines[start:node.end_lineno])
        new = inner(seg)
        if new is None or new == seg:
            return None
        return "".join(lines[:start]) + new + "".join(lines[node.end_lineno:])

    return tr


def _find(tree, parts):
    body = tree.body
    node = None
    for p in parts:
        node = None
        for n in body:
            if isinstance(n, (ast.FunctionDef, ast.AsyncFunctionDef, ast.ClassDef)) and n.name == p:
                node = n
                break
        if node is None:
            return None
        body = node.body
    return node


def _run_one(args):
    kind, name, scratch_root, repo, file, new_text, module_name = args
    import importlib
    import sys

    verif_root = str(pathlib.Path(__file__).resolve().parents[2])
    if verif_root not in sys.path:
        sys.path.insert(0, verif_root)
    from verif.engine.runner import evaluate_rules

    d = pathlib.Path(scratch_root) / re.sub(r"\W+", "_", name)
    if kind == "package-variant":
        try:
            from verif.engine.benign import make_variant

            make_variant(name, d, repo)
            mod = importlib.import_module(module_name)
            insts, err = evaluate_rules(mod.RULES, str(d))
            bad = sorted({(i.rule, i.site, i.construct) for i in insts if not i.ok and not i.control})
            return (kind, name, "error" if err else "ok", err or "", bad)
        except Exception as exc:  # noqa: BLE001
            return (kind, name, "error", f"{type(exc).__name__}: {exc}", [])
        finally:
            shutil.rmtree(d, ignore_errors=True)
    try:
        core = d / "stepup" / "core"
        core.mkdir(parents=True)
        for p in (pathlib.Path(repo) / "stepup" / "core").glob("*.py"):
            if p.name == file:
                (core / p.name).write_text(new_text)
            else:
                shutil.copyfile(p, core / p.name)
        try:
            ast.parse(new_text)
        except SyntaxError as exc:
            return (kind, name, "syntax", str(exc), [])
        mod = importlib.import_module(module_name)
        insts, err = evaluate_rules(mod.RULES, str(d))
        bad = sorted({(i.rule, i.site, i.construct) for i in insts if not i.ok and not i.control})
        return (kind, name, "error" if err else "ok", err or "", bad)
    finally:
        shutil.rmtree(d, ignore_errors=True)


def run_audit(prop: str, module_name: str, mutants, variants, repo: str, seed: int, base_bad=None, jobs=None,
              budget=None):
    """Returns stats; raises AnalysisError when a mutant survives or a variant alarms."""
    from .runner import evaluate_rules
    import importlib

    mod = importlib.import_module(module_name)
    if base_bad is None:
        insts, err = evaluate_rules(mod.RULES, repo)
        if err:
            raise AnalysisError(f"audit: base tree does not analyse: {err}")
        base_bad = {(i.rule, i.site, i.construct) for i in insts if not i.ok and not i.control}
    base_bad = set(base_bad)
    core = pathlib.Path(repo) / "stepup" / "core"
    tasks = []
    skipped = []
    tmp_parent = os.environ.get("TMPDIR") or tempfile.gettempdir()
    scratch_root = tempfile.mkdtemp(prefix=f"verif_audit_{prop}_", dir=tmp_parent)
    rng = random.Random(seed)
    order = list(mutants)
    rng.shuffle(order)
    if budget:
        order = order[:budget]
    try:
        for kind, items in (("mutant", order), ("variant", list(variants))):
            for it in items:
                p = core / it.file
                if not p.exists():
                    skipped.append(it.name)
                    continue
                text = p.read_text()
                try:
                    new = it.transform(text)
                except Exception:
                    new = None
                if new is None or new == text:
                    skipped.append(it.name)
                    continue
                tasks.append((kind, it.name, scratch_root, repo, it.file, new, module_name))
        from .benign import KINDS as _PKG_KINDS

        for k in _PKG_KINDS:
            tasks.append(("package-variant", k, scratch_root, repo, None, None, module_name))
        results = []
        jobs = jobs or min(16, os.cpu_count() or 4)
        if tasks:
            with concurrent.futures.ProcessPoolExecutor(max_workers=jobs) as ex:
                results = list(ex.map(_run_one, tasks))
    finally:
        shutil.rmtree(scratch_root, ignore_errors=True)
    expect = {m.name: set(m.expect) for m in mutants}
    killed, survived, alarms, broken = [], [], [], []
    for kind, name, status, err, bad in results:
        new_bad = {tuple(b) for b in bad} - base_bad
        if kind == "mutant":
            if status == "syntax":
                broken.append(f"{name}: mutant does not parse: {err}")
            elif status == "error":
                # fail-closed analysis error also counts as detection of the edit, but is recorded
                killed.append(dict(name=name, by=["ANALYSIS-ERROR"], detail=err[:200]))
            else:
                rules_fired = {b[0] for b in new_bad}
                if rules_fired & expect[name]:
                    killed.append(dict(name=name, by=sorted(rules_fired & expect[name])))
                else:
                    survived.append(dict(name=name, expected=sorted(expect[name]), fired=sorted(rules_fired)))
        else:
            if status != "ok":
                alarms.append(dict(name=name, detail=f"{status}: {err[:200]}"))
            elif new_bad:
                alarms.append(dict(name=name, detail=sorted(new_bad)[:5]))
    nvar = sum(1 for t in tasks if t[0] in ("variant", "package-variant"))
    stats = dict(mutants_generated=sum(1 for t in tasks if t[0] == "mutant"), mutants_killed=len(killed),
                 variants_checked=nvar, variants_silent=nvar - len(alarms),
                 package_rewrites=[t[1] for t in tasks if t[0] == "package-variant"],
                 skipped_not_applicable=skipped, killed=killed)
    if broken:
        raise AnalysisError("audit: " + "; ".join(broken))
    if survived:
        raise AnalysisError("audit: mutant(s) not detected: " + "; ".join(f"{s['name']} (expected {s['expected']}, fired {s['fired']})" for s in survived))
    if alarms:
        raise AnalysisError("audit: behaviour-preserving variant(s) raised an alarm: " + "; ".join(f"{a['name']}: {a['detail']}" for a in alarms))
    return stats
