"""E3 — annotation-driven call graph with class-hierarchy analysis, effects and transaction regions."""
from __future__ import annotations

import ast
import re
from dataclasses import dataclass, field

from .source import AnalysisError, ClassInfo, FuncInfo, Program

# methods whose first argument is a node class and which return (an iterator of) that class
TYPED_BY_FIRST_ARG = {"find", "find_attached", "find_and_detached", "create", "try_recycle", "products", "sources", "sinks",
                      "nodes", "_dependencies"}

BUILTIN_METHOD_NAMES = {
    "append", "extend", "add", "update", "get", "items", "keys", "values", "pop", "discard", "remove", "clear", "join",
    "format", "startswith", "endswith", "split", "strip", "rstrip", "lstrip", "replace", "encode", "decode", "lower", "upper",
    "sort", "copy", "setdefault", "insert", "index", "count", "isdisjoint", "union", "intersection", "difference", "popleft",
    "fetchone", "fetchall", "execute", "executemany", "executescript", "commit", "rollback", "close", "cursor",
    "set", "is_set", "wait", "put_nowait", "get_nowait", "put", "empty", "result", "done", "cancel", "cancelled",
    "add_done_callback", "exception", "set_result", "set_exception", "acquire", "release_lock", "locked",
    "info", "debug", "warning", "error", "critical", "exception_", "write", "read", "readline", "drain", "readexactly",
    "isabs", "normpath", "relpath", "absolute", "exists", "is_dir", "is_file", "iterdir", "parent", "name", "stem", "with_suffix",
    "to_bytes", "from_bytes", "hexdigest", "digest", "total_seconds", "isoformat", "fullmatch", "match", "search", "group", "groups",
    "structure", "unstructure", "dumps", "loads", "partition", "rpartition", "title", "zfill", "ljust", "rjust", "center",
}


@dataclass
class CallSite:
    caller: FuncInfo
    node: ast.Call
    targets: list  # list[FuncInfo]
    by_name: bool = False  # resolved only by method-name fallback (over-approximation)
    unresolved: bool = False

    @property
    def src(self):
        return ast.unparse(self.node.func)


class CallGraph:
    def __init__(self, prog: Program):
        self.prog = prog
        self.sites: dict[str, list[CallSite]] = {}
        self.methods_by_name: dict[str, list[FuncInfo]] = {}
        for fi in prog.all_functions():
            if fi.cls is not None and ".<locals>." not in fi.qualname:
                self.methods_by_name.setdefault(fi.name, []).append(fi)
        self._class_by_name: dict[str, list[ClassInfo]] = {}
        for m in prog.mods.values():
            for c in m.classes.values():
                self._class_by_name.setdefault(c.name, []).append(c)
        self._n_calls = self._n_resolved = self._n_unresolved = self._n_byname = self._n_external = 0
        for fi in prog.all_functions():
            self.sites[fi.fq] = self._analyse(fi)
        self._reach_cache: dict[str, set[str]] = {}
        self._callers: dict[str, set[str]] | None = None

    # ------------------------------------------------------------------ type inference

    def _class_from_annotation(self, m, ann: str | None) -> ClassInfo | None:
        if not ann:
            return None
        ann = ann.strip().strip("'\"")
        ann = re.sub(r"\s*\|\s*None", "", ann)
        ann = re.sub(r"^Optional\[(.*)\]$", r"\1", ann)
        mm = re.match(r"^(?:Iterator|Iterable|list|List|Collection|Sequence|set|frozenset|tuple|type)\[(.*)\]$", ann)
        if mm:
            inner = mm.group(1).split(",")[0].strip().strip("'\"")
            ann = inner
        if ann in ("Self",):
            return None
        ann = ann.split(".")[-1]
        tgt = self.prog.resolve_name(m, ann)
        if isinstance(tgt, ClassInfo):
            return tgt
        cands = self._class_by_name.get(ann, [])
        if len(cands) == 1:
            return cands[0]
        return None

    def _local_types(self, fi: FuncInfo) -> dict[str, ClassInfo]:
        """Flow-insensitive local variable types from annotations, constructors and typed helpers."""
        m = fi.module
        types: dict[str, ClassInfo] = {}
        for p, ann in fi.param_annotations().items():
            c = self._class_from_annotation(m, ann)
            if c is not None:
                types[p] = c
        # enclosing function's locals are visible to nested functions
        if fi.parent is not None:
            for k, v in self._local_types(fi.parent).items():
                types.setdefault(k, v)

        def bind(target, cls):
            if cls is None:
                return
            if isinstance(target, ast.Name):
                types.setdefault(target.id, cls)
            elif isinstance(target, (ast.Tuple, ast.List)) and target.elts:
                bind(target.elts[0], cls)  # (node, detached) = find_and_detached(...)

        for _ in range(2):
            for n in ast.walk(fi.node):
                if isinstance(n, ast.Assign) and len(n.targets) == 1:
                    bind(n.targets[0], self._expr_type(fi, n.value, types))
                elif isinstance(n, ast.AnnAssign) and isinstance(n.target, ast.Name):
                    c = self._class_from_annotation(m, ast.unparse(n.annotation))
                    if c is not None:
                        types.setdefault(n.target.id, c)
                elif isinstance(n, (ast.For, ast.AsyncFor)):
                    bind(n.target, self._expr_type(fi, n.iter, types, element=True))
                elif isinstance(n, ast.comprehension):
                    bind(n.target, self._expr_type(fi, n.iter, types, element=True))
                elif isinstance(n, (ast.With, ast.AsyncWith)):
                    for it in n.items:
                        if it.optional_vars is not None:
                            bind(it.optional_vars, self._expr_type(fi, it.context_expr, types))
                elif isinstance(n, ast.NamedExpr):
                    bind(n.target, self._expr_type(fi, n.value, types))
        return types

    def _expr_type(self, fi: FuncInfo, e, types, element=False) -> ClassInfo | None:
        m = fi.module
        if isinstance(e, ast.Await):
            return self._expr_type(fi, e.value, types, element)
        if isinstance(e, ast.Name):
            if e.id == "self" and fi.cls is not None:
                return fi.cls
            return types.get(e.id)
        if isinstance(e, ast.Attribute):
            base = self._expr_type(fi, e.value, types)
            if base is not None:
                ann = self.prog.class_field_annotation(base, e.attr)
                if ann:
                    return self._class_from_annotation(base.module, ann)
                # property with return annotation
                meth = self.prog.find_method(base, e.attr)
                if meth is not None and "property" in meth.decorators() and meth.node.returns is not None:
                    return self._class_from_annotation(meth.module, ast.unparse(meth.node.returns))
            return None
        if isinstance(e, ast.Call):
            f = e.func
            if isinstance(f, ast.Name):
                tgt = self.prog.resolve_name(m, f.id)
                if isinstance(tgt, ClassInfo):
                    return tgt
                if isinstance(tgt, FuncInfo) and tgt.node.returns is not None:
                    return self._class_from_annotation(tgt.module, ast.unparse(tgt.node.returns))
                if f.id in ("sorted", "list", "reversed", "set", "tuple", "iter") and e.args:
                    return self._expr_type(fi, e.args[0], types, element)
            elif isinstance(f, ast.Attribute):
                if f.attr in TYPED_BY_FIRST_ARG and e.args:
                    a0 = e.args[0]
                    if isinstance(a0, ast.Name):
                        tgt = self.prog.resolve_name(m, a0.id)
                        if isinstance(tgt, ClassInfo):
                            return tgt
                base = self._expr_type(fi, f.value, types)
                if base is not None:
                    meth = self.prog.find_method(base, f.attr)
                    if meth is not None and meth.node.returns is not None:
                        return self._class_from_annotation(meth.module, ast.unparse(meth.node.returns))
                if isinstance(f.value, ast.Name) and f.attr in ("values",) and element:
                    return None
            return None
        if isinstance(e, ast.IfExp):
            return self._expr_type(fi, e.body, types, element) or self._expr_type(fi, e.orelse, types, element)
        if isinstance(e, ast.Subscript):
            return None
        return None

    # ------------------------------------------------------------------ call resolution

    def _analyse(self, fi: FuncInfo) -> list[CallSite]:
        types = self._local_types(fi)
        nested = {id(sub) for n in ast.walk(fi.node) if n is not fi.node and isinstance(n, (ast.FunctionDef, ast.AsyncFunctionDef)) for sub in ast.walk(n)}
        out = []
        for call in ast.walk(fi.node):
            if not isinstance(call, ast.Call) or id(call) in nested:
                continue
            cs = self._resolve(fi, call, types)
            if cs is not None:
                out.append(cs)
        out.sort(key=lambda c: (c.node.lineno, c.node.col_offset))
        return out

    def _resolve(self, fi: FuncInfo, call: ast.Call, types) -> CallSite | None:
        self._n_calls += 1
        f = call.func
        m = fi.module
        if isinstance(f, ast.Name):
            # local nested function?
            for q, cand in m.all_funcs.items():
                if cand.parent is not None and cand.name == f.id and (cand.parent.fq == fi.fq or (fi.parent is not None and cand.parent.fq == fi.parent.fq)):
                    self._n_resolved += 1
                    return CallSite(fi, call, [cand])
            tgt = self.prog.resolve_name(m, f.id)
            if isinstance(tgt, FuncInfo):
                self._n_resolved += 1
                return CallSite(fi, call, [tgt])
            if isinstance(tgt, ClassInfo):
                targets = [x for x in (self.prog.find_method(tgt, "__init__"), self.prog.find_method(tgt, "__attrs_post_init__")) if x is not None]
                self._n_resolved += 1
                return CallSite(fi, call, targets)
            self._n_external += 1
            return None
        if isinstance(f, ast.Attribute):
            attr = f.attr
            # super().m()
            if isinstance(f.value, ast.Call) and isinstance(f.value.func, ast.Name) and f.value.func.id == "super" and fi.cls is not None:
                for b in self.prog.mro(fi.cls)[1:]:
                    if attr in b.methods:
                        self._n_resolved += 1
                        return CallSite(fi, call, [b.methods[attr]])
                self._n_external += 1
                return None
            # module.function
            if isinstance(f.value, ast.Name):
                tgt = self.prog.resolve_name(m, f.value.id)
                if isinstance(tgt, tuple) and tgt[0] == "module":
                    mod = self.prog.mods.get(tgt[1])
                    if mod is not None and attr in mod.funcs:
                        self._n_resolved += 1
                        return CallSite(fi, call, [mod.funcs[attr]])
                if isinstance(tgt, ClassInfo):
                    # Class.method(...) (classmethod/staticmethod or explicit base call)
                    meth = self.prog.find_method(tgt, attr)
                    if meth is not None:
                        self._n_resolved += 1
                        return CallSite(fi, call, self.prog.method_overrides(tgt, attr) if "classmethod" in meth.decorators() else [meth])
                if f.value.id in m.ext_imports and f.value.id not in types:
                    self._n_external += 1
                    return None
            base = self._expr_type(fi, f.value, types)
            if base is not None:
                targets = self.prog.method_overrides(base, attr)
                if targets:
                    self._n_resolved += 1
                    return CallSite(fi, call, targets)
                ann = self.prog.class_field_annotation(base, attr)
                if ann is not None:
                    self._n_external += 1  # callable field
                    return None
            # fallback by method name
            cands = self.methods_by_name.get(attr, [])
            if cands and attr not in BUILTIN_METHOD_NAMES:
                self._n_byname += 1
                return CallSite(fi, call, list(cands), by_name=True)
            if cands:
                # a builtin-looking name that also exists in the repo (e.g. release, set, get): keep as by-name
                # only when the receiver is not obviously a builtin container
                self._n_external += 1
                return None
            self._n_external += 1
            return None
        self._n_external += 1
        return None

    # ------------------------------------------------------------------ queries

    def callees(self, fq: str, include_by_name=True) -> set[str]:
        out = set()
        for cs in self.sites.get(fq, []):
            if cs.by_name and not include_by_name:
                continue
            for t in cs.targets:
                out.add(t.fq)
        # nested functions defined inside are reachable if referenced (callbacks): include conservatively
        return out

    def reachable(self, fq: str, include_by_name=True, stop=()) -> set[str]:
        key = (fq, include_by_name, tuple(sorted(stop)))
        if key in self._reach_cache:
            return self._reach_cache[key]
        seen = set()
        stack = [fq]
        while stack:
            cur = stack.pop()
            if cur in seen or cur in stop and cur != fq:
                continue
            seen.add(cur)
            stack.extend(self.callees(cur, include_by_name) - seen)
            # functions referenced as values (callbacks, partial, create_task(coro()))
            stack.extend(self.referenced_functions(cur) - seen)
        self._reach_cache[key] = seen
        return seen

    def referenced_functions(self, fq: str) -> set[str]:
        """Functions mentioned by name (not called) inside ``fq``: callbacks passed along."""
        fi = self._func(fq)
        if fi is None:
            return set()
        out = set()
        m = fi.module
        call_funcs = {id(c.func) for c in ast.walk(fi.node) if isinstance(c, ast.Call)}
        for n in ast.walk(fi.node):
            if isinstance(n, ast.Name) and id(n) not in call_funcs and isinstance(n.ctx, ast.Load):
                tgt = self.prog.resolve_name(m, n.id)
                if isinstance(tgt, FuncInfo):
                    out.add(tgt.fq)
                for q, cand in m.all_funcs.items():
                    if cand.parent is not None and cand.parent.fq == fi.fq and cand.name == n.id:
                        out.add(cand.fq)
            elif isinstance(n, ast.Attribute) and id(n) not in call_funcs and isinstance(n.value, ast.Name) and n.value.id == "self" and fi.cls is not None:
                for t in self.prog.method_overrides(fi.cls, n.attr):
                    if "property" not in t.decorators():
                        out.add(t.fq)
        return out

    def path(self, src: str, dst: str, include_by_name=True) -> list[str] | None:
        """A shortest call path from src to dst (for diagnostics)."""
        from collections import deque

        prev = {src: None}
        dq = deque([src])
        while dq:
            cur = dq.popleft()
            if cur == dst:
                out = []
                while cur is not None:
                    out.append(cur)
                    cur = prev[cur]
                return out[::-1]
            for nxt in sorted(self.callees(cur, include_by_name) | self.referenced_functions(cur)):
                if nxt not in prev:
                    prev[nxt] = cur
                    dq.append(nxt)
        return None

    def callers_of(self, fq: str, include_by_name=True) -> set[str]:
        if self._callers is None:
            self._callers = {}
            for caller, sites in self.sites.items():
                for cs in sites:
                    for t in cs.targets:
                        self._callers.setdefault((t.fq, cs.by_name), set()).add(caller)
        out = set(self._callers.get((fq, False), set()))
        if include_by_name:
            out |= self._callers.get((fq, True), set())
        return out

    def call_sites_of(self, fq: str, include_by_name=True) -> list[CallSite]:
        out = []
        for sites in self.sites.values():
            for cs in sites:
                if cs.by_name and not include_by_name:
                    continue
                if any(t.fq == fq for t in cs.targets):
                    out.append(cs)
        return out

    def _func(self, fq: str) -> FuncInfo | None:
        modname, _, qual = fq.partition(".")
        m = self.prog.mods.get(modname)
        return None if m is None else m.all_funcs.get(qual)

    def stats(self) -> dict:
        return dict(call_expressions=self._n_calls, calls_resolved=self._n_resolved, calls_by_method_name=self._n_byname,
                    calls_external_or_builtin=self._n_external)


def is_db_ctx(src: str) -> bool:
    """Does a with-item expression denote the DBSession (one lock, one transaction)?"""
    last = src.split(".")[-1]
    return last == "db" or src in ("db", "self.db", "workflow.db", "self.workflow.db")


_CG_CACHE: dict[str, CallGraph] = {}


def load_callgraph(prog: Program) -> CallGraph:
    if prog.digest not in _CG_CACHE:
        _CG_CACHE[prog.digest] = CallGraph(prog)
    return _CG_CACHE[prog.digest]
