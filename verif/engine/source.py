"""E1 — source model and constant folder.

Parses every module of ``stepup/core`` as an AST (the repository is never imported), indexes
modules, classes, functions and imports, and folds module-level constants with a restricted
evaluator.  Run-time values are symbolic holes.
"""
from __future__ import annotations

import ast
import enum
import hashlib
import pathlib
from dataclasses import dataclass, field


class AnalysisError(Exception):
    """The analyser could not do its job (exit status 2, never a pass, never a violation)."""


class FoldError(Exception):
    """An expression is outside the foldable subset."""


class Hole:
    """Symbolic run-time value."""

    __slots__ = ("name",)

    def __init__(self, name="?"):
        self.name = name

    def __repr__(self):
        return f"⟦{self.name}⟧"

    __str__ = __repr__

    def __format__(self, spec):
        return repr(self)

    def __hash__(self):
        return hash(("Hole", self.name))

    def __eq__(self, other):
        return isinstance(other, Hole) and other.name == self.name


HOLE_OPEN = "⟦"


def has_hole(s) -> bool:
    return isinstance(s, Hole) or (isinstance(s, str) and HOLE_OPEN in s)


@dataclass
class FuncInfo:
    module: "Module"
    qualname: str
    node: ast.AST
    cls: "ClassInfo | None" = None
    parent: "FuncInfo | None" = None

    @property
    def fq(self) -> str:
        return f"{self.module.name}.{self.qualname}"

    @property
    def name(self) -> str:
        return self.node.name

    @property
    def is_async(self) -> bool:
        return isinstance(self.node, ast.AsyncFunctionDef)

    def decorators(self) -> list[str]:
        return [ast.unparse(d) for d in self.node.decorator_list]

    def params(self) -> list[str]:
        a = self.node.args
        out = [x.arg for x in a.posonlyargs + a.args]
        if a.vararg:
            out.append(a.vararg.arg)
        out += [x.arg for x in a.kwonlyargs]
        if a.kwarg:
            out.append(a.kwarg.arg)
        return out

    def param_annotations(self) -> dict[str, str]:
        a = self.node.args
        out = {}
        for x in a.posonlyargs + a.args + a.kwonlyargs:
            if x.annotation is not None:
                out[x.arg] = ast.unparse(x.annotation)
        return out

    def __hash__(self):
        return hash(self.fq)

    def __eq__(self, other):
        return isinstance(other, FuncInfo) and other.fq == self.fq

    def __repr__(self):
        return f"<func {self.fq}>"


@dataclass
class ClassInfo:
    module: "Module"
    name: str
    node: ast.ClassDef
    base_names: list[str] = field(default_factory=list)
    methods: dict[str, FuncInfo] = field(default_factory=dict)
    fields: dict[str, str] = field(default_factory=dict)  # attrs / annotated fields -> annotation

    @property
    def fq(self) -> str:
        return f"{self.module.name}.{self.name}"

    def __hash__(self):
        return hash(self.fq)

    def __eq__(self, other):
        return isinstance(other, ClassInfo) and other.fq == self.fq

    def __repr__(self):
        return f"<class {self.fq}>"


@dataclass
class Module:
    name: str
    path: pathlib.Path
    text: str
    tree: ast.Module
    consts: dict = field(default_factory=dict)
    imports: dict = field(default_factory=dict)  # local name -> (module, name) inside stepup.core
    ext_imports: dict = field(default_factory=dict)  # local name -> dotted external name
    funcs: dict = field(default_factory=dict)  # top-level name -> FuncInfo
    classes: dict = field(default_factory=dict)  # name -> ClassInfo
    all_funcs: dict = field(default_factory=dict)  # qualname -> FuncInfo (methods and nested too)


class Program:
    """All modules of ``<repo>/stepup/core`` parsed and indexed."""

    def __init__(self, repo="/repo"):
        self.repo = pathlib.Path(repo)
        root = self.repo / "stepup" / "core"
        if not root.is_dir():
            raise AnalysisError(f"no stepup/core under {repo}")
        self.mods: dict[str, Module] = {}
        digest = hashlib.sha256()
        for p in sorted(root.glob("*.py")):
            text = p.read_text()
            digest.update(p.name.encode() + b"\0" + text.encode() + b"\0")
            try:
                tree = ast.parse(text, filename=str(p))
            except SyntaxError as exc:
                raise AnalysisError(f"cannot parse {p}: {exc}") from exc
            # behaviour-preserving renames of locals are undone before any rule looks at the code
            from .canon import canonicalise_module

            self.canonicalised = getattr(self, "canonicalised", 0) + canonicalise_module(p.stem, tree)
            self.mods[p.stem] = Module(p.stem, p, text, tree)
        self.digest = digest.hexdigest()
        for m in self.mods.values():
            self._index(m)
        self._folding: set = set()
        self._subclasses: dict[str, list[ClassInfo]] | None = None

    # ------------------------------------------------------------------ indexing

    def _index(self, m: Module):
        for n in ast.walk(m.tree):
            # imports anywhere (function-level imports are used to break cycles)
            if isinstance(n, ast.ImportFrom):
                if n.level >= 1 or (n.module or "").startswith("stepup.core"):
                    modname = (n.module or "").split(".")[-1] if n.module else None
                    for a in n.names:
                        if modname is None or (n.level >= 1 and n.module is None):
                            # from . import x
                            m.imports.setdefault(a.asname or a.name, (a.name, None))
                        else:
                            m.imports.setdefault(a.asname or a.name, (modname, a.name))
                else:
                    for a in n.names:
                        m.ext_imports.setdefault(a.asname or a.name, f"{n.module}.{a.name}")
            elif isinstance(n, ast.Import):
                for a in n.names:
                    m.ext_imports.setdefault(a.asname or a.name.split(".")[0], a.name)
        for n in m.tree.body:
            self._index_stmt(m, n)
        # statements under `if TYPE_CHECKING:` etc.
        for n in m.tree.body:
            if isinstance(n, (ast.If, ast.Try)):
                for sub in ast.walk(n):
                    if isinstance(sub, (ast.FunctionDef, ast.AsyncFunctionDef, ast.ClassDef)) and sub.name not in m.funcs and sub.name not in m.classes:
                        if sub in getattr(n, "body", []) or sub in getattr(n, "orelse", []):
                            self._index_stmt(m, sub)

    def _index_stmt(self, m: Module, n):
        if isinstance(n, (ast.FunctionDef, ast.AsyncFunctionDef)):
            fi = FuncInfo(m, n.name, n)
            m.funcs[n.name] = fi
            m.all_funcs[fi.qualname] = fi
            self._index_nested(m, fi)
        elif isinstance(n, ast.ClassDef):
            ci = ClassInfo(m, n.name, n, [ast.unparse(b) for b in n.bases])
            m.classes[n.name] = ci
            for b in n.body:
                if isinstance(b, (ast.FunctionDef, ast.AsyncFunctionDef)):
                    fi = FuncInfo(m, f"{n.name}.{b.name}", b, cls=ci)
                    ci.methods[b.name] = fi
                    m.all_funcs[fi.qualname] = fi
                    self._index_nested(m, fi)
                elif isinstance(b, ast.AnnAssign) and isinstance(b.target, ast.Name):
                    ci.fields[b.target.id] = ast.unparse(b.annotation)

    def _index_nested(self, m: Module, parent: FuncInfo):
        for st in ast.walk(parent.node):
            if st is parent.node:
                continue
            if isinstance(st, (ast.FunctionDef, ast.AsyncFunctionDef)):
                # only direct nesting levels get distinct qualnames; deeper ones are rare
                q = f"{parent.qualname}.<locals>.{st.name}"
                if q not in m.all_funcs:
                    m.all_funcs[q] = FuncInfo(m, q, st, cls=parent.cls, parent=parent)

    # ------------------------------------------------------------------ lookup helpers

    def module(self, name: str) -> Module:
        if name not in self.mods:
            raise AnalysisError(f"anchor module stepup/core/{name}.py not found")
        return self.mods[name]

    def func(self, fq: str) -> FuncInfo:
        """Look up ``module.qualname``; a vanished anchor is an AnalysisError."""
        modname, _, qual = fq.partition(".")
        m = self.module(modname)
        if qual not in m.all_funcs:
            raise AnalysisError(f"anchor function {fq} not found")
        return m.all_funcs[qual]

    def has_func(self, fq: str) -> bool:
        modname, _, qual = fq.partition(".")
        return modname in self.mods and qual in self.mods[modname].all_funcs

    def cls(self, fq: str) -> ClassInfo:
        modname, _, name = fq.partition(".")
        m = self.module(modname)
        if name not in m.classes:
            raise AnalysisError(f"anchor class {fq} not found")
        return m.classes[name]

    def all_functions(self):
        for m in self.mods.values():
            yield from m.all_funcs.values()

    def resolve_name(self, m: Module, name: str):
        """Resolve a bare name in module ``m`` to FuncInfo / ClassInfo / ('const', mod, name)."""
        seen = set()
        while True:
            if (m.name, name) in seen:
                return None
            seen.add((m.name, name))
            if name in m.funcs:
                return m.funcs[name]
            if name in m.classes:
                return m.classes[name]
            if name in m.imports:
                mm, nn = m.imports[name]
                if nn is None:
                    return ("module", mm) if mm in self.mods else None
                if mm in self.mods:
                    m, name = self.mods[mm], nn
                    continue
                return None
            if self._has_module_assign(m, name):
                return ("const", m.name, name)
            return None

    def _has_module_assign(self, m: Module, name: str) -> bool:
        for n in m.tree.body:
            if isinstance(n, ast.Assign):
                for t in n.targets:
                    if isinstance(t, ast.Name) and t.id == name:
                        return True
                    if isinstance(t, ast.Tuple) and any(isinstance(e, ast.Name) and e.id == name for e in t.elts):
                        return True
            elif isinstance(n, ast.AnnAssign) and isinstance(n.target, ast.Name) and n.target.id == name and n.value is not None:
                return True
        return False

    def const_origin(self, modname: str, name: str) -> tuple[str, str]:
        """Follow imports to the module that defines constant ``name`` (identity of a constant)."""
        m = self.module(modname)
        seen = set()
        while name in m.imports and (m.name, name) not in seen:
            seen.add((m.name, name))
            mm, nn = m.imports[name]
            if nn is None or mm not in self.mods:
                break
            m, name = self.mods[mm], nn
        return m.name, name

    # class hierarchy -------------------------------------------------------

    def bases(self, ci: ClassInfo) -> list[ClassInfo]:
        out = []
        for b in ci.node.bases:
            tgt = None
            if isinstance(b, ast.Name):
                tgt = self.resolve_name(ci.module, b.id)
            elif isinstance(b, ast.Subscript) and isinstance(b.value, ast.Name):
                tgt = self.resolve_name(ci.module, b.value.id)
            if isinstance(tgt, ClassInfo):
                out.append(tgt)
                out += self.bases(tgt)
        return out

    def mro(self, ci: ClassInfo) -> list[ClassInfo]:
        out = [ci]
        for b in self.bases(ci):
            if b not in out:
                out.append(b)
        return out

    def subclasses(self, ci: ClassInfo) -> list[ClassInfo]:
        if self._subclasses is None:
            self._subclasses = {}
            for m in self.mods.values():
                for c in m.classes.values():
                    for b in self.bases(c):
                        self._subclasses.setdefault(b.fq, []).append(c)
        return self._subclasses.get(ci.fq, [])

    def find_method(self, ci: ClassInfo, name: str) -> FuncInfo | None:
        for c in self.mro(ci):
            if name in c.methods:
                return c.methods[name]
        return None

    def method_overrides(self, ci: ClassInfo, name: str) -> list[FuncInfo]:
        """Class-hierarchy analysis: the method as seen from ``ci`` plus every override below it."""
        out = []
        base = self.find_method(ci, name)
        if base is not None:
            out.append(base)
        for sub in self.subclasses(ci):
            if name in sub.methods and sub.methods[name] not in out:
                out.append(sub.methods[name])
        return out

    def class_field_annotation(self, ci: ClassInfo, name: str) -> str | None:
        for c in self.mro(ci):
            if name in c.fields:
                return c.fields[name]
        return None

    # ------------------------------------------------------------------ constant folding

    def const(self, modname: str, name: str):
        m = self.module(modname)
        if name in m.consts:
            return m.consts[name]
        key = (modname, name)
        if key in self._folding:
            raise FoldError(f"cycle {key}")
        self._folding.add(key)
        try:
            if name in m.classes:
                v = self._fold_class(m, m.classes[name])
            elif name in m.funcs:
                v = RepoFunc(self, m.funcs[name])
            elif name in m.imports and not self._has_module_assign(m, name):
                mm, nn = m.imports[name]
                if nn is None:
                    raise FoldError(f"module object {name}")
                if mm not in self.mods:
                    raise FoldError(f"external import {name}")
                v = self.const(mm, nn)
            else:
                v = self._fold_module_assign(m, name)
            m.consts[name] = v
            return v
        finally:
            self._folding.discard(key)

    def _fold_module_assign(self, m: Module, name: str):
        found = False
        val = None
        for n in m.tree.body:
            if isinstance(n, ast.Assign) and len(n.targets) == 1 and isinstance(n.targets[0], ast.Tuple):
                names = [e.id if isinstance(e, ast.Name) else None for e in n.targets[0].elts]
                if name in names:
                    vals = list(Evaluator(self, m, {}).ev(n.value))
                    val = vals[names.index(name)]
                    found = True
                continue
            tgt = None
            if isinstance(n, ast.Assign) and len(n.targets) == 1 and isinstance(n.targets[0], ast.Name):
                tgt, ve = n.targets[0].id, n.value
            elif isinstance(n, ast.AnnAssign) and isinstance(n.target, ast.Name) and n.value is not None:
                tgt, ve = n.target.id, n.value
            if tgt == name:
                val = Evaluator(self, m, {}).ev(ve)
                found = True
        if not found:
            raise FoldError(f"no module-level definition of {m.name}.{name}")
        return val

    def _fold_class(self, m: Module, ci: ClassInfo):
        bases = ci.base_names
        if any(b in ("IntEnum", "Flag", "Enum", "IntFlag", "enum.IntEnum", "enum.Enum", "enum.Flag") for b in bases):
            members = {}
            auto_i = 0
            is_flag = any("Flag" in b for b in bases)
            for n in ci.node.body:
                if isinstance(n, ast.Assign) and len(n.targets) == 1 and isinstance(n.targets[0], ast.Name):
                    if isinstance(n.value, ast.Call) and ast.unparse(n.value.func) in ("auto", "enum.auto"):
                        val = (1 << auto_i) if is_flag else auto_i + 1
                        auto_i += 1
                    else:
                        val = Evaluator(self, m, dict(members)).ev(n.value)
                        if isinstance(val, int):
                            auto_i = max(auto_i, val.bit_length() if is_flag else val)
                    members[n.targets[0].id] = val
            if is_flag:
                base = enum.Flag
            elif any("IntEnum" in b for b in bases):
                base = enum.IntEnum
            else:
                base = enum.Enum
            return base(ci.name, members)
        return RepoClass(self, ci)

    def enum(self, name: str):
        """An enum class of enums.py, rebuilt from its AST."""
        try:
            v = self.const("enums", name)
        except FoldError as exc:
            raise AnalysisError(f"cannot rebuild enum {name}: {exc}") from exc
        if not (isinstance(v, type) and issubclass(v, enum.Enum)):
            raise AnalysisError(f"enums.{name} is not an enum")
        return v

    def fold(self, modname: str, name: str):
        """``const`` with fold failures turned into AnalysisError (for anchors)."""
        try:
            return self.const(modname, name)
        except FoldError as exc:
            raise AnalysisError(f"cannot fold {modname}.{name}: {exc}") from exc
        except AnalysisError:
            raise
        except Exception as exc:  # evaluation errors inside the folder
            raise AnalysisError(f"cannot fold {modname}.{name}: {type(exc).__name__}: {exc}") from exc


class RepoClass:
    def __init__(self, prog: Program, ci: ClassInfo):
        self.prog, self.ci = prog, ci
        self.name = ci.name

    def __repr__(self):
        return f"<repoclass {self.ci.fq}>"

    def method(self, name):
        fi = self.prog.find_method(self.ci, name)
        return RepoFunc(self.prog, fi, owner=self) if fi is not None else None

    def class_attr(self, name):
        for c in self.prog.mro(self.ci):
            for n in c.node.body:
                if isinstance(n, ast.Assign) and len(n.targets) == 1 and isinstance(n.targets[0], ast.Name) and n.targets[0].id == name:
                    return Evaluator(self.prog, c.module, {}).ev(n.value)
                if isinstance(n, ast.AnnAssign) and isinstance(n.target, ast.Name) and n.target.id == name and n.value is not None:
                    return Evaluator(self.prog, c.module, {}).ev(n.value)
        raise FoldError(f"class attr {self.name}.{name}")


class RepoFunc:
    def __init__(self, prog: Program, fi: FuncInfo, owner: RepoClass | None = None):
        self.prog, self.fi, self.owner = prog, fi, owner

    def __repr__(self):
        return f"<repofunc {self.fi.fq}>"

    def call(self, args, kwargs, depth=0):
        if depth > 6:
            raise FoldError("call depth")
        node = self.fi.node
        a = node.args
        env = {}
        params = [x.arg for x in a.posonlyargs + a.args]
        decos = self.fi.decorators()
        is_sm = "staticmethod" in decos
        if self.owner is not None and not is_sm:
            args = [self.owner, *args]
        defaults = a.defaults
        mod = self.fi.module
        for i, p in enumerate(params):
            if i < len(args):
                env[p] = args[i]
            elif p in kwargs:
                env[p] = kwargs[p]
            else:
                di = i - (len(params) - len(defaults))
                env[p] = Evaluator(self.prog, mod, {}).ev(defaults[di]) if di >= 0 else Hole(p)
        for p, d in zip(a.kwonlyargs, a.kw_defaults):
            if p.arg in kwargs:
                env[p.arg] = kwargs[p.arg]
            else:
                env[p.arg] = Evaluator(self.prog, mod, {}).ev(d) if d is not None else Hole(p.arg)
        ev = Evaluator(self.prog, mod, env, depth=depth + 1)
        return ev.run_body(node.body)


class _Return(Exception):
    def __init__(self, v):
        self.v = v


class _OSType:
    pass


_OS = _OSType()
_OSPATH = _OSType()


class Evaluator:
    SAFE_BUILTINS = {
        "min": min, "max": max, "sorted": sorted, "str": str, "int": int, "len": len,
        "tuple": tuple, "frozenset": frozenset, "set": set, "list": list, "dict": dict,
        "bool": bool, "sum": sum, "any": any, "all": all, "enumerate": enumerate, "zip": zip,
        "range": range, "bytes": bytes, "repr": repr, "chr": chr, "ord": ord, "float": float,
        "True": True, "False": False, "None": None,
    }

    def __init__(self, prog: Program, mod: Module, env, depth=0):
        self.prog, self.mod, self.env, self.depth = prog, mod, dict(env), depth

    def run_body(self, body):
        try:
            for st in body:
                self.st(st)
        except _Return as r:
            return r.v
        return None

    def st(self, n):
        if isinstance(n, ast.Return):
            raise _Return(self.ev(n.value) if n.value else None)
        if isinstance(n, ast.Expr):
            if isinstance(n.value, ast.Constant):
                return
            self.ev(n.value)
            return
        if isinstance(n, ast.Assign) and len(n.targets) == 1:
            self._bind(n.targets[0], self.ev(n.value), self.env)
            return
        if isinstance(n, ast.AnnAssign) and isinstance(n.target, ast.Name) and n.value is not None:
            self.env[n.target.id] = self.ev(n.value)
            return
        if isinstance(n, ast.AugAssign) and isinstance(n.target, ast.Name) and isinstance(n.op, ast.Add):
            cur = self.env[n.target.id]
            add = self.ev(n.value)
            if isinstance(cur, Hole) or isinstance(add, Hole):
                self.env[n.target.id] = str(cur) + str(add) if isinstance(cur, str) or isinstance(add, str) else Hole("aug")
            else:
                self.env[n.target.id] = cur + add
            return
        if isinstance(n, ast.If):
            c = self.ev(n.test)
            if isinstance(c, Hole):
                raise FoldError("branch on hole")
            for st in n.body if c else n.orelse:
                self.st(st)
            return
        if isinstance(n, ast.Raise):
            raise FoldError("raise reached")
        if isinstance(n, ast.Pass):
            return
        raise FoldError(f"stmt {type(n).__name__}")

    def ev(self, n):
        if isinstance(n, ast.Constant):
            return n.value
        if isinstance(n, ast.Name):
            if n.id in self.env:
                return self.env[n.id]
            if n.id in self.SAFE_BUILTINS:
                return self.SAFE_BUILTINS[n.id]
            if n.id == "os" and self.mod.ext_imports.get("os") == "os":
                return _OS
            return self.prog.const(self.mod.name, n.id)
        if isinstance(n, ast.JoinedStr):
            parts = []
            for v in n.values:
                if isinstance(v, ast.Constant):
                    parts.append(v.value)
                else:
                    val = self.ev(v.value)
                    spec = ""
                    if v.format_spec is not None:
                        spec = self.ev(v.format_spec)
                    if isinstance(val, Hole):
                        parts.append(str(val))
                    else:
                        if v.conversion == ord("r"):
                            val = repr(val)
                        elif v.conversion == ord("s"):
                            val = str(val)
                        parts.append(format(val, spec))
            return "".join(parts)
        if isinstance(n, ast.Attribute):
            base = self.ev(n.value)
            if base is _OS:
                if n.attr == "sep":
                    return "/"
                if n.attr == "path":
                    return _OSPATH
                raise FoldError(f"os.{n.attr}")
            if isinstance(base, Hole):
                return Hole(f"{base.name}.{n.attr}")
            if isinstance(base, RepoClass):
                m = base.method(n.attr)
                if m:
                    return m
                if n.attr == "__name__":
                    return base.name
                return base.class_attr(n.attr)
            if isinstance(base, (enum.Enum, type, str, dict, list, tuple, set, frozenset, int, bytes)):
                return getattr(base, n.attr)
            raise FoldError(f"attr on {type(base).__name__}")
        if isinstance(n, ast.Subscript):
            b = self.ev(n.value)
            if isinstance(n.slice, ast.Slice):
                k = slice(*(self.ev(x) if x else None for x in (n.slice.lower, n.slice.upper, n.slice.step)))
            else:
                k = self.ev(n.slice)
            if isinstance(b, Hole) or isinstance(k, Hole):
                return Hole("sub")
            return b[k]
        if isinstance(n, ast.BinOp):
            lhs, rhs = self.ev(n.left), self.ev(n.right)
            if isinstance(lhs, Hole) or isinstance(rhs, Hole):
                if isinstance(n.op, ast.Add) and (isinstance(lhs, str) or isinstance(rhs, str)):
                    return str(lhs) + str(rhs)
                return Hole("binop")
            ops = {
                ast.Add: lambda a, b: a + b, ast.BitOr: lambda a, b: a | b, ast.Sub: lambda a, b: a - b,
                ast.Mult: lambda a, b: a * b, ast.Mod: lambda a, b: a % b, ast.BitAnd: lambda a, b: a & b,
                ast.Pow: lambda a, b: a ** b, ast.LShift: lambda a, b: a << b, ast.FloorDiv: lambda a, b: a // b,
                ast.BitXor: lambda a, b: a ^ b, ast.Div: lambda a, b: a / b,
            }
            if type(n.op) not in ops:
                raise FoldError(f"binop {type(n.op).__name__}")
            return ops[type(n.op)](lhs, rhs)
        if isinstance(n, ast.UnaryOp):
            v = self.ev(n.operand)
            if isinstance(v, Hole):
                return Hole("unary")
            return {ast.Not: lambda a: not a, ast.USub: lambda a: -a, ast.Invert: lambda a: ~a, ast.UAdd: lambda a: +a}[type(n.op)](v)
        if isinstance(n, ast.BoolOp):
            vals = [self.ev(v) for v in n.values]
            if any(isinstance(v, Hole) for v in vals):
                return Hole("bool")
            r = vals[0]
            for v in vals[1:]:
                r = (r and v) if isinstance(n.op, ast.And) else (r or v)
            return r
        if isinstance(n, ast.Compare):
            lhs = self.ev(n.left)
            res = True
            for op, c in zip(n.ops, n.comparators):
                rhs = self.ev(c)
                if isinstance(lhs, Hole) or isinstance(rhs, Hole):
                    return Hole("cmp")
                f = {
                    ast.Eq: lambda a, b: a == b, ast.NotEq: lambda a, b: a != b, ast.In: lambda a, b: a in b,
                    ast.NotIn: lambda a, b: a not in b, ast.Is: lambda a, b: a is b, ast.IsNot: lambda a, b: a is not b,
                    ast.Lt: lambda a, b: a < b, ast.Gt: lambda a, b: a > b, ast.LtE: lambda a, b: a <= b,
                    ast.GtE: lambda a, b: a >= b,
                }[type(op)]
                res = res and f(lhs, rhs)
                lhs = rhs
            return res
        if isinstance(n, ast.IfExp):
            c = self.ev(n.test)
            if isinstance(c, Hole):
                raise FoldError("ifexp on hole")
            return self.ev(n.body if c else n.orelse)
        if isinstance(n, (ast.Tuple, ast.List, ast.Set)):
            vals = []
            for e in n.elts:
                if isinstance(e, ast.Starred):
                    vals.extend(self.ev(e.value))
                else:
                    vals.append(self.ev(e))
            return {ast.Tuple: tuple, ast.List: list, ast.Set: set}[type(n)](vals)
        if isinstance(n, ast.Dict):
            out = {}
            for k, v in zip(n.keys, n.values):
                if k is None:
                    out.update(self.ev(v))
                else:
                    out[self.ev(k)] = self.ev(v)
            return out
        if isinstance(n, (ast.GeneratorExp, ast.ListComp, ast.SetComp, ast.DictComp)):
            return self._comp(n)
        if isinstance(n, ast.Call):
            return self._call(n)
        if isinstance(n, ast.Starred):
            return self.ev(n.value)
        if isinstance(n, ast.NamedExpr) and isinstance(n.target, ast.Name):
            v = self.ev(n.value)
            self.env[n.target.id] = v
            return v
        raise FoldError(f"expr {type(n).__name__}")

    def _bind(self, target, value, env):
        if isinstance(target, ast.Name):
            env[target.id] = value
        elif isinstance(target, ast.Subscript):
            container = self.ev(target.value)
            key = self.ev(target.slice)
            if isinstance(container, Hole) or isinstance(key, Hole):
                return
            container[key] = value
        elif isinstance(target, (ast.Tuple, ast.List)):
            if isinstance(value, Hole):
                for t in target.elts:
                    self._bind(t, Hole("elt"), env)
                return
            vals = list(value)
            for t, v in zip(target.elts, vals):
                self._bind(t, v, env)
        else:
            raise FoldError("bind")

    def _comp(self, n):
        out = []

        def rec(i, env):
            if i == len(n.generators):
                sub = Evaluator(self.prog, self.mod, env, self.depth)
                if isinstance(n, ast.DictComp):
                    out.append((sub.ev(n.key), sub.ev(n.value)))
                else:
                    out.append(sub.ev(n.elt))
                return
            g = n.generators[i]
            it = Evaluator(self.prog, self.mod, env, self.depth).ev(g.iter)
            if isinstance(it, Hole):
                raise FoldError("comprehension over hole")
            for v in it:
                e2 = dict(env)
                self._bind(g.target, v, e2)
                sub = Evaluator(self.prog, self.mod, e2, self.depth)
                conds = [sub.ev(c) for c in g.ifs]
                if any(isinstance(c, Hole) for c in conds):
                    raise FoldError("comprehension filter on hole")
                if all(conds):
                    rec(i + 1, e2)

        rec(0, dict(self.env))
        if isinstance(n, ast.DictComp):
            return dict(out)
        if isinstance(n, ast.SetComp):
            return set(out)
        return out

    def _call(self, n):
        f = self.ev(n.func)
        args = []
        for a in n.args:
            if isinstance(a, ast.Starred):
                args.extend(self.ev(a.value))
            else:
                args.append(self.ev(a))
        kwargs = {k.arg: self.ev(k.value) for k in n.keywords if k.arg}
        if isinstance(f, RepoFunc):
            return f.call(args, kwargs, self.depth)
        if isinstance(f, RepoClass):
            return Hole(f"{f.name}()")
        if isinstance(f, Hole):
            return Hole(f"{f.name}()")
        if isinstance(f, type) and issubclass(f, enum.Enum):
            if any(isinstance(a, Hole) for a in args):
                return Hole(f.__name__)
            return f(*args)
        if callable(f):
            holes = any(isinstance(a, Hole) for a in args) or any(isinstance(v, Hole) for v in kwargs.values())
            nested = any(isinstance(a, (list, tuple)) and any(isinstance(x, Hole) for x in a) for a in args)
            if holes or nested:
                if getattr(f, "__name__", "") in ("join", "format", "replace"):
                    conv = [
                        str(a) if isinstance(a, Hole) else ([str(x) for x in a] if isinstance(a, (list, tuple)) else a)
                        for a in args
                    ]
                    return f(*conv, **{k: str(v) for k, v in kwargs.items()})
                return Hole(getattr(f, "__name__", "call"))
            return f(*args, **kwargs)
        raise FoldError(f"call {ast.unparse(n.func)}")


_PROGRAM_CACHE: dict[str, Program] = {}


def load_program(repo="/repo") -> Program:
    key = str(pathlib.Path(repo).resolve())
    if key not in _PROGRAM_CACHE:
        _PROGRAM_CACHE[key] = Program(repo)
    return _PROGRAM_CACHE[key]
