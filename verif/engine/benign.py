"""Behaviour-preserving rewrites of the whole package, used to measure that the rules do not react to them.

Each kind rewrites every module of stepup/core (AST level) into a scratch directory.  A rule that reports a
violation on such a tree demands more than its property states; an ANALYSIS-ERROR means an anchor was lost.
"""
from __future__ import annotations

import ast
import pathlib

KINDS = ["reformat", "rename-locals", "add-statement", "sql-whitespace", "rename+add", "messages", "strip-local-annotations",
         "return-temp", "reorder-keywords", "annotate-locals", "hoist-condition", "swap-if-else", "else-after-return", "split-and"]


class LocalRenamer(ast.NodeTransformer):
    def __init__(self):
        self.stack = []

    def _locals_of(self, fn):
        params = {a.arg for a in fn.args.posonlyargs + fn.args.args + fn.args.kwonlyargs}
        if fn.args.vararg:
            params.add(fn.args.vararg.arg)
        if fn.args.kwarg:
            params.add(fn.args.kwarg.arg)
        assigned, banned = set(), set(params)
        nested_names = set()
        for n in ast.walk(fn):
            if n is fn:
                continue
            if isinstance(n, (ast.FunctionDef, ast.AsyncFunctionDef, ast.Lambda, ast.ClassDef)):
                for m in ast.walk(n):
                    if isinstance(m, ast.Name):
                        nested_names.add(m.id)
                if not isinstance(n, ast.Lambda):
                    banned.add(n.name)
            elif isinstance(n, (ast.Global, ast.Nonlocal)):
                banned.update(n.names)
            elif isinstance(n, (ast.ListComp, ast.SetComp, ast.DictComp, ast.GeneratorExp)):
                for m in ast.walk(n):
                    if isinstance(m, ast.Name):
                        nested_names.add(m.id)
        for n in ast.walk(fn):
            if isinstance(n, ast.Name) and isinstance(n.ctx, ast.Store):
                assigned.add(n.id)
            elif isinstance(n, ast.ExceptHandler) and n.name:
                banned.add(n.name)
            elif isinstance(n, (ast.Import, ast.ImportFrom)):
                for a in n.names:
                    banned.add((a.asname or a.name).split(".")[0])
            elif isinstance(n, ast.MatchAs) and n.name:
                banned.add(n.name)
        return {x for x in assigned if x not in banned and x not in nested_names and not x.startswith("_")}

    def visit_FunctionDef(self, node):
        names = self._locals_of(node)
        self.stack.append(names)
        node.body = [self.visit(s) for s in node.body]
        self.stack.pop()
        return node

    visit_AsyncFunctionDef = visit_FunctionDef

    def visit_Name(self, node):
        if self.stack and node.id in self.stack[-1]:
            return ast.copy_location(ast.Name(id=node.id + "_r", ctx=node.ctx), node)
        return node

    def visit_Lambda(self, node):
        return node

    def visit_ClassDef(self, node):
        saved = self.stack
        self.stack = []
        node = self.generic_visit(node)
        self.stack = saved
        return node


class AddLogging(ast.NodeTransformer):
    """Insert a harmless statement at the top of every function body (after the docstring)."""

    def visit_FunctionDef(self, node):
        self.generic_visit(node)
        stmt = ast.parse("_audit_marker = None").body[0]
        i = 1 if (node.body and isinstance(node.body[0], ast.Expr) and isinstance(node.body[0].value, ast.Constant) and isinstance(node.body[0].value.value, str)) else 0
        node.body.insert(i, stmt)
        return node

    visit_AsyncFunctionDef = visit_FunctionDef


class EditMessages(ast.NodeTransformer):
    """Reword docstrings, logger messages and the literal parts of exception messages (all sites alike)."""

    def _doc(self, node):
        if node.body and isinstance(node.body[0], ast.Expr) and isinstance(node.body[0].value, ast.Constant) and isinstance(node.body[0].value.value, str):
            node.body[0].value = ast.Constant(value=node.body[0].value.value + "\n\nReworded.")

    def visit_FunctionDef(self, node):
        self._doc(node)
        self.generic_visit(node)
        return node

    visit_AsyncFunctionDef = visit_FunctionDef
    visit_ClassDef = visit_FunctionDef

    def visit_Call(self, node):
        self.generic_visit(node)
        f = node.func
        if isinstance(f, ast.Attribute) and isinstance(f.value, ast.Name) and f.value.id == "logger" and node.args and isinstance(node.args[0], ast.Constant) and isinstance(node.args[0].value, str):
            node.args[0] = ast.Constant(value="[log] " + node.args[0].value)
        return node

    def visit_Raise(self, node):
        self.generic_visit(node)
        exc = node.exc
        if isinstance(exc, ast.Call) and exc.args:
            a = exc.args[0]
            if isinstance(a, ast.Constant) and isinstance(a.value, str):
                exc.args[0] = ast.Constant(value=a.value + " (reworded)")
            elif isinstance(a, ast.JoinedStr):
                a.values.append(ast.Constant(value=" (reworded)"))
        return node


class ReturnTemp(ast.NodeTransformer):
    """`return <expr>` becomes `_ret = <expr>; return _ret` (a common refactoring before adding a log line)."""

    def _fix(self, body):
        out = []
        for st in body:
            if isinstance(st, ast.Return) and st.value is not None and not isinstance(st.value, (ast.Name, ast.Constant)):
                out.append(ast.Assign(targets=[ast.Name(id="_ret", ctx=ast.Store())], value=st.value, lineno=st.lineno))
                out.append(ast.Return(value=ast.Name(id="_ret", ctx=ast.Load())))
            else:
                out.append(st)
        return out

    def generic_visit(self, node):
        super().generic_visit(node)
        for field in ("body", "orelse", "finalbody"):
            b = getattr(node, field, None)
            if isinstance(b, list) and b and isinstance(b[0], ast.stmt):
                setattr(node, field, self._fix(b))
        return node


class StripLocalAnnotations(ast.NodeTransformer):
    """`x: T = v` inside functions becomes `x = v`."""

    def __init__(self):
        self.depth = 0

    def visit_FunctionDef(self, node):
        self.depth += 1
        self.generic_visit(node)
        self.depth -= 1
        return node

    visit_AsyncFunctionDef = visit_FunctionDef

    def visit_AnnAssign(self, node):
        if self.depth and node.value is not None and isinstance(node.target, ast.Name):
            return ast.copy_location(ast.Assign(targets=[node.target], value=node.value), node)
        return node


class ReorderKeywords(ast.NodeTransformer):
    """Reverse the order of keyword arguments in every call (evaluation order of side-effect-free arguments)."""

    def visit_Call(self, node):
        self.generic_visit(node)
        if len(node.keywords) >= 2 and all(k.arg is not None for k in node.keywords) and all(isinstance(k.value, (ast.Name, ast.Constant, ast.Attribute)) for k in node.keywords):
            node.keywords = list(reversed(node.keywords))
        return node


class AnnotateLocals(ast.NodeTransformer):
    """The first plain assignment of every local becomes an annotated assignment (`x: "object" = v`)."""

    def visit_FunctionDef(self, node):
        self.generic_visit(node)
        seen = set()
        params = {a.arg for a in node.args.posonlyargs + node.args.args + node.args.kwonlyargs}
        declared = set()
        for n in ast.walk(node):
            if isinstance(n, (ast.Global, ast.Nonlocal)):
                declared |= set(n.names)

        def fix(body):
            out = []
            for st in body:
                if (isinstance(st, ast.Assign) and len(st.targets) == 1 and isinstance(st.targets[0], ast.Name) and st.targets[0].id not in seen
                        and st.targets[0].id not in params and st.targets[0].id not in declared):
                    seen.add(st.targets[0].id)
                    out.append(ast.copy_location(ast.AnnAssign(target=st.targets[0], annotation=ast.Constant(value="object"), value=st.value, simple=1), st))
                else:
                    if isinstance(st, ast.Assign):
                        for t in st.targets:
                            for x in ast.walk(t):
                                if isinstance(x, ast.Name):
                                    seen.add(x.id)
                    out.append(st)
            return out

        node.body = fix(node.body)
        return node

    visit_AsyncFunctionDef = visit_FunctionDef


class HoistCondition(ast.NodeTransformer):
    """`if <call or boolean expression>:` becomes `_cond = <expr>; if _cond:` (a common step before logging it)."""

    def _fix(self, body):
        out = []
        for st in body:
            if isinstance(st, ast.If) and isinstance(st.test, (ast.Call, ast.BoolOp, ast.Compare)) and not any(isinstance(x, (ast.NamedExpr, ast.Await)) for x in ast.walk(st.test)):
                out.append(ast.Assign(targets=[ast.Name(id="_cond", ctx=ast.Store())], value=st.test, lineno=st.lineno))
                st.test = ast.Name(id="_cond", ctx=ast.Load())
            out.append(st)
        return out

    def generic_visit(self, node):
        super().generic_visit(node)
        for field in ("body", "orelse", "finalbody"):
            b = getattr(node, field, None)
            if isinstance(b, list) and b and isinstance(b[0], ast.stmt):
                # an `elif` chain keeps its shape: only rewrite statement lists, not the single-If orelse of an elif
                if field == "orelse" and isinstance(node, ast.If) and len(b) == 1 and isinstance(b[0], ast.If):
                    continue
                setattr(node, field, self._fix(b))
        return node


NEG_OP = {ast.Is: ast.IsNot, ast.IsNot: ast.Is, ast.Eq: ast.NotEq, ast.NotEq: ast.Eq, ast.In: ast.NotIn, ast.NotIn: ast.In,
          ast.Lt: ast.GtE, ast.GtE: ast.Lt, ast.LtE: ast.Gt, ast.Gt: ast.LtE}


def negate(test):
    """The simplest expression equivalent to `not <test>`."""
    if isinstance(test, ast.UnaryOp) and isinstance(test.op, ast.Not):
        return test.operand
    if isinstance(test, ast.Compare) and len(test.ops) == 1 and type(test.ops[0]) in NEG_OP:
        return ast.Compare(left=test.left, ops=[NEG_OP[type(test.ops[0])]()], comparators=test.comparators)
    return ast.UnaryOp(op=ast.Not(), operand=test)


class SwapIfElse(ast.NodeTransformer):
    """`if T: A else: B` becomes `if not T: B else: A` (elif chains keep their shape)."""

    def visit_If(self, node):
        self.generic_visit(node)
        if node.orelse and not (len(node.orelse) == 1 and isinstance(node.orelse[0], ast.If)) and not (len(node.body) == 1 and isinstance(node.body[0], ast.If)):
            node.test = negate(node.test)
            node.body, node.orelse = node.orelse, node.body
        return node


TERMINATORS = (ast.Return, ast.Raise, ast.Continue, ast.Break)


class ElseAfterReturn(ast.NodeTransformer):
    """`if T: ...; return` followed by more statements becomes `if T: ...; return` / `else: <those statements>`."""

    def _fix(self, body):
        for k, st in enumerate(body):
            if isinstance(st, ast.If) and not st.orelse and st.body and isinstance(st.body[-1], TERMINATORS) and k + 1 < len(body):
                rest = body[k + 1:]
                # keep function-level definitions and docstrings where they are
                if any(isinstance(x, (ast.FunctionDef, ast.AsyncFunctionDef, ast.ClassDef)) for x in rest):
                    continue
                st.orelse = rest
                return body[:k + 1]
        return body

    def generic_visit(self, node):
        super().generic_visit(node)
        for field in ("body", "orelse", "finalbody"):
            b = getattr(node, field, None)
            if isinstance(b, list) and b and isinstance(b[0], ast.stmt):
                if field == "orelse" and isinstance(node, ast.If) and len(b) == 1 and isinstance(b[0], ast.If):
                    continue
                setattr(node, field, self._fix(b))
        return node


class SplitAnd(ast.NodeTransformer):
    """`if A and B: body` (no else) becomes `if A:` / `if B: body`."""

    def visit_If(self, node):
        self.generic_visit(node)
        if not node.orelse and isinstance(node.test, ast.BoolOp) and isinstance(node.test.op, ast.And) and not any(isinstance(x, ast.NamedExpr) for x in ast.walk(node.test)):
            first, rest = node.test.values[0], node.test.values[1:]
            inner_test = rest[0] if len(rest) == 1 else ast.BoolOp(op=ast.And(), values=rest)
            inner = ast.If(test=inner_test, body=node.body, orelse=[])
            return ast.copy_location(ast.If(test=first, body=[ast.copy_location(inner, node)], orelse=[]), node)
        return node


class SqlWhitespace(ast.NodeTransformer):
    """Collapse runs of whitespace inside SQL string constants (line-comment free ones only)."""

    def visit_Constant(self, node):
        import re

        if isinstance(node.value, str) and re.search(r"\b(SELECT|UPDATE|INSERT|DELETE|CREATE)\b", node.value) and "--" not in node.value:
            return ast.copy_location(ast.Constant(value=re.sub(r"[ \t]*\n[ \t]*", "\n", node.value)), node)
        return node


def make_variant(kind, dst, repo="/repo"):
    dst = pathlib.Path(dst)
    core = dst / "stepup" / "core"
    core.mkdir(parents=True)
    for p in sorted((pathlib.Path(repo) / "stepup" / "core").glob("*.py")):
        text = p.read_text()
        tree = ast.parse(text)
        if kind == "rename-locals":
            tree = LocalRenamer().visit(tree)
            ast.fix_missing_locations(tree)
        elif kind == "rename+add":
            tree = LocalRenamer().visit(tree)
            tree = AddLogging().visit(tree)
            ast.fix_missing_locations(tree)
        elif kind == "add-statement":
            tree = AddLogging().visit(tree)
            ast.fix_missing_locations(tree)
        elif kind == "return-temp":
            tree = ReturnTemp().visit(tree)
            ast.fix_missing_locations(tree)
        elif kind == "strip-local-annotations":
            tree = StripLocalAnnotations().visit(tree)
            ast.fix_missing_locations(tree)
        elif kind == "reorder-keywords":
            tree = ReorderKeywords().visit(tree)
            ast.fix_missing_locations(tree)
        elif kind == "annotate-locals":
            tree = AnnotateLocals().visit(tree)
            ast.fix_missing_locations(tree)
        elif kind == "hoist-condition":
            tree = HoistCondition().visit(tree)
            ast.fix_missing_locations(tree)
        elif kind == "swap-if-else":
            tree = SwapIfElse().visit(tree)
            ast.fix_missing_locations(tree)
        elif kind == "else-after-return":
            tree = ElseAfterReturn().visit(tree)
            ast.fix_missing_locations(tree)
        elif kind == "split-and":
            tree = SplitAnd().visit(tree)
            ast.fix_missing_locations(tree)
        elif kind == "messages":
            tree = EditMessages().visit(tree)
            ast.fix_missing_locations(tree)
        elif kind == "sql-whitespace":
            tree = SqlWhitespace().visit(tree)
            ast.fix_missing_locations(tree)
        (core / p.name).write_text(ast.unparse(tree) + "\n")
    # the variant must still compile
    for p in core.glob("*.py"):
        compile(p.read_text(), str(p), "exec")


