"""E6 — rule runner: instances, minimum counts, known findings, evidence, exit codes."""
from __future__ import annotations

import json
import os
import pathlib
import sys
import time
import traceback
from dataclasses import dataclass, field

from .source import AnalysisError, Program, load_program

VERIF_ROOT = pathlib.Path(__file__).resolve().parents[2]
EVIDENCE_DIR = VERIF_ROOT / "evidence"
KNOWN_FINDINGS = VERIF_ROOT / "known_findings.json"


@dataclass
class Instance:
    """One evaluated rule instance."""

    rule: str
    site: str  # module.qualname or catalogue object the instance is about
    construct: str  # normalised construct (what was checked at that site)
    ok: bool
    reason: str = ""  # why it fails / what was established
    facts: dict = field(default_factory=dict)
    control: bool = False  # built-in positive control, not a repo construct
    where: str = ""  # file:line for the report

    def key(self):
        return (self.rule, self.site, self.construct)


class Ctx:
    """Everything a rule needs; engines are built lazily and shared between rules of one run."""

    def __init__(self, repo: str):
        self.repo = repo
        self.prog: Program = load_program(repo)
        self._sql = None
        self._cg = None
        self.instances: list[Instance] = []
        self.stats: dict = {}
        self.current_rule = ""
        self.min_counts: dict[str, int] = {}
        self.notes: list[str] = []

    @property
    def sql(self):
        if self._sql is None:
            from .sqlfront import load_sql_model

            self._sql = load_sql_model(self.prog)
        return self._sql

    @property
    def cat(self):
        return self.sql.cat

    @property
    def cg(self):
        if self._cg is None:
            from .callgraph import load_callgraph

            self._cg = load_callgraph(self.prog)
        return self._cg

    # -- reporting helpers used by the rules

    def _add(self, inst: Instance):
        # the same verdict about the same construct reached along several paths is one instance
        k = (inst.rule, inst.site, inst.construct, inst.ok, inst.reason)
        seen = self.__dict__.setdefault("_seen", {})
        if k in seen:
            seen[k].facts["paths"] = seen[k].facts.get("paths", 1) + 1
            return
        seen[k] = inst
        self.instances.append(inst)

    def ok(self, site, construct, reason="", where="", **facts):
        self._add(Instance(self.current_rule, site, construct, True, reason, facts, where=where))

    def bad(self, site, construct, reason, where="", **facts):
        self._add(Instance(self.current_rule, site, construct, False, reason, facts, where=where))

    def check(self, cond, site, construct, reason_bad, reason_ok="", where="", **facts):
        if cond:
            self.ok(site, construct, reason_ok, where=where, **facts)
        else:
            self.bad(site, construct, reason_bad, where=where, **facts)
        return cond

    def control(self, cond, construct, reason_bad):
        """Positive control of the checker itself; failure is an analysis error."""
        self.instances.append(Instance(self.current_rule, "<control>", construct, True, "", {}, control=True))
        if not cond:
            raise AnalysisError(f"{self.current_rule}: positive control failed: {construct}: {reason_bad}")

    def where_of(self, fi, node=None) -> str:
        line = getattr(node, "lineno", None) or getattr(fi.node, "lineno", 0)
        return f"stepup/core/{fi.module.path.name}:{line}"


@dataclass
class Rule:
    rid: str
    title: str
    func: callable
    min_instances: int = 1


def load_known():
    if not KNOWN_FINDINGS.exists():
        return []
    data = json.loads(KNOWN_FINDINGS.read_text())
    return data.get("findings", [])


def match_known(inst: Instance, prop: str, known) -> dict | None:
    for k in known:
        if k.get("status") != "known":
            continue
        if k.get("property") != prop or k.get("rule") != inst.rule:
            continue
        if k.get("site") != inst.site:
            continue
        if k.get("construct") and k["construct"] != inst.construct:
            continue
        return k
    return None


def run_property(prop: str, rules: list[Rule], explanation: str, assumptions: list[str], repo: str, tier: str,
                 seed: int, audit=None, write_evidence=True, quiet=False) -> int:
    """Run all rules of one property. Returns the process exit status."""
    t0 = time.time()
    out = sys.stdout
    try:
        ctx = Ctx(repo)
        per_rule = {}
        for rule in rules:
            ctx.current_rule = rule.rid
            n0 = len(ctx.instances)
            rule.func(ctx)
            mine = [i for i in ctx.instances[n0:] if not i.control]
            per_rule[rule.rid] = dict(title=rule.title, instances=len(mine), violations=sum(1 for i in mine if not i.ok))
            # a rule that already reports a specific construct says more than 'too few instances'
            if len(mine) < rule.min_instances and all(i.ok for i in mine):
                raise AnalysisError(
                    f"{rule.rid}: only {len(mine)} instance(s) matched, {rule.min_instances} confirmed by hand "
                    f"(a rule that matches nothing passes vacuously)"
                )
        audit_stats = None
        if tier == "thorough" and audit is not None:
            audit_stats = audit(repo, seed)
    except AnalysisError as exc:
        print(f"ANALYSIS-ERROR property={prop} {exc}", file=out)
        return 2
    except Exception:
        tb = traceback.format_exc()
        print(f"ANALYSIS-ERROR property={prop} unexpected exception in the analyser:\n{tb}", file=out)
        return 2

    known = load_known()
    violations, known_hits = [], []
    seen = set()
    for inst in ctx.instances:
        if inst.ok or inst.control:
            continue
        if inst.key() in seen:
            continue
        seen.add(inst.key())
        k = match_known(inst, prop, known)
        if k is not None:
            known_hits.append((inst, k))
        else:
            violations.append(inst)

    real = [i for i in ctx.instances if not i.control]
    distinct = {i.key() for i in real}
    if not quiet:
        print(f"[{prop}] repo={repo} tier={tier} modules={len(ctx.prog.mods)} "
              f"functions={sum(1 for _ in ctx.prog.all_functions())}", file=out)
        for rid, st in per_rule.items():
            print(f"[{prop}] {rid}: {st['instances']} instance(s), {st['violations']} failing — {st['title']}", file=out)
        if ctx._sql is not None:
            m = ctx._sql
            print(f"[{prop}] sql: {len(m.census.sites)} call sites, {len(m.stmts)} statements compiled, "
                  f"{len(m.cat.triggers)} triggers, {len(m.cat.tables)} tables, "
                  f"{m.tolerated_variants()} path-insensitive SELECT variants tolerated", file=out)
    if audit_stats is not None and not quiet:
        print(f"[{prop}] sensitivity audit: {audit_stats['mutants_killed']}/{audit_stats['mutants_generated']} mutants detected, "
              f"{audit_stats['variants_silent']}/{audit_stats['variants_checked']} behaviour-preserving variants silent, "
              f"not applicable on this tree: {audit_stats['skipped_not_applicable']}", file=out)
    for inst, k in known_hits:
        print(f"KNOWN-FINDING: property={prop} {inst.rule} {inst.site}: {inst.construct}: {inst.reason} [{k.get('id', '')}]", file=out)

    status = 0
    replay_path = None
    if violations:
        status = 1
        EVIDENCE_DIR.mkdir(exist_ok=True)
        (EVIDENCE_DIR / "replay").mkdir(exist_ok=True)
        replay_path = EVIDENCE_DIR / "replay" / f"{prop}.json"
        replay_path.write_text(json.dumps({
            "property": prop, "repo": repo,
            "violations": [dict(rule=i.rule, site=i.site, where=i.where, construct=i.construct, reason=i.reason, facts=_jsonable(i.facts)) for i in violations],
        }, indent=1))
        for i in violations:
            print(f"  {i.where or i.site}: {i.rule}: {i.site}: {i.construct}: {i.reason}", file=out)
        print(f"VIOLATION property={prop} replay={replay_path}", file=out)

    if write_evidence:
        samples = []
        per_rule_seen = {}
        for i in real:
            n = per_rule_seen.get(i.rule, 0)
            if n < 3:
                per_rule_seen[i.rule] = n + 1
                samples.append(dict(rule=i.rule, site=i.site, where=i.where, construct=i.construct, ok=i.ok,
                                    reason=i.reason, facts=_jsonable(i.facts)))
        cov = dict(
            explanation=explanation,
            evaluations=len(real),
            distinct_nontrivial=len(distinct),
            rule="every instance of every rule in the package is enumerated (no sampling); an instance is "
                 "non-trivial when it is about a construct of the repository (built-in positive controls are "
                 "excluded); distinct = distinct (rule, site, construct) keys",
            obligations=len(distinct),
            discharged=len({i.key() for i in real if i.ok}) + len({i.key() for i, _ in known_hits}),
            exhaustive=True,
            samples=samples,
            rules=per_rule,
            analysed=dict(modules=len(ctx.prog.mods), functions=sum(1 for _ in ctx.prog.all_functions()),
                          source_digest=ctx.prog.digest[:16]),
            known_findings=[dict(rule=i.rule, site=i.site, construct=i.construct) for i, _ in known_hits],
            controls=sum(1 for i in ctx.instances if i.control),
        )
        if ctx._sql is not None:
            m = ctx._sql
            cov["analysed"].update(sql_call_sites=len(m.census.sites), sql_statements=len(m.stmts),
                                   triggers=len(m.cat.triggers), tables=len(m.cat.tables),
                                   tolerated_select_variants=m.tolerated_variants(), exempt_sites=len(m.exempt))
        if ctx._cg is not None:
            cov["analysed"].update(ctx._cg.stats())
        if ctx.notes:
            cov["notes"] = ctx.notes
        if audit_stats is not None:
            cov["sensitivity_audit"] = audit_stats
        ev = dict(property_id=prop, tier=tier, seed=seed, level="other", coverage=cov, assumptions=assumptions,
                  wall_s=round(time.time() - t0, 3), violations=len(violations))
        EVIDENCE_DIR.mkdir(exist_ok=True)
        (EVIDENCE_DIR / f"{prop}.json").write_text(json.dumps(ev, indent=1, sort_keys=False) + "\n")
    if not quiet:
        print(f"[{prop}] {'OK' if status == 0 else 'FAILED'}: {len(real)} instances, {len(violations)} violation(s), "
              f"{len(known_hits)} known finding(s), {time.time() - t0:.2f}s", file=out)
    return status


def evaluate_rules(rules: list[Rule], repo: str) -> tuple[list[Instance], str | None]:
    """Run rules on a tree and return (instances, analysis_error) — used by the sensitivity audit."""
    try:
        ctx = Ctx(repo)
        for rule in rules:
            ctx.current_rule = rule.rid
            n0 = len(ctx.instances)
            rule.func(ctx)
            mine = [i for i in ctx.instances[n0:] if not i.control]
            if len(mine) < rule.min_instances:
                return ctx.instances, f"{rule.rid}: instance count {len(mine)} below {rule.min_instances}"
        return ctx.instances, None
    except AnalysisError as exc:
        return [], str(exc)
    except Exception as exc:
        return [], f"exception {type(exc).__name__}: {exc}"


def _jsonable(v):
    if isinstance(v, dict):
        return {str(k): _jsonable(x) for k, x in v.items()}
    if isinstance(v, (list, tuple, set, frozenset)):
        return [_jsonable(x) for x in (sorted(v, key=repr) if isinstance(v, (set, frozenset)) else v)]
    if isinstance(v, (str, int, float, bool)) or v is None:
        return v
    return repr(v)
