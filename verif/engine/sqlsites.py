"""E1b — census of SQL call sites with abstract string-set evaluation of the enclosing function.

For every ``<recv>.execute / executemany / executescript(<sql>, ...)`` call in ``stepup/core`` the
set of SQL texts the first argument can evaluate to is computed by evaluating the enclosing
function's assignments abstractly (branches give unions, loops are run twice, run-time values are
holes).  A hole in *value* position stays a hole in the text (rendered ``⟦name⟧``) and is later
replaced by ``?`` by the SQL front end; a parameter hole in *text* position is enumerated from the
constant arguments of the function's call sites.
"""
from __future__ import annotations

import ast
import itertools
import re
from dataclasses import dataclass, field

from .source import (AnalysisError, Evaluator, FoldError, FuncInfo, Hole, Module, Program,
                     has_hole)

MAXV = 64
EXEC_METHODS = ("execute", "executemany", "executescript")


@dataclass
class SqlSite:
    func: FuncInfo
    lineno: int
    col: int
    method: str
    receiver: str
    call: ast.Call
    texts: set = field(default_factory=set)  # str values (may contain ⟦holes⟧) or Hole
    params: set = field(default_factory=set)  # folded values of the bound-parameter argument
    params_in_text: set = field(default_factory=set)

    @property
    def where(self) -> str:
        return f"{self.func.module.path.name}:{self.lineno} {self.func.fq}"

    @property
    def key(self) -> tuple:
        return (self.func.fq, self.lineno, self.col)

    def full_texts(self) -> list[str]:
        return sorted(t for t in self.texts if isinstance(t, str))

    def unresolved(self) -> bool:
        return any(not isinstance(t, str) for t in self.texts) or not self.texts


class _ChoiceEvaluator(Evaluator):
    """Evaluator that resolves ``IfExp`` / ``BoolOp`` on holes through an external choice vector."""

    def __init__(self, prog, mod, env, choices, depth=0):
        super().__init__(prog, mod, env, depth)
        self.choices = choices  # dict id(node) -> bool
        self.asked = []

    def ev(self, n):
        if isinstance(n, ast.IfExp):
            c = super().ev(n.test)
            if isinstance(c, Hole):
                key = (n.lineno, n.col_offset)
                if key not in self.choices:
                    self.asked.append(key)
                    raise _NeedChoice(key)
                c = self.choices[key]
            return self.ev(n.body if c else n.orelse)
        return super().ev(n)


class _NeedChoice(Exception):
    def __init__(self, key):
        self.key = key


def _freeze(v):
    if isinstance(v, list):
        return tuple(_freeze(x) for x in v)
    if isinstance(v, set):
        return frozenset(_freeze(x) for x in v)
    if isinstance(v, dict):
        return tuple(sorted(((_freeze(k), _freeze(x)) for k, x in v.items()), key=repr))
    return v


class StringSetEvaluator:
    """Abstract evaluation of one function body: local name -> set of possible folded values."""

    def __init__(self, prog: Program, on_call=None):
        self.prog = prog
        self.on_call = on_call  # callback(func, call_node, evalset_fn, env)

    def evalset(self, m: Module, expr, env) -> set:
        names = sorted({n.id for n in ast.walk(expr) if isinstance(n, ast.Name) and n.id in env})
        pools = [sorted(env[n], key=repr) for n in names]
        combos = itertools.product(*pools) if names else [()]
        out = set()
        for combo in itertools.islice(combos, MAXV * 4):
            e = dict(zip(names, combo))
            out |= self._eval_choices(m, expr, e)
            if len(out) > MAXV:
                break
        return out

    def _eval_choices(self, m, expr, e) -> set:
        out = set()
        pending = [dict()]
        guard = 0
        while pending:
            guard += 1
            if guard > 256:
                out.add(Hole("choice-explosion"))
                break
            choices = pending.pop()
            try:
                out.add(_freeze(_ChoiceEvaluator(self.prog, m, e, choices).ev(expr)))
            except _NeedChoice as nc:
                for b in (True, False):
                    c2 = dict(choices)
                    c2[nc.key] = b
                    pending.append(c2)
            except FoldError as exc:
                out.add(Hole(f"unfolded:{exc}"))
            except Exception as exc:  # evaluation error inside the folder
                out.add(Hole(f"error:{type(exc).__name__}"))
        return out

    # -- statements

    def run_function(self, fi: FuncInfo, visit_expr):
        """Walk the body; ``visit_expr(stmt_expr_node, env)`` is called for each own expression."""
        env = {}
        a = fi.node.args
        for x in a.posonlyargs + a.args + a.kwonlyargs:
            env[x.arg] = {Hole(f"param:{x.arg}")}
        if a.vararg:
            env[a.vararg.arg] = {Hole(f"param:{a.vararg.arg}")}
        if a.kwarg:
            env[a.kwarg.arg] = {Hole(f"param:{a.kwarg.arg}")}
        self.block(fi.module, fi.node.body, env, visit_expr)

    def block(self, m, body, env, visit):
        for st in body:
            self.stmt(m, st, env, visit)

    def own_exprs(self, st):
        if isinstance(st, (ast.If, ast.While)):
            return [st.test]
        if isinstance(st, (ast.For, ast.AsyncFor)):
            return [st.iter]
        if isinstance(st, (ast.With, ast.AsyncWith)):
            return [i.context_expr for i in st.items]
        if isinstance(st, (ast.Try, ast.FunctionDef, ast.AsyncFunctionDef, ast.ClassDef)):
            return []
        if isinstance(st, ast.Match):
            return [st.subject]
        return [st]

    def stmt(self, m, st, env, visit):
        for node in self.own_exprs(st):
            visit(node, env)
        if isinstance(st, ast.Assign) and len(st.targets) == 1 and isinstance(st.targets[0], ast.Name):
            env[st.targets[0].id] = self.evalset(m, st.value, env)
        elif isinstance(st, ast.Assign) and len(st.targets) == 1 and isinstance(st.targets[0], (ast.Tuple, ast.List)):
            tgt = st.targets[0]
            if isinstance(st.value, (ast.Tuple, ast.List)) and len(st.value.elts) == len(tgt.elts) and not any(isinstance(e, ast.Starred) for e in list(st.value.elts) + list(tgt.elts)):
                # `a, b = X, Y`: element by element (one unfoldable element must not hide the others)
                vals_each = [self.evalset(m, e, env) for e in st.value.elts]
                for t, vs in zip(tgt.elts, vals_each):
                    self.bind(t, vs, env)
            else:
                vals = self.evalset(m, st.value, env)
                self.bind(tgt, vals, env)
        elif isinstance(st, ast.AnnAssign) and isinstance(st.target, ast.Name) and st.value is not None:
            env[st.target.id] = self.evalset(m, st.value, env)
        elif isinstance(st, ast.AugAssign) and isinstance(st.target, ast.Name):
            cur = env.get(st.target.id, {Hole(st.target.id)})
            add = self.evalset(m, st.value, env)
            new = set()
            for a in cur:
                for b in add:
                    if isinstance(a, str) and isinstance(b, str):
                        new.add(a + b)
                    elif isinstance(a, str) or isinstance(b, str):
                        new.add(str(a) + str(b))
                    else:
                        new.add(Hole("aug"))
                    if len(new) > MAXV:
                        break
            env[st.target.id] = new
        elif isinstance(st, ast.If):
            e1 = {k: set(v) for k, v in env.items()}
            e2 = {k: set(v) for k, v in env.items()}
            test = self.evalset(m, st.test, env)
            take = None
            if len(test) == 1:
                t = next(iter(test))
                if not isinstance(t, Hole):
                    try:
                        take = bool(t)
                    except Exception:
                        take = None
            if take is not False:
                self.block(m, st.body, e1, visit)
            if take is not True:
                self.block(m, st.orelse, e2, visit)
            for k in set(e1) | set(e2):
                a = e1.get(k) if take is not False else None
                b = e2.get(k) if take is not True else None
                env[k] = (a or set()) | (b or set())
        elif isinstance(st, (ast.For, ast.AsyncFor)):
            it = self.evalset(m, st.iter, env)
            vals = set()
            for v in it:
                if isinstance(v, (tuple, list, frozenset)) and len(v) <= 16:
                    vals |= set(v)
                else:
                    vals.add(Hole("loopvar"))
            before = {k: set(v) for k, v in env.items()}
            self.bind(st.target, vals, env)
            self.block(m, st.body, env, visit)
            self.block(m, st.body, env, lambda n, e: None)
            for k, v in before.items():  # zero iterations
                env[k] = env.get(k, set()) | v
            self.block(m, st.orelse, env, visit)
        elif isinstance(st, ast.While):
            before = {k: set(v) for k, v in env.items()}
            self.block(m, st.body, env, visit)
            self.block(m, st.body, env, lambda n, e: None)
            for k, v in before.items():
                env[k] = env.get(k, set()) | v
            self.block(m, st.orelse, env, visit)
        elif (
            isinstance(st, ast.Expr) and isinstance(st.value, ast.Call) and isinstance(st.value.func, ast.Attribute)
            and st.value.func.attr in ("append", "extend") and isinstance(st.value.func.value, ast.Name)
            and st.value.func.value.id in env and len(st.value.args) == 1
        ):
            # list built up by append/extend: keep it as a tuple-valued local
            name = st.value.func.value.id
            add = self.evalset(m, st.value.args[0], env)
            new = set()
            for cur in env[name]:
                if not isinstance(cur, tuple):
                    new.add(cur)
                    continue
                for a in add:
                    if st.value.func.attr == "append":
                        new.add(cur + (a,))
                    elif isinstance(a, tuple):
                        new.add(cur + a)
                    else:
                        new.add(Hole("extend"))
                    if len(new) > MAXV:
                        break
            env[name] = new
        elif isinstance(st, (ast.With, ast.AsyncWith)):
            for item in st.items:
                if item.optional_vars is not None and isinstance(item.optional_vars, ast.Name):
                    env[item.optional_vars.id] = {Hole(item.optional_vars.id)}
            self.block(m, st.body, env, visit)
        elif isinstance(st, ast.Try):
            self.block(m, st.body, env, visit)
            for h in st.handlers:
                self.block(m, h.body, env, visit)
            self.block(m, st.orelse, env, visit)
            self.block(m, st.finalbody, env, visit)
        elif isinstance(st, ast.Match):
            for case in st.cases:
                self.block(m, case.body, env, visit)
        # nested function definitions are separate FuncInfos

    def bind(self, target, vals, env):
        if isinstance(target, ast.Name):
            env[target.id] = set(vals) or {Hole(target.id)}
        elif isinstance(target, (ast.Tuple, ast.List)):
            for i, t in enumerate(target.elts):
                vs = set()
                for v in vals:
                    try:
                        vs.add(v[i])
                    except Exception:
                        vs.add(Hole("elt"))
                self.bind(t, vs, env)


_PARAM_HOLE = re.compile(r"⟦param:([A-Za-z_][A-Za-z_0-9]*)[^⟧]*⟧")


class SqlCensus:
    """All SQL call sites of the program with their folded statement texts."""

    def __init__(self, prog: Program):
        self.prog = prog
        self.sites: list[SqlSite] = []
        self._callargs: dict[str, list[dict]] = {}  # callee simple name -> [ {param: valueset} ]
        self._collect()
        self._enumerate_params()

    def _nested_defs(self, fi: FuncInfo):
        return {id(n) for n in ast.walk(fi.node) if n is not fi.node and isinstance(n, (ast.FunctionDef, ast.AsyncFunctionDef, ast.Lambda))}

    def _collect(self):
        sse = StringSetEvaluator(self.prog)
        for fi in self.prog.all_functions():
            m = fi.module
            nested = [n for n in ast.walk(fi.node) if n is not fi.node and isinstance(n, (ast.FunctionDef, ast.AsyncFunctionDef))]
            skip = set()
            for nd in nested:
                for sub in ast.walk(nd):
                    skip.add(id(sub))

            def visit(node, env, fi=fi, m=m, skip=skip):
                for call in ast.walk(node):
                    if id(call) in skip or not isinstance(call, ast.Call):
                        continue
                    f = call.func
                    if isinstance(f, ast.Attribute) and f.attr in EXEC_METHODS and call.args:
                        recv = ast.unparse(f.value)
                        if not self._is_db_receiver(recv):
                            continue
                        vals = sse.evalset(m, call.args[0], env)
                        site = SqlSite(fi, call.lineno, call.col_offset, f.attr, recv, call, set(vals))
                        if len(call.args) > 1:
                            site.params = set(sse.evalset(m, call.args[1], env))
                        self.sites.append(site)
                    # record constant arguments of calls, for parameter enumeration
                    name = None
                    if isinstance(f, ast.Attribute):
                        name = f.attr
                    elif isinstance(f, ast.Name):
                        name = f.id
                    if name and (call.args or call.keywords):
                        rec = {"__pos__": [], "__caller__": fi.fq}
                        for a in call.args:
                            if isinstance(a, ast.Starred):
                                rec["__pos__"].append({Hole("star")})
                            else:
                                rec["__pos__"].append(sse.evalset(m, a, env))
                        for k in call.keywords:
                            if k.arg:
                                rec[k.arg] = sse.evalset(m, k.value, env)
                        self._callargs.setdefault(name, []).append(rec)

            sse.run_function(fi, visit)
        # de-duplicate (loop bodies are visited once thanks to the no-op second pass)
        seen = {}
        for s in self.sites:
            if s.key in seen:
                seen[s.key].texts |= s.texts
                seen[s.key].params |= s.params
            else:
                seen[s.key] = s
        self.sites = sorted(seen.values(), key=lambda s: (s.func.module.name, s.lineno, s.col))

    @staticmethod
    def _is_db_receiver(recv: str) -> bool:
        last = recv.split(".")[-1]
        return last in ("db", "con", "_con", "cur", "cursor", "conn", "connection") or last.endswith("db") or last.endswith("con")

    def _enumerate_params(self):
        """Replace ``⟦param:x⟧`` holes in text position by the constants passed by the callers."""
        for site in self.sites:
            new_texts = set()
            for t in site.texts:
                src = t if isinstance(t, str) else (str(t) if isinstance(t, Hole) and t.name.startswith("param:") else None)
                if src is None:
                    new_texts.add(t)
                    continue
                names = sorted(set(_PARAM_HOLE.findall(src)))
                if not names:
                    new_texts.add(t)
                    continue
                site.params_in_text |= set(names)
                expansions = self._param_values(site.func, names)
                if expansions is None:
                    new_texts.add(t)
                    continue
                for combo in expansions:
                    s2 = src
                    ok = True
                    for nm, val in zip(names, combo):
                        if not isinstance(val, str) or has_hole(val):
                            ok = False
                            break
                        s2 = re.sub(r"⟦param:" + re.escape(nm) + r"[^⟧]*⟧", lambda _m, v=val: v, s2)
                    if ok:
                        new_texts.add(s2)
                    else:
                        new_texts.add(t)
            site.texts = new_texts

    def _param_values(self, fi: FuncInfo, names):
        """Cartesian combos of constant values passed for ``names`` at the call sites of ``fi``."""
        recs = self._callargs.get(fi.name, [])
        params = [p for p in fi.params()]
        if fi.cls is not None and params and params[0] in ("self", "cls"):
            params = params[1:]
        defaults = self._defaults(fi)
        combos = set()
        for rec in recs:
            vals = []
            for nm in names:
                if nm in rec:
                    vs = rec[nm]
                elif nm in params and params.index(nm) < len(rec["__pos__"]):
                    vs = rec["__pos__"][params.index(nm)]
                elif nm in defaults:
                    vs = {defaults[nm]}
                else:
                    vs = {Hole("missing")}
                vals.append(sorted(vs, key=repr))
            for combo in itertools.islice(itertools.product(*vals), MAXV):
                combos.add(tuple(combo))
        if not combos:
            return None
        return sorted(combos, key=repr)

    def _defaults(self, fi: FuncInfo) -> dict:
        a = fi.node.args
        out = {}
        pos = a.posonlyargs + a.args
        for p, d in zip(pos[len(pos) - len(a.defaults):], a.defaults):
            try:
                out[p.arg] = Evaluator(self.prog, fi.module, {}).ev(d)
            except Exception:
                pass
        for p, d in zip(a.kwonlyargs, a.kw_defaults):
            if d is not None:
                try:
                    out[p.arg] = Evaluator(self.prog, fi.module, {}).ev(d)
                except Exception:
                    pass
        return out

    # -- queries

    def sites_in(self, fq: str) -> list[SqlSite]:
        return [s for s in self.sites if s.func.fq == fq or s.func.fq.startswith(fq + ".<locals>.")]


_CENSUS_CACHE: dict[str, SqlCensus] = {}


def load_census(prog: Program) -> SqlCensus:
    if prog.digest not in _CENSUS_CACHE:
        _CENSUS_CACHE[prog.digest] = SqlCensus(prog)
    return _CENSUS_CACHE[prog.digest]
