"""Alpha-normalisation of local variable names towards the reference naming.

The rules name locals of the anchor functions (`state`, `old_hash`, ...).  A behaviour-preserving
rename of a local must not change a verdict, so before any rule runs every function whose *skeleton*
(its AST with local names replaced by first-occurrence indices) equals the skeleton recorded for the
reference tree gets its locals renamed back to the reference names.  A function whose skeleton
differs (a real edit) keeps its own names: rules then see exactly what is in the tree.

The reference (`/verif/reference/locals.json`) holds, per function, a hash of the skeleton and the
ordered list of local names; it contains no source text and decides nothing by itself.
"""
from __future__ import annotations

import ast
import hashlib
import json
import pathlib

REFERENCE = pathlib.Path(__file__).resolve().parents[2] / "reference" / "locals.json"


def _params(fn) -> set[str]:
    a = fn.args
    out = {x.arg for x in a.posonlyargs + a.args + a.kwonlyargs}
    if a.vararg:
        out.add(a.vararg.arg)
    if a.kwarg:
        out.add(a.kwarg.arg)
    return out


def renamable_names(fn) -> list[str]:
    """Local names of ``fn`` (and of the scopes nested in it), ordered by first occurrence."""
    banned = set()
    stores = set()
    for n in ast.walk(fn):
        if isinstance(n, (ast.FunctionDef, ast.AsyncFunctionDef)):
            banned |= _params(n)
            if n is not fn:
                banned.add(n.name)
        elif isinstance(n, ast.Lambda):
            banned |= _params(n)
        elif isinstance(n, (ast.Global, ast.Nonlocal)):
            banned |= set(n.names)
        elif isinstance(n, ast.ClassDef):
            banned.add(n.name)
        elif isinstance(n, ast.ExceptHandler) and n.name:
            banned.add(n.name)
        elif isinstance(n, (ast.Import, ast.ImportFrom)):
            for a in n.names:
                banned.add((a.asname or a.name).split(".")[0])
        elif isinstance(n, ast.MatchAs) and n.name:
            banned.add(n.name)
        elif isinstance(n, ast.MatchStar) and n.name:
            banned.add(n.name)
        elif isinstance(n, ast.Name) and isinstance(n.ctx, (ast.Store, ast.Del)):
            stores.add(n.id)
    names = stores - banned
    order = []
    seen = set()

    class V(ast.NodeVisitor):
        def visit_Name(self, node):
            if node.id in names and node.id not in seen:
                seen.add(node.id)
                order.append(node.id)

    V().visit(fn)
    return order


class _Renamer(ast.NodeTransformer):
    def __init__(self, mapping):
        self.mapping = mapping

    def visit_Name(self, node):
        if node.id in self.mapping:
            node.id = self.mapping[node.id]
        return node


def skeleton_hash(fn, order=None) -> str:
    order = renamable_names(fn) if order is None else order
    idx = {n: f"§{i}" for i, n in enumerate(order)}
    import copy

    clone = copy.deepcopy(fn)
    _Renamer(idx).visit(clone)
    clone.name = "_"
    # docstrings do not take part
    if clone.body and isinstance(clone.body[0], ast.Expr) and isinstance(clone.body[0].value, ast.Constant) and isinstance(clone.body[0].value.value, str):
        clone.body = clone.body[1:] or [ast.Pass()]
    return hashlib.sha256(ast.dump(clone, annotate_fields=False, include_attributes=False).encode()).hexdigest()[:24]


_COMPOUND_HEADERS = {
    ast.If: lambda n: [n.test],
    ast.While: lambda n: [n.test],
    ast.For: lambda n: [n.target, n.iter],
    ast.AsyncFor: lambda n: [n.target, n.iter],
    ast.With: lambda n: [x for it in n.items for x in (it.context_expr, it.optional_vars) if x is not None],
    ast.AsyncWith: lambda n: [x for it in n.items for x in (it.context_expr, it.optional_vars) if x is not None],
    ast.Try: lambda n: [],
    ast.ExceptHandler: lambda n: [n.type] if n.type is not None else [],
    ast.Match: lambda n: [n.subject],
    ast.FunctionDef: lambda n: list(n.args.defaults) + [d for d in n.args.kw_defaults if d is not None],
    ast.AsyncFunctionDef: lambda n: list(n.args.defaults) + [d for d in n.args.kw_defaults if d is not None],
    ast.ClassDef: lambda n: list(n.bases),
}


def statement_units(fn, names: set[str]):
    """Per statement of ``fn`` (compound statements contribute their header only): (hash with locals abstracted to
    their first-occurrence index inside the statement, ordered list of the locals it mentions)."""
    units = []
    todo = list(fn.body)
    flat = []
    while todo:
        st = todo.pop(0)
        flat.append(st)
        for field in ("body", "orelse", "finalbody", "handlers", "cases"):
            sub = getattr(st, field, None)
            if isinstance(sub, list):
                todo.extend(x for x in sub if isinstance(x, (ast.stmt, ast.ExceptHandler, ast.match_case)))
        if isinstance(st, ast.match_case):
            todo.extend(st.body)
    flat.sort(key=lambda n: (getattr(n, "lineno", 0), getattr(n, "col_offset", 0)))
    for st in flat:
        if isinstance(st, ast.match_case):
            continue
        hdr = _COMPOUND_HEADERS.get(type(st))
        parts = hdr(st) if hdr is not None else [st]
        if hdr is None and isinstance(st, ast.Expr) and isinstance(st.value, ast.Constant) and isinstance(st.value.value, str):
            continue  # docstring / bare string
        order = []
        dumps = [type(st).__name__]
        for part in parts:
            import copy

            clone = copy.deepcopy(part)
            for n in ast.walk(clone):
                if isinstance(n, ast.Name) and n.id in names:
                    if n.id not in order:
                        order.append(n.id)
                    n.id = f"§{order.index(n.id)}"
            dumps.append(ast.dump(clone, annotate_fields=False, include_attributes=False))
        units.append((hashlib.sha256("|".join(dumps).encode()).hexdigest()[:16], order))
    return units


def top_level_functions(tree):
    for n in tree.body:
        if isinstance(n, (ast.FunctionDef, ast.AsyncFunctionDef)):
            yield n.name, n
        elif isinstance(n, ast.ClassDef):
            for b in n.body:
                if isinstance(b, (ast.FunctionDef, ast.AsyncFunctionDef)):
                    yield f"{n.name}.{b.name}", b


def build_reference(repo: str) -> dict:
    out = {}
    for p in sorted((pathlib.Path(repo) / "stepup" / "core").glob("*.py")):
        tree = ast.parse(p.read_text())
        strip_local_annotations(tree)
        inline_return_temps(tree)
        inline_test_temps(tree)
        normalise_if_polarity(tree)
        flatten_else_after_terminator(tree)
        merge_nested_ifs(tree)
        for q, fn in top_level_functions(tree):
            order = renamable_names(fn)
            if order:
                out[f"{p.stem}.{q}"] = {"skeleton": skeleton_hash(fn, order), "locals": order,
                                        "stmts": [[h, names] for h, names in statement_units(fn, set(order))]}
    return out


_REF_CACHE = None


def load_reference() -> dict:
    global _REF_CACHE
    if _REF_CACHE is None:
        _REF_CACHE = json.loads(REFERENCE.read_text()) if REFERENCE.exists() else {}
    return _REF_CACHE


def _align_statements(fn, order, r) -> dict:
    """The function was edited: align its statements with the reference's (difflib on the abstracted statement
    hashes) and let every aligned pair vote for a renaming of its locals.  Only an injective renaming that does
    not capture another name of the function is returned."""
    import difflib

    ref_units = r.get("stmts")
    if not ref_units:
        return {}
    mine = statement_units(fn, set(order))
    sm = difflib.SequenceMatcher(a=[h for h, _ in mine], b=[h for h, _ in ref_units], autojunk=False)
    votes = {}
    for blk in sm.get_matching_blocks():
        for k in range(blk.size):
            na, nb = mine[blk.a + k][1], ref_units[blk.b + k][1]
            if len(na) != len(nb):
                continue
            for a, b in zip(na, nb):
                votes.setdefault(a, {}).setdefault(b, 0)
                votes[a][b] += 1
    choice = {}
    for a, vs in votes.items():
        b, n = max(vs.items(), key=lambda kv: (kv[1], kv[0]))
        # ambiguous vote: leave the name alone
        if sum(1 for v in vs.values() if v == n) == 1:
            choice[a] = (b, n)
    # injective: two names voting for the same reference name -> the better supported one wins
    by_target = {}
    for a, (b, n) in choice.items():
        if b not in by_target or by_target[b][1] < n:
            by_target[b] = (a, n)
    mapping = {a: b for b, (a, n) in by_target.items() if a != b}
    # no capture: the target must not be a name the function uses for something else
    used = {n.id for n in ast.walk(fn) if isinstance(n, ast.Name)} | {a.arg for n in ast.walk(fn) if isinstance(n, ast.arguments) for a in n.posonlyargs + n.args + n.kwonlyargs}
    safe = {}
    for a, b in mapping.items():
        if b in used and b not in mapping:
            continue
        safe[a] = b
    # a swap chain must stay closed (a->b only when b itself is renamed away or unused)
    changed = True
    while changed:
        changed = False
        for a, b in list(safe.items()):
            if b in used and b not in safe:
                del safe[a]
                changed = True
    return safe


def inline_return_temps(tree: ast.Module) -> int:
    """`t = E; return t` (t a local that no nested scope can see) is folded back to `return E`.

    The repository never writes this form (its linter forbids it), so on the reference tree this is the identity;
    it undoes the usual first step of a refactoring that wants to look at a result before returning it.
    """
    n = 0
    for _, fn in top_level_functions(tree):
        # names visible to nested scopes (closures) or declared global/nonlocal are left alone
        escaping = set()
        for x in ast.walk(fn):
            if x is not fn and isinstance(x, (ast.FunctionDef, ast.AsyncFunctionDef, ast.Lambda)):
                escaping |= {y.id for y in ast.walk(x) if isinstance(y, ast.Name)}
            elif isinstance(x, (ast.Global, ast.Nonlocal)):
                escaping |= set(x.names)
        params = set()
        for x in ast.walk(fn):
            if isinstance(x, ast.arguments):
                params |= {a.arg for a in x.posonlyargs + x.args + x.kwonlyargs}
        for node in ast.walk(fn):
            for field in ("body", "orelse", "finalbody"):
                b = getattr(node, field, None)
                if not isinstance(b, list):
                    continue
                k = 0
                while k + 1 < len(b):
                    a, r = b[k], b[k + 1]
                    if (isinstance(a, ast.Assign) and len(a.targets) == 1 and isinstance(a.targets[0], ast.Name) and isinstance(r, ast.Return)
                            and isinstance(r.value, ast.Name) and r.value.id == a.targets[0].id and a.targets[0].id not in params
                            and a.targets[0].id not in escaping):
                        b[k:k + 2] = [ast.copy_location(ast.Return(value=a.value), a)]
                        n += 1
                    k += 1
    return n


def inline_test_temps(tree: ast.Module) -> int:
    """`t = E; if t: ...` is folded back to `if E: ...` when *every* read of the local `t` in the function is such a
    test directly after an assignment to `t`, every assignment to `t` is followed by such a test, and no nested scope
    can see `t`.  The repository never writes this form, so on the reference tree this is the identity; it undoes the
    usual first step of someone who wants to log a condition before branching on it."""
    n = 0
    for _, fn in top_level_functions(tree):
        escaping = set()
        loads, stores = {}, {}
        for x in ast.walk(fn):
            if x is not fn and isinstance(x, (ast.FunctionDef, ast.AsyncFunctionDef, ast.Lambda)):
                escaping |= {y.id for y in ast.walk(x) if isinstance(y, ast.Name)}
            elif isinstance(x, (ast.Global, ast.Nonlocal)):
                escaping |= set(x.names)
            elif isinstance(x, ast.Name):
                (stores if isinstance(x.ctx, (ast.Store, ast.Del)) else loads).setdefault(x.id, []).append(x)
        params = set()
        for x in ast.walk(fn):
            if isinstance(x, ast.arguments):
                params |= {a.arg for a in x.posonlyargs + x.args + x.kwonlyargs}
        pairs = {}  # name -> [(block, assign, if)]
        for node in ast.walk(fn):
            for field in ("body", "orelse", "finalbody"):
                b = getattr(node, field, None)
                if not isinstance(b, list):
                    continue
                for a, r in zip(b, b[1:]):
                    if (isinstance(a, ast.Assign) and len(a.targets) == 1 and isinstance(a.targets[0], ast.Name) and isinstance(r, ast.If)
                            and isinstance(r.test, ast.Name) and r.test.id == a.targets[0].id):
                        pairs.setdefault(r.test.id, []).append((b, a, r))
        for name, ps in pairs.items():
            if name in escaping or name in params:
                continue
            if {id(x) for x in loads.get(name, [])} != {id(r.test) for _, _, r in ps}:
                continue
            if {id(x) for x in stores.get(name, [])} != {id(a.targets[0]) for _, a, _ in ps}:
                continue
            for b, a, r in ps:
                r.test = a.value
                b.remove(a)
                n += 1
    return n


_NEG_OP = {ast.IsNot: ast.Is, ast.NotEq: ast.Eq, ast.NotIn: ast.In, ast.GtE: ast.Lt, ast.Gt: ast.LtE}


def _swappable(node: ast.If) -> bool:
    """A two-armed `if` that is not part of an `elif` chain on either side."""
    return bool(node.orelse) and not (len(node.orelse) == 1 and isinstance(node.orelse[0], ast.If)) and not (len(node.body) == 1 and isinstance(node.body[0], ast.If))


class _IfPolarity(ast.NodeTransformer):
    """`if not X: A else: B` -> `if X: B else: A`; `if a is not b: A else: B` -> `if a is b: B else: A` (likewise
    !=, not in, >=, >).  Which arm of a two-armed `if` comes first is a matter of taste; the rules see one form."""

    def __init__(self):
        self.n = 0

    def visit_If(self, node):
        self.generic_visit(node)
        if not _swappable(node):
            return node
        t = node.test
        if isinstance(t, ast.UnaryOp) and isinstance(t.op, ast.Not):
            node.test = t.operand
        elif isinstance(t, ast.Compare) and len(t.ops) == 1 and type(t.ops[0]) in _NEG_OP:
            node.test = ast.copy_location(ast.Compare(left=t.left, ops=[_NEG_OP[type(t.ops[0])]()], comparators=t.comparators), t)
        else:
            return node
        node.body, node.orelse = node.orelse, node.body
        self.n += 1
        return node


def normalise_if_polarity(tree: ast.Module) -> int:
    v = _IfPolarity()
    v.visit(tree)
    return v.n


_TERMINATORS = (ast.Return, ast.Raise, ast.Continue, ast.Break)


_FLIP = {ast.Is: ast.IsNot, ast.IsNot: ast.Is, ast.Eq: ast.NotEq, ast.NotEq: ast.Eq, ast.In: ast.NotIn, ast.NotIn: ast.In,
         ast.Lt: ast.GtE, ast.GtE: ast.Lt, ast.LtE: ast.Gt, ast.Gt: ast.LtE}


def _size(stmts) -> int:
    return sum(1 for s_ in stmts for _ in ast.walk(s_))


def _guard_key(stmts):
    """Which of two block-ending arms reads as the guard clause: the one with fewer statements, then a raise before a loop jump before a return, then the shorter."""
    last = stmts[-1]
    kind = 0 if isinstance(last, ast.Raise) else 1 if isinstance(last, (ast.Continue, ast.Break)) else 2
    nst = sum(1 for s_ in stmts for x in ast.walk(s_) if isinstance(x, ast.stmt))
    return (nst, kind, _size(stmts))


def _negate(test):
    if isinstance(test, ast.UnaryOp) and isinstance(test.op, ast.Not):
        return test.operand
    if isinstance(test, ast.Compare) and len(test.ops) == 1 and type(test.ops[0]) in _FLIP:
        return ast.copy_location(ast.Compare(left=test.left, ops=[_FLIP[type(test.ops[0])]()], comparators=test.comparators), test)
    return ast.copy_location(ast.UnaryOp(op=ast.Not(), operand=test), test)


class _ElseFlattener(ast.NodeTransformer):
    """`if T: ...; return` / `else: rest` -> `if T: ...; return`, then `rest` in the enclosing block (and the mirror image,
    when only the else-arm ends the block: `if T: rest else: ...; return` -> `if not T`-free form is left alone)."""

    def __init__(self):
        self.n = 0

    def _fix(self, body):
        out = []
        for st in body:
            both = isinstance(st, ast.If) and _swappable(st) and isinstance(st.body[-1], _TERMINATORS) and isinstance(st.orelse[-1], _TERMINATORS)
            if both and _guard_key(st.orelse) < _guard_key(st.body):
                # both arms end the block: the shorter one is the guard clause, whichever way the test was written
                st.test, st.body, st.orelse = _negate(st.test), st.orelse, st.body
            if isinstance(st, ast.If) and st.orelse and st.body and isinstance(st.body[-1], _TERMINATORS) and not (len(st.orelse) == 1 and isinstance(st.orelse[0], ast.If)):
                rest, st.orelse = st.orelse, []
                out.append(st)
                out.extend(self._fix(rest))
                self.n += 1
            elif isinstance(st, ast.If) and _swappable(st) and isinstance(st.orelse[-1], _TERMINATORS):
                # only the else-arm ends the block: it becomes the guard clause
                rest = st.body
                st.test, st.body, st.orelse = _negate(st.test), st.orelse, []
                out.append(st)
                out.extend(self._fix(rest))
                self.n += 1
            else:
                out.append(st)
        return out

    def generic_visit(self, node):
        super().generic_visit(node)
        for field in ("body", "orelse", "finalbody"):
            b = getattr(node, field, None)
            if isinstance(b, list) and b and isinstance(b[0], ast.stmt):
                # an `elif` chain keeps its shape (the chain is what exhaustiveness rules look at)
                if field == "orelse" and isinstance(node, ast.If) and len(b) == 1 and isinstance(b[0], ast.If):
                    continue
                setattr(node, field, self._fix(b))
        return node


def flatten_else_after_terminator(tree: ast.Module) -> int:
    v = _ElseFlattener()
    v.visit(tree)
    return v.n


class _NestedIfMerger(ast.NodeTransformer):
    """`if A:` / `if B: body` (neither with an else, the inner `if` the only statement) -> `if A and B: body`."""

    def __init__(self):
        self.n = 0

    def visit_If(self, node):
        self.generic_visit(node)
        while (not node.orelse and len(node.body) == 1 and isinstance(node.body[0], ast.If) and not node.body[0].orelse
               and not any(isinstance(x, ast.NamedExpr) for x in ast.walk(node.test))):
            inner = node.body[0]
            left = node.test.values if isinstance(node.test, ast.BoolOp) and isinstance(node.test.op, ast.And) else [node.test]
            right = inner.test.values if isinstance(inner.test, ast.BoolOp) and isinstance(inner.test.op, ast.And) else [inner.test]
            node.test = ast.copy_location(ast.BoolOp(op=ast.And(), values=list(left) + list(right)), node.test)
            node.body = inner.body
            self.n += 1
        return node


def merge_nested_ifs(tree: ast.Module) -> int:
    v = _NestedIfMerger()
    v.visit(tree)
    return v.n


class _LocalAnnotationStripper(ast.NodeTransformer):
    def __init__(self):
        self.depth = 0
        self.n = 0

    def visit_FunctionDef(self, node):
        self.depth += 1
        self.generic_visit(node)
        self.depth -= 1
        return node

    visit_AsyncFunctionDef = visit_FunctionDef

    def visit_ClassDef(self, node):
        saved, self.depth = self.depth, 0
        self.generic_visit(node)
        self.depth = saved
        return node

    def visit_AnnAssign(self, node):
        if self.depth and node.value is not None and isinstance(node.target, ast.Name):
            self.n += 1
            return ast.copy_location(ast.Assign(targets=[node.target], value=node.value), node)
        return node


def strip_local_annotations(tree: ast.Module) -> int:
    """`x: T = v` in a function body is read as `x = v` (an annotation of a local has no run-time meaning)."""
    t = _LocalAnnotationStripper()
    t.visit(tree)
    ast.fix_missing_locations(tree)
    return t.n


def canonicalise_module(modname: str, tree: ast.Module) -> int:
    """Rename locals of alpha-equivalent functions to the reference names. Returns #functions renamed."""
    strip_local_annotations(tree)
    inline_return_temps(tree)
    inline_test_temps(tree)
    normalise_if_polarity(tree)
    flatten_else_after_terminator(tree)
    merge_nested_ifs(tree)
    ref = load_reference()
    n = 0
    for q, fn in top_level_functions(tree):
        r = ref.get(f"{modname}.{q}")
        if r is None:
            continue
        order = renamable_names(fn)
        if order == r["locals"]:
            continue
        if len(order) == len(r["locals"]) and skeleton_hash(fn, order) == r["skeleton"]:
            mapping = {a: b for a, b in zip(order, r["locals"]) if a != b}
        else:
            mapping = _align_statements(fn, order, r)
        if not mapping:
            continue
        # two-step rename to avoid clashes between old and new names
        tmp = {a: f"__canon_{i}__" for i, a in enumerate(mapping)}
        _Renamer(tmp).visit(fn)
        _Renamer({tmp[a]: b for a, b in mapping.items()}).visit(fn)
        n += 1
    return n
