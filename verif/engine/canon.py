"""Alpha-normalisation of local variable names towards the reference naming.

The rules name locals of the anchor functions (`state`, `old_hash`, ...).  A behaviour-preserving
rename of a local must not change a verdict, so before any rule runs every function whose *skeleton*
(its AST with local names replaced by first-occurrence indices) equals the skeleton recorded for the
reference tree gets its locals renamed back to the reference names.  A function whose skeleton
differs (a real edit) keeps its own names: rules then see exactly what is in the tree.

The reference (`/verif/reference/locals.json`) holds, per function, a hash of the skeleton and the
ordered list of local names; it contains no source text and decides nothing by itself.
"""
from __future__ import annotations

import ast
import hashlib
import json
import pathlib

REFERENCE = pathlib.Path(__file__).resolve().parents[2] / "reference" / "locals.json"


def _params(fn) -> set[str]:
    a = fn.args
    out = {x.arg for x in a.posonlyargs + a.args + a.kwonlyargs}
    if a.vararg:
        out.add(a.vararg.arg)
    if a.kwarg:
        out.add(a.kwarg.arg)
    return out


def renamable_names(fn) -> list[str]:
    """Local names of ``fn`` (and of the scopes nested in it), ordered by first occurrence."""
    banned = set()
    stores = set()
    for n in ast.walk(fn):
        if isinstance(n, (ast.FunctionDef, ast.AsyncFunctionDef)):
            banned |= _params(n)
            if n is not fn:
                banned.add(n.name)
        elif isinstance(n, ast.Lambda):
            banned |= _params(n)
        elif isinstance(n, (ast.Global, ast.Nonlocal)):
            banned |= set(n.names)
        elif isinstance(n, ast.ClassDef):
            banned.add(n.name)
        elif isinstance(n, ast.ExceptHandler) and n.name:
            banned.add(n.name)
        elif isinstance(n, (ast.Import, ast.ImportFrom)):
            for a in n.names:
                banned.add((a.asname or a.name).split(".")[0])
        elif isinstance(n, ast.MatchAs) and n.name:
            banned.add(n.name)
        elif isinstance(n, ast.MatchStar) and n.name:
            banned.add(n.name)
        elif isinstance(n, ast.Name) and isinstance(n.ctx, (ast.Store, ast.Del)):
            stores.add(n.id)
    names = stores - banned
    order = []
    seen = set()

    class V(ast.NodeVisitor):
        def visit_Name(self, node):
            if node.id in names and node.id not in seen:
                seen.add(node.id)
                order.append(node.id)

    V().visit(fn)
    return order


class _Renamer(ast.NodeTransformer):
    def __init__(self, mapping):
        self.mapping = mapping

    def visit_Name(self, node):
        if node.id in self.mapping:
            node.id = self.mapping[node.id]
        return node


def skeleton_hash(fn, order=None) -> str:
    order = renamable_names(fn) if order is None else order
    idx = {n: f"§{i}" for i, n in enumerate(order)}
    import copy

    clone = copy.deepcopy(fn)
    _Renamer(idx).visit(clone)
    clone.name = "_"
    # docstrings do not take part
    if clone.body and isinstance(clone.body[0], ast.Expr) and isinstance(clone.body[0].value, ast.Constant) and isinstance(clone.body[0].value.value, str):
        clone.body = clone.body[1:] or [ast.Pass()]
    return hashlib.sha256(ast.dump(clone, annotate_fields=False, include_attributes=False).encode()).hexdigest()[:24]


def top_level_functions(tree):
    for n in tree.body:
        if isinstance(n, (ast.FunctionDef, ast.AsyncFunctionDef)):
            yield n.name, n
        elif isinstance(n, ast.ClassDef):
            for b in n.body:
                if isinstance(b, (ast.FunctionDef, ast.AsyncFunctionDef)):
                    yield f"{n.name}.{b.name}", b


def build_reference(repo: str) -> dict:
    out = {}
    for p in sorted((pathlib.Path(repo) / "stepup" / "core").glob("*.py")):
        tree = ast.parse(p.read_text())
        for q, fn in top_level_functions(tree):
            order = renamable_names(fn)
            if order:
                out[f"{p.stem}.{q}"] = {"skeleton": skeleton_hash(fn, order), "locals": order}
    return out


_REF_CACHE = None


def load_reference() -> dict:
    global _REF_CACHE
    if _REF_CACHE is None:
        _REF_CACHE = json.loads(REFERENCE.read_text()) if REFERENCE.exists() else {}
    return _REF_CACHE


def canonicalise_module(modname: str, tree: ast.Module) -> int:
    """Rename locals of alpha-equivalent functions to the reference names. Returns #functions renamed."""
    ref = load_reference()
    n = 0
    for q, fn in top_level_functions(tree):
        r = ref.get(f"{modname}.{q}")
        if r is None:
            continue
        order = renamable_names(fn)
        if order == r["locals"] or len(order) != len(r["locals"]):
            continue
        if skeleton_hash(fn, order) != r["skeleton"]:
            continue
        mapping = {a: b for a, b in zip(order, r["locals"]) if a != b}
        # two-step rename to avoid clashes between old and new names
        tmp = {a: f"__canon_{i}__" for i, a in enumerate(mapping)}
        _Renamer(tmp).visit(fn)
        _Renamer({tmp[a]: b for a, b in mapping.items()}).visit(fn)
        n += 1
    return n
