"""E5 — structured-flow checker: path enumeration over one function body.

Python's control flow is structured, so paths are enumerated syntax-directed.  A path is a list of
events; loops are unrolled 0 and 1 times (enough for must-precede / guarded-by questions inside one
iteration); ``try`` bodies are followed normally and, per handler, with an exception raised at an
unknown point of the body (the handler path carries no body events, which is the conservative
choice for must-precede questions about the handler's continuation).

Events (tuples):
  ("test", src, truth, node)      a condition evaluated to truth
  ("call", callee_src, node)      a call expression (inner calls first)
  ("await", src, node)
  ("enter", ctx_src, node) / ("exit", ctx_src, node)   with / async with
  ("assign", target_src, value_src, node)
  ("return", src, node) / ("raise", src, node) / ("continue",) / ("break",)
  ("loop", label, n, node) / ("loopend", label)
  ("try",) / ("except", type_src, node) / ("finally",)
  ("yield", src, node)
"""
from __future__ import annotations

import ast

from .source import AnalysisError, FuncInfo

MAXPATHS = 20000


class Paths:
    def __init__(self, fn: ast.AST, max_paths: int = MAXPATHS):
        self.fn = fn
        self.max_paths = max_paths

    def run(self):
        out = []
        for trace, status in self.block(self.fn.body, []):
            out.append((trace, status))
            if len(out) > self.max_paths:
                raise AnalysisError(f"path explosion in {getattr(self.fn, 'name', '?')} (> {self.max_paths})")
        return out

    def block(self, stmts, prefix):
        if not stmts:
            yield prefix, "fall"
            return
        head, rest = stmts[0], stmts[1:]
        for tr, st in self.stmt(head, prefix):
            if st == "fall":
                yield from self.block(rest, tr)
            else:
                yield tr, st

    def expr_events(self, e):
        ev = []
        if e is None:
            return ev
        items = []
        for n in ast.walk(e):
            if isinstance(n, (ast.Lambda, ast.FunctionDef, ast.AsyncFunctionDef)):
                continue
            if isinstance(n, ast.Call):
                items.append((n.end_lineno, n.end_col_offset, 1, ("call", ast.unparse(n.func), n)))
            elif isinstance(n, ast.Await):
                items.append((n.end_lineno, n.end_col_offset, 2, ("await", ast.unparse(n.value), n)))
            elif isinstance(n, (ast.Yield, ast.YieldFrom)):
                items.append((n.end_lineno, n.end_col_offset, 2, ("yield", ast.unparse(n), n)))
        items.sort(key=lambda x: x[:3])
        return [x[3] for x in items]

    def cond(self, test, prefix):
        if isinstance(test, ast.BoolOp):
            def rec(vals, tr):
                if not vals:
                    yield tr, isinstance(test.op, ast.And)
                    return
                for t2, v in self.cond(vals[0], tr):
                    if isinstance(test.op, ast.And):
                        if v:
                            yield from rec(vals[1:], t2)
                        else:
                            yield t2, False
                    else:
                        if v:
                            yield t2, True
                        else:
                            yield from rec(vals[1:], t2)
            yield from rec(test.values, prefix)
        elif isinstance(test, ast.UnaryOp) and isinstance(test.op, ast.Not):
            for t2, v in self.cond(test.operand, prefix):
                yield t2, not v
        elif isinstance(test, ast.Constant):
            yield prefix, bool(test.value)
        else:
            base = prefix + self.expr_events(test)
            src = ast.unparse(test)
            yield base + [("test", src, True, test)], True
            yield base + [("test", src, False, test)], False

    def stmt(self, s, prefix):
        if isinstance(s, ast.Expr):
            yield prefix + self.expr_events(s.value) + [("expr", ast.unparse(s.value), s)], "fall"
        elif isinstance(s, (ast.Assign, ast.AnnAssign, ast.AugAssign)):
            tr = prefix + self.expr_events(s.value)
            if isinstance(s, ast.Assign):
                for t in s.targets:
                    tr = tr + [("assign", ast.unparse(t), ast.unparse(s.value), s)]
            elif isinstance(s, ast.AnnAssign):
                if s.value is not None:
                    tr = tr + [("assign", ast.unparse(s.target), ast.unparse(s.value), s)]
            else:
                tr = tr + [("assign", ast.unparse(s.target), ast.unparse(s), s)]
            yield tr, "fall"
        elif isinstance(s, ast.Return):
            yield prefix + self.expr_events(s.value) + [("return", ast.unparse(s.value) if s.value else "", s)], "return"
        elif isinstance(s, ast.Raise):
            yield prefix + self.expr_events(s.exc) + [("raise", ast.unparse(s.exc) if s.exc else "", s)], "raise"
        elif isinstance(s, ast.Continue):
            yield prefix + [("continue",)], "continue"
        elif isinstance(s, ast.Break):
            yield prefix + [("break",)], "break"
        elif isinstance(s, ast.Pass):
            yield prefix, "fall"
        elif isinstance(s, ast.If):
            for tr, v in self.cond(s.test, prefix):
                yield from self.block(s.body if v else s.orelse, tr)
        elif isinstance(s, (ast.For, ast.AsyncFor)):
            head = prefix + self.expr_events(s.iter)
            label = ast.unparse(s.iter)
            yield from self.block(s.orelse, head + [("loop", label, 0, s)])
            for tr, st in self.block(s.body, head + [("loop", label, 1, s), ("assign", ast.unparse(s.target), f"<iter {label}>", s)]):
                if st in ("fall", "continue"):
                    yield from self.block(s.orelse, tr + [("loopend", label)])
                elif st == "break":
                    yield tr + [("loopend", label)], "fall"
                else:
                    yield tr, st
        elif isinstance(s, ast.While):
            label = ast.unparse(s.test)
            infinite = isinstance(s.test, ast.Constant) and bool(s.test.value)
            for tr, v in self.cond(s.test, prefix + [("loop", label, 0, s)]):
                if not v:
                    yield from self.block(s.orelse, tr)
                    continue
                for t2, st in self.block(s.body, tr + [("loopiter", label)]):
                    if st in ("fall", "continue"):
                        if infinite:
                            # the next iteration is not followed; the path ends here
                            yield t2 + [("loopback", label)], "loopback"
                        else:
                            yield from self.block(s.orelse, t2 + [("loopend", label)])
                    elif st == "break":
                        yield t2 + [("loopend", label)], "fall"
                    else:
                        yield t2, st
        elif isinstance(s, (ast.With, ast.AsyncWith)):
            tr = prefix
            names = []
            for it in s.items:
                tr = tr + self.expr_events(it.context_expr) + [("enter", ast.unparse(it.context_expr), s)]
                if isinstance(s, ast.AsyncWith):
                    tr = tr + [("await", f"<aenter {ast.unparse(it.context_expr)}>", s)]
                names.append(ast.unparse(it.context_expr))
            for t2, st in self.block(s.body, tr):
                ex = []
                for n in reversed(names):
                    ex.append(("exit", n, s))
                    if isinstance(s, ast.AsyncWith):
                        ex.append(("await", f"<aexit {n}>", s))
                yield t2 + ex, st
        elif isinstance(s, (ast.Try, getattr(ast, "TryStar", ast.Try))):
            for tr, st in self.block(s.body, prefix + [("try", s)]):
                if st == "fall":
                    for t2, st2 in self.block(s.orelse, tr):
                        yield from self._finally(s, t2, st2)
                else:
                    yield from self._finally(s, tr, st)
            for h in s.handlers:
                hname = ast.unparse(h.type) if h.type else "BaseException"
                for tr, st in self.block(h.body, prefix + [("try", s), ("except", hname, h)]):
                    yield from self._finally(s, tr, st)
        elif isinstance(s, ast.Match):
            for case in s.cases:
                yield from self.block(case.body, prefix + self.expr_events(s.subject) + [("test", f"match {ast.unparse(s.subject)} case {ast.unparse(case.pattern)}", True, case)])
        elif isinstance(s, (ast.FunctionDef, ast.AsyncFunctionDef, ast.ClassDef, ast.Import, ast.ImportFrom, ast.Global, ast.Nonlocal, ast.Delete)):
            yield prefix, "fall"
        elif isinstance(s, ast.Assert):
            yield prefix + self.expr_events(s.test), "fall"
        else:
            yield prefix + [("stmt", type(s).__name__, s)], "fall"

    def _finally(self, s, tr, st):
        if not s.finalbody:
            yield tr, st
            return
        for t2, st2 in self.block(s.finalbody, tr + [("finally", s)]):
            yield t2, (st if st2 == "fall" else st2)


def paths_of(fi: FuncInfo, max_paths=MAXPATHS):
    return Paths(fi.node, max_paths).run()


# --------------------------------------------------------------------------- queries on paths


def calls(trace, pred):
    """Indices of call events whose (callee_src, node) satisfies pred."""
    return [i for i, e in enumerate(trace) if e[0] == "call" and pred(e[1], e[2])]


def call_named(*names):
    """Predicate: callee source equals one of names or ends with .name."""
    def p(src, node):
        last = src.split(".")[-1]
        return src in names or last in names
    return p


def tests_before(trace, idx):
    return [(e[1], e[2]) for e in trace[:idx] if e[0] == "test"]


def must_precede(paths, is_b, is_a):
    """Every occurrence of event B on every path is preceded by an event A. Returns offending paths."""
    bad = []
    for tr, st in paths:
        for i, e in enumerate(tr):
            if is_b(e):
                if not any(is_a(x) for x in tr[:i]):
                    bad.append((tr, i))
    return bad


def regions(trace, is_ctx):
    """[(enter_index, exit_index)] of ``with`` regions whose context expression satisfies is_ctx."""
    out = []
    stack = []
    for i, e in enumerate(trace):
        if e[0] == "enter" and is_ctx(e[1]):
            stack.append(i)
        elif e[0] == "exit" and is_ctx(e[1]) and stack:
            out.append((stack.pop(), i))
    for i in stack:
        out.append((i, len(trace)))
    return sorted(out)


def region_of(trace, idx, is_ctx):
    for a, b in regions(trace, is_ctx):
        if a < idx < b:
            return (a, b)
    return None


def awaits_between(trace, i, j):
    return [e for e in trace[i + 1:j] if e[0] == "await"]
