"""E4 — finite-domain abstract interpretation of small enum-branching functions.

All syntactic paths of the function are enumerated (E5); a path is kept when every test on it agrees
with the abstract input point: parameters / getter expressions bound to concrete enum members or
booleans, everything else an opaque hole (a test on a hole is feasible both ways).  The result for
one input point is the list of feasible traces, from which the rules read the effects (calls,
subscript writes, returns) taken at that point.
"""
from __future__ import annotations

import ast

from .flow import Paths
from .source import AnalysisError, Evaluator, FoldError, FuncInfo, Hole, Program


class _OverrideEvaluator(Evaluator):
    def __init__(self, prog, mod, env, overrides):
        super().__init__(prog, mod, env)
        self.overrides = overrides

    def ev(self, n):
        if isinstance(n, (ast.Call, ast.Attribute, ast.Subscript, ast.Compare, ast.BoolOp)):
            src = ast.unparse(n)
            if src in self.overrides:
                return self.overrides[src]
        if isinstance(n, ast.Name) and n.id not in self.env and n.id in ("self", "cls"):
            return Hole(n.id)
        return super().ev(n)


def _truth(val):
    if isinstance(val, Hole):
        return None
    try:
        return bool(val)
    except Exception:
        return None


def feasible_paths(prog: Program, fi: FuncInfo, bindings: dict | None = None, overrides: dict | None = None, max_paths=20000):
    """Traces of ``fi`` that are feasible at the abstract point (bindings, overrides)."""
    bindings = dict(bindings or {})
    overrides = dict(overrides or {})
    out = []
    for tr, status in Paths(fi.node, max_paths).run():
        env = {}
        for p in fi.params():
            env[p] = bindings.get(p, Hole(p))
        for k, v in bindings.items():
            env[k] = v
        ok = True
        for e in tr:
            if e[0] == "assign" and len(e) >= 4:
                node = e[3]
                if isinstance(node, ast.Assign) and len(node.targets) == 1 and isinstance(node.targets[0], ast.Name):
                    try:
                        env[node.targets[0].id] = _OverrideEvaluator(prog, fi.module, env, overrides).ev(node.value)
                    except (FoldError, AnalysisError, Exception):
                        env[node.targets[0].id] = Hole(node.targets[0].id)
                elif isinstance(node, ast.Assign) and len(node.targets) == 1 and isinstance(node.targets[0], (ast.Tuple, ast.List)):
                    elts = node.targets[0].elts
                    try:
                        val = _OverrideEvaluator(prog, fi.module, env, overrides).ev(node.value)
                    except (FoldError, AnalysisError, Exception):
                        val = None
                    if isinstance(val, (tuple, list)) and len(val) == len(elts):
                        for t, v in zip(elts, val):
                            if isinstance(t, ast.Name):
                                env[t.id] = v
                    else:
                        for t in elts:
                            if isinstance(t, ast.Name):
                                env[t.id] = Hole(t.id)
                elif isinstance(node, (ast.For, ast.AsyncFor)):
                    for t in ast.walk(node.target):
                        if isinstance(t, ast.Name):
                            env[t.id] = bindings.get(t.id, Hole(t.id))
                elif isinstance(node, ast.AugAssign) and isinstance(node.target, ast.Name):
                    env[node.target.id] = Hole(node.target.id)
            elif e[0] == "test":
                node = e[3]
                if isinstance(node, ast.AST) and not isinstance(node, ast.match_case):
                    try:
                        val = _OverrideEvaluator(prog, fi.module, env, overrides).ev(node)
                    except (FoldError, AnalysisError, Exception):
                        val = Hole("?")
                    t = _truth(val)
                    if t is not None and t != e[2]:
                        ok = False
                        break
        if ok:
            out.append((tr, status))
    return out


def return_values(prog: Program, fi: FuncInfo, bindings: dict | None = None, overrides: dict | None = None):
    """For every feasible path that returns: the folded return value, or its source text when it does not fold
    (a hole).  Locals are re-evaluated along the path exactly as in feasible_paths."""
    bindings = dict(bindings or {})
    overrides = dict(overrides or {})
    out = []
    for tr, status in feasible_paths(prog, fi, bindings, overrides):
        if status != "return":
            continue
        env = {p: bindings.get(p, Hole(p)) for p in fi.params()}
        env.update(bindings)
        for e in tr:
            if e[0] == "assign" and len(e) >= 4 and isinstance(e[3], ast.Assign) and len(e[3].targets) == 1:
                tgt = e[3].targets[0]
                try:
                    val = _OverrideEvaluator(prog, fi.module, env, overrides).ev(e[3].value)
                except (FoldError, AnalysisError, Exception):
                    val = Hole("?")
                if isinstance(tgt, ast.Name):
                    env[tgt.id] = val
                elif isinstance(tgt, (ast.Tuple, ast.List)) and isinstance(val, (tuple, list)) and len(val) == len(tgt.elts):
                    for t, v in zip(tgt.elts, val):
                        if isinstance(t, ast.Name):
                            env[t.id] = v
        rets = [e for e in tr if e[0] == "return"]
        if not rets:
            continue
        node = rets[-1][-1] if isinstance(rets[-1][-1], ast.AST) else None
        val = Hole("?")
        if isinstance(node, ast.Return) and node.value is not None:
            try:
                val = _OverrideEvaluator(prog, fi.module, env, overrides).ev(node.value)
            except (FoldError, AnalysisError, Exception):
                val = Hole("?")
        out.append(rets[-1][1] if isinstance(val, Hole) else val)
    return out


def effects(trace, kinds=("call", "return", "raise")):
    out = []
    for e in trace:
        if e[0] == "call":
            out.append(("call", e[1], ast.unparse(e[2])))
        elif e[0] == "assign" and "[" in e[1]:
            out.append(("setitem", e[1], e[2]))
        elif e[0] in ("return", "raise"):
            out.append((e[0], e[1]))
    return out


def table(prog: Program, fi: FuncInfo, domain: dict, kind="bindings", fixed_overrides=None, fixed_bindings=None):
    """{point: [(effects, status)]} for the cartesian product of ``domain``.

    ``domain`` maps a parameter name (kind='bindings') or an expression source such as
    ``self.get_state()`` (kind='overrides') to its list of values.
    """
    import itertools

    names = list(domain)
    out = {}
    for combo in itertools.product(*(domain[n] for n in names)):
        b = dict(fixed_bindings or {})
        o = dict(fixed_overrides or {})
        for n, v in zip(names, combo):
            (b if (kind == "bindings" or (isinstance(kind, dict) and kind.get(n) == "bindings")) else o)[n] = v
        fp = feasible_paths(prog, fi, b, o)
        out[combo] = [(effects(tr), st) for tr, st in fp]
    return out
