"""E2 — SQL front end: SQLite used as parser / compiler for the repository's folded SQL.

* catalogue: the folded DDL is executed into an empty in-memory database (no data, no repo code);
  tables, columns, indexes, CHECK constraints, triggers (event, WHEN, body, RAISE) are read back.
* effects: ``EXPLAIN <stmt>`` is *prepared* with an authorizer installed; SQLite reports every
  (READ|UPDATE|INSERT|DELETE, table, column, trigger) the statement can perform at compile time,
  including what the triggers it fires do.  Nothing is executed against data (tables are empty
  and EXPLAIN does not run the statement).
* predicate denotation: a boolean SQL fragment over enum / boolean variables is turned into its
  truth table by constant folding ``SELECT (<fragment>)`` with literals substituted.
"""
from __future__ import annotations

import itertools
import re
import sqlite3
from dataclasses import dataclass, field

from .source import AnalysisError, Program, has_hole
from .sqlsites import SqlCensus, SqlSite, load_census

HOLE_RE = re.compile(r"⟦[^⟧]*⟧")


# --------------------------------------------------------------------------- tokenizer

TOKEN_RE = re.compile(
    r"""
    (?P<ws>\s+)
  | (?P<lc>--[^\n]*)
  | (?P<bc>/\*.*?\*/)
  | (?P<str>'(?:[^']|'')*')
  | (?P<qid>"(?:[^"]|"")*"|`[^`]*`|\[[^\]]*\])
  | (?P<num>\d+\.\d*(?:[eE][+-]?\d+)?|\.\d+|\d+)
  | (?P<param>\?\d*|[:@$][A-Za-z_][A-Za-z_0-9]*)
  | (?P<id>[A-Za-z_][A-Za-z_0-9]*)
  | (?P<op><>|!=|>=|<=|==|\|\||<<|>>|[-+*/%<>=(),.;&|~])
  | (?P<hole>⟦[^⟧]*⟧)
    """,
    re.X | re.S,
)


@dataclass
class Tok:
    kind: str
    text: str
    depth: int = 0

    @property
    def up(self) -> str:
        return self.text.upper()


def tokenize(sql: str) -> list[Tok]:
    out = []
    pos = 0
    depth = 0
    while pos < len(sql):
        m = TOKEN_RE.match(sql, pos)
        if not m:
            raise AnalysisError(f"cannot tokenize SQL at {sql[pos:pos + 30]!r}")
        pos = m.end()
        kind = m.lastgroup
        if kind in ("ws", "lc", "bc"):
            continue
        text = m.group()
        if text == ")":
            depth -= 1
        out.append(Tok(kind, text, depth))
        if text == "(":
            depth += 1
    return out


def untokenize(toks: list[Tok]) -> str:
    return " ".join(t.text for t in toks)


def strip_comments(sql: str) -> str:
    return untokenize(tokenize(sql))


def split_statements(script: str) -> list[str]:
    """Split a script into statements (trigger bodies keep their inner semicolons)."""
    toks = tokenize(script)
    out, cur = [], []
    in_trigger = False
    case_depth = 0
    for i, t in enumerate(toks):
        cur.append(t)
        if t.kind == "id":
            u = t.up
            if u == "TRIGGER" and any(x.up == "CREATE" for x in cur[:4]):
                in_trigger = True
            elif u == "CASE":
                case_depth += 1
            elif u == "END":
                if case_depth > 0:
                    case_depth -= 1
                elif in_trigger:
                    in_trigger = False
        if t.text == ";" and not in_trigger and t.depth == 0:
            stmt = untokenize(cur[:-1]).strip()
            if stmt:
                out.append(stmt)
            cur = []
    stmt = untokenize(cur).strip()
    if stmt:
        out.append(stmt)
    return out


_HOLE_IN_NAME_RE = re.compile(r"[:@$]?\w*⟦[^⟧]*⟧\w*")


def holes_to_params(sql: str) -> str:
    """A hole in value position becomes an anonymous parameter.

    A hole glued to identifier characters (``:state_⟦i⟧``) is a generated parameter name: the
    whole token becomes one parameter.
    """
    return _HOLE_IN_NAME_RE.sub("?", sql)


def statement_kind(sql: str) -> str:
    toks = tokenize(sql)
    if not toks:
        return ""
    first = toks[0].up
    if first == "WITH":
        # the main verb after the CTE list
        for t in toks[1:]:
            if t.depth == 0 and t.kind == "id" and t.up in ("SELECT", "INSERT", "UPDATE", "DELETE", "REPLACE"):
                return t.up
        return "WITH"
    if first == "REPLACE":
        return "INSERT"
    return first


class _Missing(dict):
    def __missing__(self, key):
        return None


# --------------------------------------------------------------------------- catalogue


@dataclass
class Trigger:
    name: str
    temp: bool
    timing: str
    op: str  # INSERT | DELETE | UPDATE
    of_cols: tuple
    table: str
    when: str | None
    body: str
    raises: bool
    sql: str

    @property
    def event(self):
        return (self.table, self.op, self.of_cols)


@dataclass
class Table:
    name: str
    temp: bool
    sql: str
    columns: dict = field(default_factory=dict)  # name -> dict(type, notnull, dflt, pk)
    checks: list = field(default_factory=list)  # CHECK expression texts
    fks: list = field(default_factory=list)  # (from_col, table, to_col, on_delete)
    without_rowid: bool = False


@dataclass
class Index:
    name: str
    table: str
    unique: bool
    columns: list  # (name or None for expression, collation, desc)
    where: str | None
    sql: str | None


TRIGGER_RE = re.compile(
    r"CREATE\s+(?P<temp>TEMP\s+|TEMPORARY\s+)?TRIGGER\s+(?:IF\s+NOT\s+EXISTS\s+)?(?P<name>\w+)\s+"
    r"(?P<timing>BEFORE|AFTER|INSTEAD\s+OF)\s+(?P<op>INSERT|DELETE|UPDATE)(?:\s+OF\s+(?P<cols>[\w\s,]+?))?\s+"
    r"ON\s+(?P<table>\w+)\s*(?:FOR\s+EACH\s+ROW\s*)?(?:WHEN\s+(?P<when>.*?))?\s*BEGIN\s+(?P<body>.*)\s+END\s*$",
    re.I | re.S,
)


class Catalogue:
    def __init__(self, prog: Program, census: SqlCensus | None = None):
        self.prog = prog
        self.census = census or load_census(prog)
        self.con = sqlite3.connect(":memory:")
        self.con.execute("PRAGMA foreign_keys = ON")
        self.schema_sources: list[str] = []
        self._build()
        self._read()

    # the persistent schema scripts, in the order Trellis.initialize applies them
    SCHEMA_CONSTS = [("trellis", "TRELLIS_SCHEMA"), ("workflow", "WORKFLOW_SCHEMA"), ("file", "FILE_SCHEMA"), ("step", "STEP_SCHEMA")]

    def _build(self):
        scripts = []
        for mod, name in self.SCHEMA_CONSTS:
            text = self.prog.fold(mod, name)
            if not isinstance(text, str) or has_hole(text):
                raise AnalysisError(f"schema constant {mod}.{name} does not fold to a complete script")
            scripts.append((f"{mod}.{name}", text))
        for label, text in scripts:
            try:
                self.con.executescript(text)
            except sqlite3.Error as exc:
                raise AnalysisError(f"schema script {label} does not compile: {exc}") from exc
            self.schema_sources.append(label)
        # run-time DDL (CREATE TEMP TABLE ... in scheduler, pending, finalize, clean)
        ddl = []
        for site in self.census.sites:
            for text in site.full_texts():
                if has_hole(text):
                    continue
                for stmt in split_statements(text):
                    if statement_kind(stmt) == "CREATE":
                        ddl.append((site.where, stmt))
        pending = ddl
        for _ in range(4):
            failed = []
            for where, stmt in pending:
                s = re.sub(r"^CREATE\s+(TEMP|TEMPORARY)\s+", "CREATE TEMP ", stmt, flags=re.I)
                try:
                    if not re.search(r"IF\s+NOT\s+EXISTS", s, re.I):
                        s2 = re.sub(r"^(CREATE\s+(?:TEMP\s+)?(?:UNIQUE\s+)?(?:TABLE|INDEX|TRIGGER|VIEW))\s+", r"\1 IF NOT EXISTS ", s, flags=re.I)
                    else:
                        s2 = s
                    self.con.execute(s2)
                    self.schema_sources.append(where)
                except sqlite3.Error as exc:
                    failed.append((where, stmt, str(exc)))
            if not failed:
                break
            pending = [(w, s) for w, s, _ in failed]
        self.ddl_failures = failed if failed else []

    def _master_rows(self):
        rows = []
        for master, temp in (("sqlite_master", False), ("sqlite_temp_master", True)):
            for typ, name, tbl, sql in self.con.execute(f"SELECT type, name, tbl_name, sql FROM {master}"):
                rows.append((typ, name, tbl, sql, temp))
        return rows

    def _read(self):
        self.tables: dict[str, Table] = {}
        self.indexes: dict[str, Index] = {}
        self.triggers: dict[str, Trigger] = {}
        for typ, name, tbl, sql, temp in self._master_rows():
            if typ == "table":
                t = Table(name, temp, sql or "")
                schema = "temp" if temp else "main"
                for cid, cname, ctype, notnull, dflt, pk, hidden in self.con.execute(f"PRAGMA {schema}.table_xinfo('{name}')"):
                    t.columns[cname] = dict(type=ctype, notnull=bool(notnull), dflt=dflt, pk=pk)
                for row in self.con.execute(f"PRAGMA {schema}.foreign_key_list('{name}')"):
                    t.fks.append((row[3], row[2], row[4], row[6]))
                t.checks = _extract_checks(sql or "")
                t.without_rowid = bool(re.search(r"WITHOUT\s+ROWID\s*$", strip_comments(sql or ""), re.I))
                self.tables[name] = t
        for typ, name, tbl, sql, temp in self._master_rows():
            if typ == "index":
                schema = "temp" if temp else "main"
                cols = []
                for row in self.con.execute(f"PRAGMA {schema}.index_xinfo('{name}')"):
                    seqno, cid, cname, desc, coll, key = row
                    if key:
                        cols.append((cname, coll, bool(desc)))
                unique = False
                for row in self.con.execute(f"PRAGMA {schema}.index_list('{tbl}')"):
                    if row[1] == name:
                        unique = bool(row[2])
                where = None
                if sql:
                    toks = tokenize(sql)
                    for i, t in enumerate(toks):
                        if t.depth == 0 and t.up == "WHERE":
                            where = untokenize(toks[i + 1:])
                            break
                self.indexes[name] = Index(name, tbl, unique, cols, where, sql)
            elif typ == "trigger":
                clean = strip_comments(sql)
                m = TRIGGER_RE.match(clean)
                if not m:
                    raise AnalysisError(f"cannot parse trigger {name}")
                cols = tuple(sorted(c.strip() for c in (m.group("cols") or "").split(",") if c.strip()))
                body = m.group("body")
                self.triggers[name] = Trigger(
                    name, temp or bool(m.group("temp")), m.group("timing").upper(), m.group("op").upper(), cols,
                    m.group("table"), (m.group("when") or None), body, bool(re.search(r"RAISE\s*\(\s*ABORT", body, re.I)), sql,
                )

    # ------------------------------------------------------------------ effects

    def effects(self, stmt: str) -> list[tuple]:
        """Compile-time effects [(action, table, column, trigger)] of one statement."""
        stmt = holes_to_params(stmt)
        events = []

        def auth(action, a1, a2, db, trig):
            if action == sqlite3.SQLITE_READ:
                events.append(("READ", a1, a2, trig))
            elif action == sqlite3.SQLITE_UPDATE:
                events.append(("UPDATE", a1, a2, trig))
            elif action == sqlite3.SQLITE_INSERT:
                events.append(("INSERT", a1, None, trig))
            elif action == sqlite3.SQLITE_DELETE:
                events.append(("DELETE", a1, None, trig))
            return sqlite3.SQLITE_OK

        self.con.set_authorizer(auth)
        try:
            self._explain(stmt)
        finally:
            self.con.set_authorizer(None)
        # Foreign-key cascades: depending on the SQLite version the authorizer reports the cascaded
        # DELETEs as plain events of the statement or not at all.  Normalise: cascaded deletes are
        # attributed to "fk-cascade:<parent>" and added when missing.
        out = list(dict.fromkeys(events))
        main = None
        mt = re.match(r"\s*(?:WITH\b.*?\)\s*)?DELETE\s+FROM\s+(\w+)", stmt, re.I | re.S)
        if mt:
            main = mt.group(1)
            children = {}
            frontier = {main}
            while frontier:
                nxt = set()
                for t in self.tables.values():
                    for from_col, ref_table, to_col, on_delete in t.fks:
                        if ref_table in frontier and (on_delete or "").upper() == "CASCADE" and t.name not in children and t.name != main:
                            children[t.name] = ref_table
                            nxt.add(t.name)
                frontier = nxt
            out = [(e[0], e[1], e[2], f"fk-cascade:{children[e[1]]}") if (e[0] == "DELETE" and e[3] is None and e[1] in children) else e for e in out]
        deleted = {e[1] for e in out if e[0] == "DELETE"}
        frontier = set(deleted)
        seen = set(deleted)
        while frontier:
            nxt = set()
            for t in self.tables.values():
                for from_col, ref_table, to_col, on_delete in t.fks:
                    if ref_table in frontier and (on_delete or "").upper() == "CASCADE" and t.name not in seen:
                        out.append(("DELETE", t.name, None, f"fk-cascade:{ref_table}"))
                        # triggers on that delete
                        for tr in self.triggers.values():
                            if tr.table == t.name and tr.op == "DELETE":
                                for e in self._trigger_body_effects(tr):
                                    out.append(e)
                        nxt.add(t.name)
                        seen.add(t.name)
            frontier = nxt
        return list(dict.fromkeys(out))

    def _trigger_body_effects(self, tr: Trigger):
        out = []
        for stmt in split_statements(tr.body):
            s = re.sub(r"\b(NEW|OLD)\.(\w+)", "?", stmt)
            try:
                for e in self.effects(s):
                    out.append((e[0], e[1], e[2], e[3] or tr.name))
            except AnalysisError:
                pass
        return out

    def _explain(self, stmt: str):
        sql = "EXPLAIN " + stmt
        try:
            return self.con.execute(sql, _Missing()).fetchall()
        except sqlite3.ProgrammingError as exc:
            m = re.search(r"uses (\d+), and there are", str(exc))
            if m:
                try:
                    return self.con.execute(sql, [None] * int(m.group(1))).fetchall()
                except sqlite3.Error as exc2:
                    raise AnalysisError(f"SQL does not compile: {exc2}: {stmt[:200]}") from exc2
            # mapping given but qmark style used
            try:
                n = stmt.count("?")
                for k in range(n, -1, -1):
                    try:
                        return self.con.execute(sql, [None] * k).fetchall()
                    except sqlite3.ProgrammingError:
                        continue
            except sqlite3.Error as exc2:
                raise AnalysisError(f"SQL does not compile: {exc2}: {stmt[:200]}") from exc2
            raise AnalysisError(f"SQL does not compile: {exc}: {stmt[:200]}") from exc
        except sqlite3.Error as exc:
            raise AnalysisError(f"SQL does not compile: {exc}: {stmt[:200]}") from exc

    def compiles(self, stmt: str) -> str | None:
        """None if the statement compiles against the folded schema, else the error text."""
        try:
            self._explain(holes_to_params(stmt))
            return None
        except AnalysisError as exc:
            return str(exc)

    def writes(self, stmt: str) -> set:
        """{(op, table, column|None, trigger|None)} for write effects."""
        return {e for e in self.effects(stmt) if e[0] != "READ"}

    def reads(self, stmt: str) -> set:
        return {(e[1], e[2]) for e in self.effects(stmt) if e[0] == "READ"}

    # ------------------------------------------------------------------ predicate denotation

    def truth_table(self, pred: str, domain: dict, extra: dict | None = None) -> dict:
        """Constant-fold ``pred`` for every point of ``domain``.

        ``domain`` maps variable spellings (e.g. ``input_file.state``; several spellings for one
        variable may be given as a tuple key) to the list of literal values.  Returns
        {point-tuple: True|False|None}.
        """
        names = list(domain)
        table = {}
        for combo in itertools.product(*(domain[n] for n in names)):
            expr = pred
            for n, v in zip(names, combo):
                spellings = n if isinstance(n, tuple) else (n,)
                for sp in spellings:
                    expr = _subst_ident(expr, sp, v)
            for sp, v in (extra or {}).items():
                expr = _subst_ident(expr, sp, v)
            expr = holes_to_params(expr)
            try:
                row = self.con.execute(f"SELECT ({expr})", _Missing()).fetchone()
            except sqlite3.Error as exc:
                raise AnalysisError(f"cannot fold predicate {pred[:120]!r} at {dict(zip(names, combo))}: {exc}") from exc
            val = row[0]
            table[combo] = None if val is None else bool(val)
        return table


def sql_literal(v) -> str:
    if v is None:
        return "NULL"
    if v is True:
        return "1"
    if v is False:
        return "0"
    if isinstance(v, (int, float)):
        return repr(v)
    return "'" + str(v).replace("'", "''") + "'"


def _subst_ident(expr: str, ident: str, value) -> str:
    pat = r"(?<![\w.])" + re.escape(ident).replace(r"\.", r"\s*\.\s*") + r"(?![\w.(])"
    return re.sub(pat, lambda _m: sql_literal(value), expr)


def _extract_checks(create_sql: str) -> list[str]:
    toks = tokenize(create_sql)
    out = []
    i = 0
    while i < len(toks):
        t = toks[i]
        if t.kind == "id" and t.up == "CHECK" and i + 1 < len(toks) and toks[i + 1].text == "(":
            d = toks[i + 1].depth
            j = i + 2
            while j < len(toks) and not (toks[j].text == ")" and toks[j].depth == d):
                j += 1
            out.append(untokenize(toks[i + 2:j]))
            i = j
        i += 1
    return out


# --------------------------------------------------------------------------- fragments of statements


def top_level_where(sql: str, select_index: int = 0) -> str | None:
    """WHERE clause text of the outermost SELECT/UPDATE/DELETE (depth 0 of the statement)."""
    toks = tokenize(sql)
    return _where_at_depth(toks, 0)


def _where_at_depth(toks, depth, start=0):
    enders = {"GROUP", "ORDER", "LIMIT", "UNION", "EXCEPT", "INTERSECT", "RETURNING", "WINDOW", "HAVING"}
    for i in range(start, len(toks)):
        t = toks[i]
        if t.depth == depth and t.kind == "id" and t.up == "WHERE":
            j = i + 1
            while j < len(toks):
                u = toks[j]
                if u.depth < depth:
                    break
                if u.depth == depth and u.kind == "id" and u.up in enders:
                    break
                if u.depth == depth and u.text == ";":
                    break
                j += 1
            return untokenize(toks[i + 1:j])
    return None


def all_where_clauses(sql: str) -> list[str]:
    """Every WHERE clause in the statement, at any nesting depth."""
    toks = tokenize(sql)
    out = []
    enders = {"GROUP", "ORDER", "LIMIT", "UNION", "EXCEPT", "INTERSECT", "RETURNING", "WINDOW", "HAVING"}
    for i, t in enumerate(toks):
        if t.kind == "id" and t.up == "WHERE":
            depth = t.depth
            j = i + 1
            while j < len(toks):
                u = toks[j]
                if u.depth < depth:
                    break
                if u.depth == depth and u.kind == "id" and u.up in enders:
                    break
                if u.depth == depth and u.text == ";":
                    break
                j += 1
            out.append(untokenize(toks[i + 1:j]))
    return out


def split_conjuncts(pred: str) -> list[str]:
    toks = tokenize(pred)
    out, cur = [], []
    between = 0
    case = 0
    for t in toks:
        if t.kind == "id":
            if t.up == "BETWEEN":
                between += 1
            elif t.up == "CASE":
                case += 1
            elif t.up == "END" and case:
                case -= 1
        if t.depth == 0 and t.kind == "id" and t.up == "AND" and case == 0:
            if between:
                between -= 1
                cur.append(t)
                continue
            out.append(untokenize(cur))
            cur = []
        else:
            cur.append(t)
    if cur:
        out.append(untokenize(cur))
    # re-base depths: conjunct wrapped in a single pair of parentheses -> strip
    res = []
    for c in out:
        c = c.strip()
        while c.startswith("(") and _matching_paren_closes_at_end(c):
            c = c[1:-1].strip()
        res.append(c)
    return res


def _matching_paren_closes_at_end(s: str) -> bool:
    toks = tokenize(s)
    if not toks or toks[0].text != "(":
        return False
    d = 0
    for i, t in enumerate(toks):
        if t.text == "(":
            d += 1
        elif t.text == ")":
            d -= 1
            if d == 0:
                return i == len(toks) - 1
    return False


def identifiers(pred: str) -> set[str]:
    """Dotted identifiers used in a fragment (keywords excluded)."""
    KEYWORDS = {
        "AND", "OR", "NOT", "IN", "IS", "NULL", "EXISTS", "SELECT", "FROM", "WHERE", "JOIN", "ON", "AS", "LEFT", "INNER",
        "CASE", "WHEN", "THEN", "ELSE", "END", "LIKE", "ESCAPE", "GLOB", "BETWEEN", "TRUE", "FALSE", "DISTINCT", "CROSS",
        "UNION", "ALL", "LIMIT", "ORDER", "BY", "GROUP", "HAVING", "ASC", "DESC", "COLLATE", "CAST", "OUTER", "USING",
        "INDEXED", "WITH", "RECURSIVE", "VALUES", "NATURAL",
    }
    toks = tokenize(pred)
    out = set()
    i = 0
    while i < len(toks):
        t = toks[i]
        if t.kind == "id" and t.up not in KEYWORDS:
            name = t.text
            j = i + 1
            while j + 1 < len(toks) and toks[j].text == "." and toks[j + 1].kind == "id":
                name += "." + toks[j + 1].text
                j += 2
            if j < len(toks) and toks[j].text == "(":
                i = j
                continue  # function call
            out.add(name)
            i = j
            continue
        i += 1
    return out


# --------------------------------------------------------------------------- statement census with effects


@dataclass
class StmtInfo:
    site: SqlSite
    text: str
    kind: str
    writes: set
    reads: set
    error: str | None = None


class SqlModel:
    """Catalogue + every folded statement of every call site with its compiled effects."""

    EXEMPT_SITES = {
        # site function -> reason (dynamic SQL that is not a workflow mutation)
        "sqlite3.SQLLog.time_execute": "EXPLAIN QUERY PLAN of a statement that is logged, not a new statement",
        "sqlite3._wipe_database": "drops every catalogue object by name when a foreign database is wiped",
        "sqlite3.DBSession.apply_schema": "executes the schema scripts, which are folded separately by constant name",
        "sqlite3.DBSession.reclaim_free_space": "PRAGMA incremental_vacuum with a page count",
    }

    def __init__(self, prog: Program):
        self.prog = prog
        self.census = load_census(prog)
        self.cat = Catalogue(prog, self.census)
        self.stmts: list[StmtInfo] = []
        self.unresolved: list[SqlSite] = []
        self.exempt: list[SqlSite] = []
        self._build()

    def _build(self):
        for site in self.census.sites:
            base_fq = site.func.fq.split(".<locals>.")[0]
            if base_fq in self.EXEMPT_SITES:
                self.exempt.append(site)
                continue
            if site.unresolved():
                self.unresolved.append(site)
                continue
            any_ok = False
            for text in site.full_texts():
                for stmt in split_statements(text):
                    kind = statement_kind(stmt)
                    if kind in ("PRAGMA", "BEGIN", "COMMIT", "ROLLBACK", "VACUUM", "ANALYZE", "ATTACH", "DETACH", "SAVEPOINT", "RELEASE", "CREATE", "DROP"):
                        self.stmts.append(StmtInfo(site, stmt, kind, set(), set()))
                        any_ok = True
                        continue
                    try:
                        eff = self.cat.effects(stmt)
                        w = {e for e in eff if e[0] != "READ"}
                        r = {(e[1], e[2]) for e in eff if e[0] == "READ"}
                        self.stmts.append(StmtInfo(site, stmt, kind, w, r))
                        any_ok = True
                    except AnalysisError as exc:
                        self.stmts.append(StmtInfo(site, stmt, kind, set(), set(), error=str(exc)))
            if not any_ok:
                self.unresolved.append(site)

    def failing(self) -> list[StmtInfo]:
        """Statements that do not compile and cannot be put down to path-insensitive folding.

        The string-set folder is path-insensitive, so a read-only site assembled from optional
        pieces (``Step._paths``) also yields piece combinations no path produces.  For a site all
        of whose variants are SELECTs, non-compiling variants are tolerated as long as at least
        one variant compiles; a write statement must always compile.
        """
        by_site: dict = {}
        for s in self.stmts:
            by_site.setdefault(s.site.key, []).append(s)
        out = []
        for stmts in by_site.values():
            bad = [s for s in stmts if s.error]
            if not bad:
                continue
            all_select = all(s.kind in ("SELECT", "WITH") for s in stmts)
            if all_select and any(not s.error for s in stmts):
                continue
            out.extend(bad)
        return out

    def tolerated_variants(self) -> int:
        strict = {id(s) for s in self.failing()}
        return sum(1 for s in self.stmts if s.error and id(s) not in strict)

    def stmts_in(self, fq: str) -> list[StmtInfo]:
        return [s for s in self.stmts if s.site.func.fq == fq or s.site.func.fq.startswith(fq + ".<locals>.")]

    def writers_of(self, table: str, column: str | None = None, op: str | None = None, direct_only=True):
        """Statements with a write effect on table(.column) (not through a trigger if direct_only)."""
        out = []
        for s in self.stmts:
            for (o, t, c, trig) in s.writes:
                if t != table:
                    continue
                if direct_only and trig is not None:
                    continue
                if op is not None and o != op:
                    continue
                if column is not None and o == "UPDATE" and c != column:
                    continue
                out.append(s)
                break
        return out


_MODEL_CACHE: dict[str, SqlModel] = {}


def load_sql_model(prog: Program) -> SqlModel:
    if prog.digest not in _MODEL_CACHE:
        _MODEL_CACHE[prog.digest] = SqlModel(prog)
    return _MODEL_CACHE[prog.digest]
