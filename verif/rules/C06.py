"""C06 — cleaning never destroys what StepUp does not own (structural clauses)."""
from __future__ import annotations

import ast
import itertools
import re

from ..engine import finite, flow
from ..engine.mutate import Mutant, Variant, in_function, replace_once
from ..engine.runner import Rule
from ..engine.source import AnalysisError, Evaluator, Hole
from . import C13
from . import shared
from .common import callee_name, calls_in, kwarg

EXPLANATION = (
    "Static analysis of every deletion path. All file-system deletion effects in stepup/core are enumerated and must "
    "lie in the frozen site table (cleanup pass, clean tool, housekeeping of StepUp's own socket and logs); recursive "
    "deletes are forbidden anywhere. Writers of Workflow.to_be_deleted are enumerated; File.before_delete is "
    "interpreted over all FileState values (which states are queued, with which hash); the optional-revert query's "
    "state filter is a truth table. remove_deletable_files and clean.clean are path-enumerated: every path to the "
    "unlink passed the re-hash comparison or carries no hash (volatile). Builder.finalize's three guards are folded "
    "over all 64 ReturnCode flag sets. delete_detached's candidate query is checked to keep nodes with products or "
    "sinks. Decides these mechanisms, not that database memories produced by every history describe files StepUp wrote. "
    'Also (R-C06-7): can_recycle compares regular and volatile outputs separately (a path that changes role is not recycled with a VOLATILE state) and a new static tree adopts every detached row beneath it.'
)
ASSUMPTIONS = [
    "Path.remove/remove_p unlink one file and Path.rmdir refuses non-empty directories (OS semantics)",
    "FileHash.refreshed re-reads the file when its stat signature changed (checked structurally in C13/C04)",
]

FS_DELETE_ATTRS = {"remove", "remove_p", "rmdir", "rmdir_p", "unlink", "unlink_p", "rmtree", "rmtree_p", "removedirs", "removedirs_p"}
FS_RECURSIVE = {"rmtree", "rmtree_p", "removedirs", "removedirs_p"}
FS_OS_FUNCS = {"os.remove", "os.unlink", "os.rmdir", "os.removedirs", "shutil.rmtree", "os.replace", "os.rename", "shutil.move"}

ALLOWED_FS_SITES = {
    "finalize.remove_deletable_files": "cleanup pass: unlink guarded by the re-hash comparison (R-C06-3)",
    "finalize._prune_empty_dirs": "cleanup pass: rmdir on directories found empty",
    "clean.clean": "clean tool: remove_p guarded by --commit and the changed test; rmdir on empty parents",
    "director._run_tasks": "housekeeping: the director's own socket",
    "reporter.ReporterHandler.set_njob": "housekeeping: .stepup log files",
    "tui._reset_stepup_dir": "housekeeping: .stepup log files",
}


def _fs_effects(fi):
    out = []
    for n in ast.walk(fi.node):
        if isinstance(n, ast.Call):
            src = ast.unparse(n.func)
            if src in FS_OS_FUNCS:
                out.append((n, src, src.split(".")[-1] in ("rmtree", "removedirs")))
            elif isinstance(n.func, ast.Attribute) and n.func.attr in FS_DELETE_ATTRS and len(n.args) == 0:
                out.append((n, src, n.func.attr in FS_RECURSIVE))
            # bound method passed as a value: _try_remove(path.remove)
            for a in n.args:
                if isinstance(a, ast.Attribute) and a.attr in FS_DELETE_ATTRS:
                    out.append((a, ast.unparse(a), a.attr in FS_RECURSIVE))
    return out


def rule_who_may_delete(ctx):
    """R-C06-1."""
    probe = ast.parse("def f(p):\n    p.rmtree_p()\n    _try(p.remove)\n").body[0]

    class _P:
        node = probe
    ctx.control(len(_fs_effects(_P)) == 2 and any(r for _, _, r in _fs_effects(_P)), "fixture with rmtree_p and a bound remove is recognised", "deletion-effect scanner is blind")
    n = 0
    for fi in ctx.prog.all_functions():
        if ".<locals>." in fi.qualname or fi.module.name == "pytest":
            continue
        for node, src, recursive in _fs_effects(fi):
            n += 1
            base = fi.fq
            where = ctx.where_of(fi, node)
            if recursive:
                ctx.bad(base, src, "recursive delete: a directory is removed with whatever it contains", where=where)
                continue
            site_ok = any(base == k or base.startswith(k + ".") or k.startswith(base) for k in ALLOWED_FS_SITES) or base in ALLOWED_FS_SITES
            if not site_ok:
                # housekeeping sites may live in differently named helpers of reporter/tui: accept only .stepup log cleanup there
                if fi.module.name in ("reporter", "tui") and "log" in src.lower():
                    ctx.ok(base, src, "housekeeping of StepUp's own log files", where=where)
                    continue
            ctx.check(site_ok, base, src, "file-system deletion outside the cleanup pass, the clean tool and StepUp's own housekeeping", ALLOWED_FS_SITES.get(base, "allowed site"), where=where)
    if n < 5:
        raise AnalysisError("deletion sites not found")


def rule_what_is_queued(ctx):
    """R-C06-2."""
    FS = ctx.prog.enum("FileState")
    # writers of to_be_deleted
    writers = {}
    for fi in ctx.prog.all_functions():
        for n in ast.walk(fi.node):
            tgt = None
            if isinstance(n, (ast.Assign, ast.AugAssign)):
                for t in (n.targets if isinstance(n, ast.Assign) else [n.target]):
                    if isinstance(t, ast.Subscript) and ast.unparse(t.value).endswith("to_be_deleted"):
                        tgt = "setitem"
            elif isinstance(n, ast.Call) and isinstance(n.func, ast.Attribute) and ast.unparse(n.func.value).endswith("to_be_deleted") and n.func.attr in ("update", "setdefault", "__setitem__", "clear", "pop"):
                tgt = n.func.attr
            if tgt:
                writers.setdefault(fi.fq, set()).add(tgt)
    allowed = {"file.File.before_delete": {"setitem"}, "finalize.revert_optional_steps": {"update"}, "workflow.Workflow.mark_dir_to_be_deleted": {"setitem"}, "finalize.remove_deletable_files": {"clear"}}
    for fq, kinds in sorted(writers.items()):
        ctx.check(fq in allowed and kinds <= allowed[fq], fq, f"writes Workflow.to_be_deleted ({sorted(kinds)})", "new writer of the deletion queue", "frozen writer")
    if set(allowed) - set(writers):
        raise AnalysisError(f"expected writers of to_be_deleted vanished: {sorted(set(allowed) - set(writers))}")
    # File.before_delete over all states × hash known
    fi = ctx.prog.func("file.File.before_delete")
    for st, known in itertools.product(FS, (True, False)):
        fp = finite.feasible_paths(ctx.prog, fi, {}, {"self.get_state()": st, "file_hash.is_unknown": (not known)})
        if not fp:
            raise AnalysisError("before_delete has no feasible path")
        for tr, status in fp:
            sets = [e for e in tr if e[0] == "assign" and "to_be_deleted[" in e[1]]
            vals = [e[2] for e in sets]
            if st == FS.VOLATILE:
                ok, exp = vals == ["None"], "queued without hash (removed whatever its content)"
            elif st in (FS.BUILT, FS.OUTDATED) and known:
                ok, exp = vals == ["file_hash"], "queued with its recorded hash"
            else:
                ok, exp = vals == [], "not queued"
            dirq = any(e[0] == "call" and e[1].endswith("mark_dir_to_be_deleted") for e in tr)
            ctx.check(ok, fi.fq, f"state={st.name} hash_known={known}", f"before_delete queues {vals} for a {st.name} file (expected: {exp}); static, planned and undeclared paths are never StepUp's to delete", exp, where=ctx.where_of(fi))
            ctx.check(dirq, fi.fq, f"state={st.name} hash_known={known}: parent directory queued", "parent directory not queued", "mark_dir_to_be_deleted")
    src = ast.unparse(fi.node)
    ctx.check("file_hash = self.get_hash()" in src, fi.fq, "the queued hash is the recorded hash of this file", "queued hash has another provenance", "self.get_hash()")
    # mark_dir_to_be_deleted: directories only, never the root
    md = ctx.prog.func("workflow.Workflow.mark_dir_to_be_deleted")
    src = ast.unparse(md.node)
    ok = "self.to_be_deleted[path + os.sep] = None" in src and re.search(r"if path != '\.'", src) is not None
    ctx.check(ok, md.fq, "queues 'dir/' with value None, never '.'", "directory queue entry changed (key must end in a separator so it is never unlinked as a file)", "ok")
    # optional revert: state filter and mapping
    q = ctx.prog.fold("finalize", "CREATE_OPTIONAL_TO_BE_DELETED_TABLE")
    m = re.search(r"WHERE\s+(file\.state\s+IN\s*\([^)]*\))", re.sub(r"\s+", " ", q), re.I)
    if not m:
        raise AnalysisError("cannot locate the state filter of CREATE_OPTIONAL_TO_BE_DELETED_TABLE")
    tt = ctx.cat.truth_table(m.group(1), {"file.state": [s.value for s in FS]})
    sel = {FS(s).name for (s,), v in tt.items() if v}
    ctx.check(sel <= {"VOLATILE", "BUILT", "OUTDATED"} and sel, "finalize.CREATE_OPTIONAL_TO_BE_DELETED_TABLE", "only VOLATILE/BUILT/OUTDATED outputs of optional steps are queued", f"selects {sorted(sel)}", f"{sorted(sel)}")
    ctx.check("JOIN optional_step ON dependency.source = optional_step.i" in re.sub(r"\s+", " ", q), "finalize.CREATE_OPTIONAL_TO_BE_DELETED_TABLE", "restricted to outputs (dependency sinks) of the optional steps", "join changed", "sinks of optional steps")
    rv = ctx.prog.func("finalize.revert_optional_steps")
    src = re.sub(r"\s+", " ", ast.unparse(rv.node))
    ctx.check("None if row[1] == FileState.VOLATILE.value else FileHash.from_json(row[2])" in src, rv.fq, "VOLATILE -> None, others -> recorded hash", "mapping of queued optional outputs changed", "ok")


def _hash_guard_ok(tr, i, hash_name):
    """Before event i: either `<hash> is not None` was False, or the refreshed comparison was False after it."""
    tests = [(k, e[1], e[2]) for k, e in enumerate(tr[:i]) if e[0] == "test"]
    none_branch = any(t == f"{hash_name} is not None" and v is False for _, t, v in tests)
    if none_branch:
        return True, "no recorded hash (volatile)"
    pos = [k for k, t, v in tests if t == f"{hash_name} is not None" and v is True]
    if not pos:
        return False, "hash presence not tested"
    cmp_ok = any(re.fullmatch(rf"{hash_name}\.refreshed\(\w+\) != {hash_name}", t) and v is False and k > pos[-1] for k, t, v in tests)
    exc = any(e[0] == "except" for e in tr[pos[-1]:i])
    return (cmp_ok and not exc), ("re-hash equals recorded hash" if cmp_ok and not exc else "reached without the re-hash comparison" + (" (through the HashError handler)" if exc else ""))


def rule_rehash_before_unlink(ctx):
    """R-C06-3."""
    fi = ctx.prog.func("finalize.remove_deletable_files")
    n = 0
    for tr, st in flow.paths_of(fi):
        for i, e in enumerate(tr):
            if e[0] == "call" and e[1] == "_try_remove" and "remove" in ast.unparse(e[2]) and "rmdir" not in ast.unparse(e[2]):
                n += 1
                ok, how = _hash_guard_ok(tr, i, "old_hash")
                ctx.check(ok, fi.fq, "unlink of a queued file", f"a queued file is unlinked although its content was not compared with the recorded hash: {how}", how, where=ctx.where_of(fi, e[2]))
    if n == 0:
        raise AnalysisError("remove_deletable_files no longer removes files")
    src = ast.unparse(fi.node)
    ctx.check("old_hash = workflow.to_be_deleted[file_path]" in src, fi.fq, "compared hash is the one queued with the path", "hash provenance changed", "to_be_deleted[file_path]")
    ctx.check("if not path.endswith(os.sep)" in src, fi.fq, "directory entries are never unlinked as files", "file/directory split of the queue changed", "split on trailing separator")
    pr = ctx.prog.func("finalize._prune_empty_dirs")
    ok = False
    for n2 in ast.walk(pr.node):
        if isinstance(n2, ast.If) and "_try_remove(path.rmdir)" in ast.unparse(n2.test):
            t = ast.unparse(n2.test)
            ok = t.index("path.is_dir()") < t.index("not any(path.iterdir())") < t.index("_try_remove(path.rmdir)")
    ctx.check(ok, pr.fq, "rmdir only after is_dir and emptiness test", "directories are removed without the emptiness test", "guarded")
    # clean tool
    cl = ctx.prog.func("clean.clean")
    n = 0
    for tr, st in flow.paths_of(cl):
        for i, e in enumerate(tr):
            if e[0] == "call" and e[1].endswith(".remove_p"):
                n += 1
                tests = [(x[1], x[2]) for x in tr[:i] if x[0] == "test"]
                commit = ("args.commit", True) in tests
                safe_changed = ("args.safe", True) in tests and ("changed", True) in tests
                ctx.check(commit and not safe_changed, cl.fq, "remove_p only with --commit and not (safe and changed)", f"clean removes a file without --commit or although it changed in safe mode (commit={commit})", "guarded", where=ctx.where_of(cl, e[2]))
    if n == 0:
        raise AnalysisError("clean.clean no longer removes files")
    src = re.sub(r"\s+", " ", ast.unparse(cl.node))
    ctx.check("changed = state != FileState.VOLATILE and old_file_hash.refreshed(lo_consuming_path) != old_file_hash" in src, cl.fq, "changed = non-volatile and re-hash differs from the recorded hash", "definition of 'changed' in the clean tool was altered", "ok")
    ok = re.search(r"parent\.is_dir\(\) and str\(parent\) not in \('\.', os\.sep\) and \(?not any\(parent\.iterdir\(\)\)", src) is not None
    ctx.check(ok, cl.fq, "parent rmdir only when empty and not root", "empty-parent pruning guard changed", "guarded")
    ap = ctx.prog.func("clean.add_clean_subcommand")
    s2 = re.sub(r"\s+", " ", ast.unparse(ap.node))
    opts = {}
    for c in calls_in(ap.node):
        if callee_name(c) == "add_argument":
            flags = [a.value for a in c.args if isinstance(a, ast.Constant) and isinstance(a.value, str)]
            kw = {k.arg: ast.unparse(k.value) for k in c.keywords if k.arg}
            for f in flags:
                opts[f] = kw
    un, co = opts.get("--unsafe", {}), opts.get("--commit", {})
    ctx.check(un.get("action") == "'store_false'" and un.get("default") == "True" and un.get("dest") == "'safe'", ap.fq, "safe mode is the default (--unsafe turns it off)", f"safe default changed: {un}", "default True")
    ctx.check(co.get("action") == "'store_true'" and co.get("default") == "False", ap.fq, "dry run is the default", f"--commit default changed: {co}", "default False")


def rule_finalize_guards(ctx):
    """R-C06-4."""
    RC = ctx.prog.enum("ReturnCode")
    fi = ctx.prog.func("builder.Builder.finalize")
    flags = list(RC)
    cleanup = ("revert_optional_steps", "delete_detached", "remove_deletable_files")
    npts = 0
    bad = []
    for r in range(len(flags) + 1):
        for combo in itertools.combinations(flags, r):
            rc = RC(0)
            for f in combo:
                rc |= f
            for targets, tdirs, clean in itertools.product((0, 1), (0, 1), (True, False)):
                npts += 1
                ov = {"self.returncode": rc, "len(self.workflow.targets)": targets, "len(self.workflow.target_dirs)": tdirs, "self.do_remove_outdated": clean}
                # returncode is assigned inside finalize: bind after the assignment by overriding the awaited call
                fp = finite.feasible_paths(ctx.prog, fi, {}, ov)
                for tr, st in fp:
                    called = [e[1].split(".")[-1] for e in tr if e[0] == "call" and e[1].split(".")[-1] in cleanup]
                    expect_clean = (not targets and not tdirs) and not (rc & ~RC.WARNING) and clean
                    if bool(called) != bool(expect_clean) or (called and called != list(cleanup)):
                        bad.append((str(rc), targets, tdirs, clean, called))
    ctx.check(not bad, fi.fq, f"cleanup runs iff no targets ∧ returncode ⊆ {{WARNING}} ∧ cleaning enabled ({npts} points)",
              f"cleanup guard differs at {bad[:3]}: files are removed after an incomplete / restricted / --no-clean build", "exact over all ReturnCode flag sets", where=ctx.where_of(fi), points=npts)
    for name in cleanup:
        tgt = {"revert_optional_steps": "finalize.revert_optional_steps", "delete_detached": "workflow.Workflow.delete_detached", "remove_deletable_files": "finalize.remove_deletable_files"}[name]
        callers = {c.split(".<locals>.")[0] for c in ctx.cg.callers_of(tgt, include_by_name=True)} - {tgt}
        callers = {c for c in callers if not c.startswith("pytest.")}
        ctx.check(callers <= {"builder.Builder.finalize"}, tgt, "called only from Builder.finalize", f"also called from {sorted(callers - {'builder.Builder.finalize'})}: the cleanup guards are bypassed", f"callers {sorted(callers)}")
    src = ast.unparse(fi.node)
    ctx.check("self.returncode = await report_unbuilt(" in src, fi.fq, "guard tests the return code of this phase's report", "returncode provenance changed", "report_unbuilt")


def rule_clean_tool(ctx):
    """R-C06-5."""
    FS = ctx.prog.enum("FileState")
    ct = ctx.prog.func("clean.clean_tool")
    names = [callee_name(c) for c in calls_in(ct.node)]
    ctx.check("connect_graph_db" in names, ct.fq, "opens the graph database through connect_graph_db", "clean tool opens the database differently", "connect_graph_db")
    cg = None
    for m in ctx.prog.mods.values():
        if "connect_graph_db" in m.funcs:
            cg = m.funcs["connect_graph_db"]
    if cg is None:
        raise AnalysisError("connect_graph_db not found")
    ro = any(callee_name(c) == "connect" and kwarg(c, "read_only") is not None and ast.unparse(kwarg(c, "read_only")) == "True" for c in calls_in(cg.node))
    ctx.check(ro, cg.fq, "read-only connection", "the clean tool can modify the workflow database", "read_only=True", where=ctx.where_of(cg))
    q = ctx.prog.fold("clean", "SELECT_OUTPUTS")
    m = re.search(r"WHERE\s+(file\.state\s+in\s*\([^)]*\))", re.sub(r"\s+", " ", q), re.I)
    if not m:
        raise AnalysisError("state filter of SELECT_OUTPUTS not found")
    tt = ctx.cat.truth_table(m.group(1), {"file.state": [s.value for s in FS]})
    sel = {FS(s).name for (s,), v in tt.items() if v}
    ctx.check(sel == {"BUILT", "OUTDATED", "VOLATILE"}, "clean.SELECT_OUTPUTS", "selects only BUILT/OUTDATED/VOLATILE", f"selects {sorted(sel)}: static or never-built paths become deletable", "ok")
    sc = ctx.prog.func("clean.search_consuming_paths")
    src = re.sub(r"\s+", " ", ast.unparse(sc.node))
    ctx.check("if detached_only: select_outputs += ' AND detached'" in src, sc.fq, "without --all only detached outputs", "detached-only default filter changed", "AND detached")
    c = ctx.prog.func("clean.clean")
    ctx.check("search_consuming_paths(con, tr_matching_paths, not args.all)" in ast.unparse(c.node), c.fq, "detached_only = not --all", "flag wiring changed", "not args.all")


def rule_held_nodes(ctx):
    """R-C06-6."""
    fi = ctx.prog.func("trellis.Trellis.delete_detached")
    q = None
    for n in ast.walk(fi.node):
        if isinstance(n, ast.Assign) and ast.unparse(n.targets[0]) == "query":
            q = Evaluator(ctx.prog, fi.module, {}).ev(n.value)
    if not isinstance(q, str):
        raise AnalysisError("candidate query of delete_detached not found")
    flat = re.sub(r"\s+", " ", q)
    m = re.search(r"WHERE (.*)$", flat)
    pred = m.group(1)
    pred = pred.replace("NOT EXISTS (SELECT 1 FROM node AS cnode WHERE node.i = cnode.creator)", "NOT has_product").replace("NOT EXISTS (SELECT 1 FROM dependency WHERE node.i = dependency.source)", "NOT has_sink")
    try:
        tt = ctx.cat.truth_table(pred, {"detached": [0, 1], "has_product": [0, 1], "has_sink": [0, 1]})
        ok = all(bool(v) == (d and not p and not s) for (d, p, s), v in tt.items())
        why = f"{tt}"
    except AnalysisError as exc:
        ok, why = False, str(exc)
    ctx.check(ok, fi.fq, "deletes only detached nodes without products and without sinks", f"candidate query changed: {why[:200]}", "detached ∧ no product ∧ no sink")
    ctx.check(ctx.cat.compiles(q) is None, fi.fq, "candidate query compiles", "does not compile", "compiles")
    wd = ctx.prog.func("workflow.Workflow.delete_detached")
    src = re.sub(r"\s+", " ", ast.unparse(wd.node))
    ctx.check("if not any(file.sinks()): file.detach()" in src, wd.fq, "static-tree files are detached only when unused", "static-tree files are detached although a step still uses them", "guarded by not any(file.sinks())")
    ctx.check("for st in self.nodes(StaticTree)" in src, wd.fq, "only files owned by a static tree are pruned here", "pruning scope changed", "StaticTree products")


def rule_roles_and_ownership(ctx):
    """R-C06-7: a path cannot keep the content-blind VOLATILE treatment, or stay deletable, after its declaration
    changed its role or its owner."""
    shared.check_can_recycle_compares_roles(ctx, "a step whose {p} changed is recycled as it was: a path that moved between the volatile and the regular outputs keeps its old state, so a user-modified regular output is still removed like a volatile one (or the reverse)")
    shared.check_tree_adopts_all_detached(ctx, "a former (volatile) output under a directory that is now declared as a static tree stays a detached deletable row: the next cleanup removes a file inside a static tree")


RULES = [
    Rule("R-C06-8", "the modification test that protects user content compares the full stat signature before trusting the recorded digest", C13.rule_stat_shortcut, min_instances=4),
    Rule("R-C06-1", "who may delete from the file system", rule_who_may_delete, min_instances=6),
    Rule("R-C06-2", "what may be queued for deletion", rule_what_is_queued, min_instances=40),
    Rule("R-C06-3", "re-hash before unlink", rule_rehash_before_unlink, min_instances=8),
    Rule("R-C06-4", "cleanup guards in Builder.finalize", rule_finalize_guards, min_instances=5),
    Rule("R-C06-5", "clean tool filters", rule_clean_tool, min_instances=5),
    Rule("R-C06-7", "role and ownership changes leave no deletable row behind", rule_roles_and_ownership, min_instances=5),
    Rule("R-C06-6", "held nodes are kept", rule_held_nodes, min_instances=4),
]

MUTANTS = [
    Mutant("recycle-merges-out-and-vol", "step.py", in_function("Step.can_recycle", lambda s: s.replace("        old_out_paths = sorted(r.path for r in self.out_paths(dynamic=False) if r.path in own_paths)\n        if old_out_paths != sorted(out_paths):\n            return False\n        old_vol_paths = sorted(r.path for r in self.vol_paths(dynamic=False) if r.path in own_paths)\n        return old_vol_paths == sorted(vol_paths)\n", "        old_paths = sorted(r.path for r in self.out_paths(dynamic=False) if r.path in own_paths) + sorted(r.path for r in self.vol_paths(dynamic=False) if r.path in own_paths)\n        return sorted(old_paths) == sorted([*out_paths, *vol_paths])\n") if "old_vol_paths == sorted(vol_paths)" in s else None), ("R-C06-7",)),
    Mutant("rmtree-prune", "finalize.py", in_function("_prune_empty_dirs", replace_once("_try_remove(path.rmdir)", "_try_remove(path.rmtree_p)")), ("R-C06-1", "R-C06-3")),
    Mutant("delete-in-workflow", "workflow.py", in_function("Workflow.mark_dir_to_be_deleted", replace_once("            self.to_be_deleted[path + os.sep] = None\n", "            self.to_be_deleted[path + os.sep] = None\n            Path(path).rmdir_p()\n")), ("R-C06-1",)),
    Mutant("queue-confirmed", "file.py", in_function("File.before_delete", replace_once("elif state in (FileState.BUILT, FileState.OUTDATED):", "elif state in (FileState.BUILT, FileState.OUTDATED, FileState.CONFIRMED):")), ("R-C06-2",)),
    Mutant("queue-not-static", "file.py", in_function("File.before_delete", replace_once("elif state in (FileState.BUILT, FileState.OUTDATED):", "elif state not in (FileState.CONFIRMED, FileState.MISSING, FileState.UNCONFIRMED):")), ("R-C06-2",)),
    Mutant("queue-built-without-hash", "file.py", in_function("File.before_delete", replace_once("            if not file_hash.is_unknown:\n                self.graph.to_be_deleted[self.path] = file_hash\n", "            self.graph.to_be_deleted[self.path] = None if file_hash.is_unknown else file_hash\n")), ("R-C06-2",)),
    Mutant("no-rehash", "finalize.py", in_function("remove_deletable_files", replace_once("                if old_hash.refreshed(path) != old_hash:\n                    continue\n", "                old_hash.refreshed(path)\n")), ("R-C06-3",)),
    Mutant("hasherror-falls-through", "finalize.py", in_function("remove_deletable_files", lambda s: s.replace('                await reporter("WARNING", f"Not removing {path}: it cannot be hashed.")\n                continue\n', '                await reporter("WARNING", f"Not removing {path}: it cannot be hashed.")\n', 1) if "it cannot be hashed" in s else None), ("R-C06-3",)),
    Mutant("clean-ignores-changed", "clean.py", in_function("clean", replace_once("            if args.safe and changed:", "            if args.safe and changed and detached:")), ("R-C06-3",)),
    Mutant("finalize-drained-cleans", "builder.py", in_function("Builder.finalize", replace_once("elif self.returncode & ~ReturnCode.WARNING:", "elif self.returncode & (ReturnCode.FAILED | ReturnCode.PENDING):")), ("R-C06-4",)),
    Mutant("finalize-targets-clean", "builder.py", in_function("Builder.finalize", replace_once("if len(self.workflow.targets) > 0 or len(self.workflow.target_dirs) > 0:", "if len(self.workflow.targets) > 0:")), ("R-C06-4",)),
    Mutant("finalize-noclean-ignored", "builder.py", in_function("Builder.finalize", replace_once("        elif not self.do_remove_outdated:", "        elif False:")), ("R-C06-4",)),
    Mutant("clean-selects-confirmed", "clean.py", replace_once("({FileState.BUILT.value}, {FileState.OUTDATED.value}, {FileState.VOLATILE.value})", "({FileState.BUILT.value}, {FileState.OUTDATED.value}, {FileState.VOLATILE.value}, {FileState.CONFIRMED.value})"), ("R-C06-5",)),
    Mutant("clean-read-write", "tool.py", in_function("connect_graph_db", replace_once("return connect(get_graph_db_path(), read_only=True)", "return connect(get_graph_db_path())")), ("R-C06-5",)),
    Mutant("delete-held", "trellis.py", in_function("Trellis.delete_detached", replace_once('                "NOT EXISTS (SELECT 1 FROM node AS cnode WHERE node.i = cnode.creator) AND "\n                "NOT EXISTS (SELECT 1 FROM dependency WHERE node.i = dependency.source)"', '                "NOT EXISTS (SELECT 1 FROM node AS cnode WHERE node.i = cnode.creator)"')), ("R-C06-6",)),
    Mutant("prune-used-tree-files", "workflow.py", in_function("Workflow.delete_detached", replace_once("                if not any(file.sinks()):\n                    file.detach()\n", "                file.detach()\n")), ("R-C06-6",)),
    Mutant("optional-queues-planned", "finalize.py", replace_once("IN ({FileState.VOLATILE.value}, {FileState.BUILT.value}, {FileState.OUTDATED.value})\n\"\"\"", "IN ({FileState.VOLATILE.value}, {FileState.BUILT.value}, {FileState.OUTDATED.value}, {FileState.CONFIRMED.value})\n\"\"\""), ("R-C06-2",)),
]

VARIANTS = [
    Variant("finalize-guard-equivalent", "builder.py", in_function("Builder.finalize", replace_once("elif self.returncode & ~ReturnCode.WARNING:", "elif (self.returncode & ~ReturnCode.WARNING) != ReturnCode(0):"))),
    Variant("before-delete-reordered", "file.py", in_function("File.before_delete", replace_once("elif state in (FileState.BUILT, FileState.OUTDATED):", "elif state in (FileState.OUTDATED, FileState.BUILT):"))),
]
