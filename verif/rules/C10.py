"""C10 — dispatch is exact; cached scheduling attributes agree with their definitions.

Core rule R-C10-1: for every cached column the definition statement's *read set* is computed by the
SQL compiler; every write event on a read-set column anywhere in the program must be covered by a
flag-setting trigger on exactly that event, by an explicit flag update in the writing function, by
dirty seeding of a fresh row, or by a reasoned exception.
"""
from __future__ import annotations

import ast
import re

from ..engine import flow
from ..engine.mutate import Mutant, Variant, in_function, replace_once, sub_once
from ..engine.runner import Rule
from ..engine.source import AnalysisError
from ..engine.sqlfront import split_conjuncts, tokenize
from . import shared
from . import C11
from .common import callee_name, calls_in

EXPLANATION = (
    "Static analysis of the scheduling metadata. The definition statements of the cached columns (_ready, _safe/"
    "_safe_ignoring_hold, _implied_need/_tail_time, _has_hash) are compiled by SQLite against the folded schema; the "
    "authorizer yields their exact read sets. Every write event (statement at a call site, trigger body, FK cascade) "
    "on a read-set column in the whole package is then required to be covered by a flag-setting trigger on that "
    "event, an explicit flag update in the writing function (or its direct callees), dirty seeding of a fresh row, "
    "or a frozen, reasoned exception. Further rules: flags are consumed before every dispatch decision in one "
    "transaction; the eligibility predicate's truth table equals the property's list; the _safe seed consults "
    "state and _holding; wake-ups after every eligibility-changing handler; job_loop returns only after an empty "
    "poll; defer cap. Decides that caches are recomputed when their inputs change, not that the recursive SQL "
    "computes the intended fixed points. "
    "Also: every conditional flag trigger's WHEN clause is folded over the value domains of its OLD/NEW columns and must hold for every change of its OF columns; the dependency delete trigger flags the producers of the lost edge's source file; the definition of 'needed' (shared with C11) and the BUILT->notify pairing are claimed here as well."
    ' R-C10-9 job handlers and mark_completed leave CHECKING/RUNNING on every exit, and a step put back to PENDING without having run loses its hash or is parked exactly while a dynamic input is unavailable; R-C10-10 both recomputation pipelines run all stages and clear the flag last; R-C10-11 a phase is the job loop then the finalisation, finished tasks report back.'
)
ASSUMPTIONS = [
    "SQLite's authorizer reports every column a prepared statement (and the triggers it fires) can read or write",
    "the asyncio event loop is single threaded: code between two awaits is atomic",
]

SCRATCH = {"check_after", "changed_after", "safe_update", "target_path", "target_dir", "available_resource", "step_need_count",
           "path_list", "node_list"}

DEFINITIONS = {
    # name: (module, constant, flag column, defined columns)
    "_ready": ("scheduler", "RECOMPUTE_READY", "_check_ready", ("_ready",)),
    "_safe": ("scheduler", "FILL_SAFE_UPDATE", "_check_safe", ("_safe", "_safe_ignoring_hold")),
    "_after": ("scheduler", "UPDATE_CHECK_AFTER", "_check_after", ("_implied_need", "_tail_time")),
}

# (definition, function, op, table, column) -> reason.  Confirmed by reading (DESIGN.md appendix A.5).
EXCEPTIONS = {
    ("_ready", "trellis.Trellis.delete_detached", "DELETE", "node", None): "only leaf rows are deleted (no products, no sinks: candidate query + FK without action), so no step consumes the deleted node",
    ("_ready", "trellis.Trellis.delete_detached", "DELETE", "file", None): "FK cascade of a deleted leaf node",
    ("_ready", "trellis.Trellis.delete_detached", "DELETE", "step", None): "FK cascade: the step row itself disappears",
    ("_ready", "trellis.Trellis.create", "INSERT", "node", None): "a fresh node has no dependency edges; initialize_row seeds the satellite row",
    ("_safe", "trellis.Trellis.delete_detached", "DELETE", "node", None): "only leaf rows are deleted: a deleted node has no products whose _safe could depend on it",
    ("_safe", "trellis.Trellis.delete_detached", "DELETE", "step", None): "FK cascade: the step row itself disappears",
    ("_safe", "trellis.Trellis.create", "INSERT", "node", None): "fresh node; Step.initialize_row seeds _check_safe = not _safe",
    ("_safe", "trellis.Node.detach", "UPDATE", "node", "creator"): "Step.detach overrides and flags the subtree (checked by R-C10-1s); file/tree rows have no step products",
    ("_safe", "trellis.Node.reattach", "UPDATE", "node", "creator"): "Step.reattach overrides and flags the subtree (checked by R-C10-1s)",
    ("_safe", "trellis.Trellis.create", "UPDATE", "node", "creator"): "recycle branch: the row is re-initialised by initialize_row right after (Step: DELETE + INSERT with _check_safe seeded); its products were detached",
    ("_safe", "workflow.Workflow.register_static_tree", "UPDATE", "node", "creator"): "hand-over of file rows to the tree: only file rows, which no _safe definition reads",
    ("_safe", "step.Step.after_recycle", "UPDATE", "step", "_holding"): "called only from try_recycle right after reattach, which flags _check_safe for the subtree in the same transaction (checked by R-C10-1s)",
    ("_safe", "scheduler.Scheduler._update_meta_safe", "UPDATE", "step", "_safe"): "the definition's own output: the same statement recomputes all recursive products of a flagged step",
    ("_safe", "scheduler.Scheduler._update_meta_safe", "UPDATE", "step", "_safe_ignoring_hold"): "the definition's own output",
    ("_after", "trellis.Trellis.delete_detached", "DELETE", "node", None): "only leaf rows are deleted; a leaf has no sinks, and its sources are flagged by the dependency delete trigger (del_all_sources precedes the delete)",
    ("_after", "trellis.Trellis.delete_detached", "DELETE", "file", None): "FK cascade of a deleted leaf node",
    ("_after", "trellis.Trellis.delete_detached", "DELETE", "step", None): "FK cascade: the step row itself disappears",
    ("_after", "trellis.Trellis.create", "INSERT", "node", None): "fresh node; Step.initialize_row seeds _check_after = 1",
    ("_after", "file.File.initialize_row", "INSERT", "file", None): "a new file row reaches the need definition only through a dependency edge, whose insert trigger flags both endpoints",
    ("_after", "file.File.initialize_row", "UPDATE", "file", "state"): "VOLATILE is only written to a row whose edge is inserted right after (_declare_file + add_source); other states do not cross the VOLATILE boundary (R-C10-1v)",
    ("_after", "file.File.set_state", "UPDATE", "file", "state"): "set_state is only called with BUILT/OUTDATED (R-C10-1v): the definition only tests state != VOLATILE",
    ("_after", "workflow.Workflow.update_file_hashes", "UPDATE", "file", "state"): "_HASH_TRANSITIONS has no VOLATILE key or value (R-C10-1v)",
    ("_after", "finalize.revert_optional_steps", "UPDATE", "file", "state"): "UPDATE_OPTIONAL_TO_BE_DELETED excludes VOLATILE rows and writes PLANNED (R-C10-1v)",
    ("_after", "trellis.Node.detach", "UPDATE", "node", "detached"): "Step.detach flags the subtree and its source steps; an output's detached flip coincides with its producer subtree being flagged",
    ("_after", "trellis.Node.reattach", "UPDATE", "node", "detached"): "Step.reattach flags the subtree (R-C10-1s)",
    ("_after", "trellis.Trellis.create", "UPDATE", "node", "detached"): "recycle branch: sources are cut (dependency delete trigger flags them) and the row is re-initialised",
    ("_after", "scheduler.Scheduler._update_meta_after", "UPDATE", "step", "_implied_need"): "the definition's own output; PROPAGATE_CHECK_AFTER re-seeds the sources of changed rows",
    ("_after", "scheduler.Scheduler._update_meta_after", "UPDATE", "step", "_tail_time"): "the definition's own output",
    ("_after", "step.Step.after_recycle", "UPDATE", "step", "need"): "called only from try_recycle right after reattach, which flags _check_after for the subtree (R-C10-1s)",
}


def _direct_reads(cat, sql):
    # the authorizer attributes reads inside a CTE or sub-select to the CTE name; only reads made
    # by fired triggers are excluded here
    return {(e[1], e[2]) for e in cat.effects(sql) if e[0] == "READ" and (e[3] is None or e[3] not in cat.triggers)}


def _flag_in_callees(ctx, fq, flag, depth=2):
    """Does the function, or a function it calls directly (depth<=2, resolved), set the flag?"""
    seen = set()
    frontier = {fq}
    for _ in range(depth + 1):
        nxt = set()
        for f in frontier:
            if f in seen:
                continue
            seen.add(f)
            for s in ctx.sql.stmts_in(f):
                if ("UPDATE", "step", flag, None) in s.writes and not re.match(r"\s*UPDATE\s+step\s+SET\s+" + flag + r"\s*=\s*0", s.text, re.I):
                    return True
            nxt |= ctx.cg.callees(f, include_by_name=False)
        frontier = nxt - seen
    return False


def _column_domain(ctx, table, col):
    """Finite value domain of a column for folding trigger conditions."""
    if col == "state":
        en = ctx.prog.enum({"file": "FileState", "step": "StepState"}[table])
        return [m.value for m in en]
    if col in ("detached", "deferred", "orphan"):
        return [0, 1]
    return [0, 1, 2]


def rule_flag_coverage(ctx):
    """R-C10-1."""
    model, cat = ctx.sql, ctx.cat
    if model.failing():
        s = model.failing()[0]
        raise AnalysisError(f"SQL statement does not compile: {s.site.where}: {s.error}")
    if model.unresolved:
        s = model.unresolved[0]
        raise AnalysisError(f"SQL call site does not fold to statements: {s.where}")
    used_exceptions = set()
    for dname, (mod, const, flag, outcols) in DEFINITIONS.items():
        sql = ctx.prog.fold(mod, const)
        if not isinstance(sql, str):
            raise AnalysisError(f"{mod}.{const} does not fold")
        reads = {(t, c) for t, c in _direct_reads(cat, sql) if t not in SCRATCH and c not in (flag, "") and c is not None}
        if not reads:
            raise AnalysisError(f"empty read set for {const}")
        ctx.ok(f"{mod}.{const}", f"read set of {dname}", f"{len(reads)} columns", readset=sorted(f"{t}.{c}" for t, c in reads))
        tabs = {t for t, _ in reads}
        seen = set()
        for st in model.stmts:
            fq = st.site.func.fq.split(".<locals>.")[0]
            for (op, t, c, trig) in sorted(st.writes, key=str):
                if trig is not None and not str(trig).startswith("fk-cascade"):
                    continue  # writes performed by triggers are attributed to the firing statement below
                if t not in tabs:
                    continue
                if op == "UPDATE" and (t, c) not in reads:
                    continue
                key = (dname, fq, op, t, c)
                if key in seen:
                    continue
                seen.add(key)
                where = f"stepup/core/{st.site.func.module.path.name}:{st.site.lineno}"
                construct = f"{op} {t}{'.' + c if c else ''} vs {dname}"
                # (a) trigger on exactly that event sets the flag
                how = None
                for (op2, t2, c2, trig2) in st.writes:
                    if trig2 and op2 == "UPDATE" and t2 == "step" and c2 == flag and trig2 in cat.triggers:
                        tr = cat.triggers[trig2]
                        if tr.table == t and tr.op == op and (not tr.of_cols or c in tr.of_cols):
                            how = f"trigger {trig2}"
                if how is None and t == "step" and op == "INSERT":
                    # (c) fresh step row seeded dirty
                    m = re.search(r"INSERT\s+INTO\s+step\s*\(([^)]*)\)", st.text, re.I)
                    cols = [x.strip() for x in m.group(1).split(",")] if m else []
                    dflt = cat.tables["step"].columns.get(flag, {}).get("dflt")
                    if flag in cols or str(dflt) == "1":
                        how = "fresh row seeded with the flag column"
                if how is None and t == "step" and op == "DELETE" and fq == "step.Step.initialize_row":
                    how = "row is re-inserted with seeded flags in the same function"
                if how is None and _flag_in_callees(ctx, fq, flag):
                    how = "flag set explicitly by the writing function or its direct callees"
                if how is None and key in EXCEPTIONS:
                    how = "exception: " + EXCEPTIONS[key]
                    used_exceptions.add(key)
                ctx.check(how is not None, fq, construct,
                          f"write event on a column read by the definition of {dname} ({const}) without any path that sets {flag}: the cached value goes stale silently",
                          how or "", where=where)
    # a flag trigger with a WHEN clause must fire for every change of its OF columns: the clause is folded over the
    # value domains of the OLD/NEW columns it mentions and must be true wherever an OF column differs
    n_when = 0
    for name, tr in sorted(cat.triggers.items()):
        if tr.op != "UPDATE" or tr.when is None or not re.search(r"UPDATE\s+step\s+SET\s+_check_\w+\s*=\s*1", tr.body, re.I):
            continue
        n_when += 1
        refs = sorted(set(re.findall(r"\b(?:OLD|NEW)\s*\.\s*(\w+)", tr.when)))
        rest = re.sub(r"\b(?:OLD|NEW)\s*\.\s*\w+", "", tr.when)
        if re.search(r"\bSELECT\b|[A-Za-z_]\w*\s*\.\s*\w+", rest, re.I):
            ctx.bad(f"trigger {name}", f"WHEN {tr.when}", "the WHEN clause of a flag trigger consults other rows: coverage of every change of the column cannot be shown", where=f"trigger {name}")
            continue
        dom = {}
        for c in refs:
            vals = _column_domain(ctx, tr.table, c)
            dom[f"OLD.{c}"] = vals
            dom[f"NEW.{c}"] = vals
        tt = cat.truth_table(tr.when, dom)
        names = list(dom)
        missed = []
        for combo, v in tt.items():
            pt = dict(zip(names, combo))
            changed = any(pt.get(f"OLD.{c}") != pt.get(f"NEW.{c}") for c in tr.of_cols if f"OLD.{c}" in pt)
            if not tr.of_cols or not any(f"OLD.{c}" in pt for c in tr.of_cols):
                changed = True
            if changed and v is not True:
                missed.append(pt)
        ctx.check(not missed, f"trigger {name}", f"WHEN {' '.join(tr.when.split())} holds for every change of {tr.table}.{'/'.join(tr.of_cols)}",
                  f"the flag trigger does not fire for {len(missed)} kind(s) of change, e.g. {missed[:2]}: the cached value goes stale silently", f"{len(tt)} points", where=f"trigger {name}")
    if n_when < 2:
        raise AnalysisError(f"only {n_when} conditional flag triggers found (2 confirmed by hand)")
    # the mirror column _has_hash
    for st in model.stmts:
        fq = st.site.func.fq
        touches = [(op, t, c, trig) for (op, t, c, trig) in st.writes if t == "step_hash" and op in ("INSERT", "DELETE")]
        for (op, t, c, trig) in touches:
            mirrored = any(op2 == "UPDATE" and t2 == "step" and c2 == "_has_hash" for (op2, t2, c2, _) in st.writes)
            cascade = str(trig).startswith("fk-cascade")
            ctx.check(mirrored or cascade, fq, f"{op} step_hash vs _has_hash mirror", "step_hash changes without the _has_hash mirror being maintained",
                      "mirror trigger" if mirrored else "cascade of a deleted node: the step row is deleted with it")
    ins = [s for s in model.stmts_in("step.Step.initialize_row") if s.kind == "INSERT"]
    seeded = any(re.search(r"_has_hash", s.text) and re.search(r"EXISTS\s*\(\s*SELECT\s+1\s+FROM\s+step_hash", s.text, re.I) for s in ins)
    ctx.check(seeded, "step.Step.initialize_row", "_has_hash seeded from step_hash on insert", "a recycled step row does not seed _has_hash from the surviving step_hash row", "EXISTS sub-select")
    stale = [k for k in EXCEPTIONS if k not in used_exceptions]
    if stale:
        ctx.notes.append(f"{len(stale)} exception table entries did not match any write event on this tree (harmless): {stale[:3]}")


def rule_step_overrides(ctx):
    """R-C10-1s: Step.detach / Step.reattach / hold / release flag the subtree; try_recycle order."""
    for name, extra in (("detach", True), ("reattach", False)):
        fi = ctx.prog.func(f"step.Step.{name}")
        body_calls = [ast.unparse(c.func) for c in calls_in(fi.node)]
        ok = f"super().{name}" in body_calls and "self._flag_checks_with_products" in body_calls
        if ok:
            ok = body_calls.index(f"super().{name}") < body_calls.index("self._flag_checks_with_products")
        ctx.check(ok, fi.fq, "base method then flag the subtree", f"Step.{name} no longer calls the base method and then _flag_checks_with_products on all paths", "super() then _flag_checks_with_products", where=ctx.where_of(fi))
        if extra:
            has = any("RECURSIVE_CHECK_AFTER_SOURCES" in ast.unparse(c) for c in calls_in(fi.node))
            ctx.check(has, fi.fq, "flag source steps of the detached subtree", "Step.detach no longer executes RECURSIVE_CHECK_AFTER_SOURCES: suppliers of the detached subtree keep a stale _implied_need", "RECURSIVE_CHECK_AFTER_SOURCES", where=ctx.where_of(fi))
    fl = ctx.prog.func("step.Step._flag_checks_with_products")
    w = set()
    for s in ctx.sql.stmts_in(fl.fq):
        w |= {(c) for (op, t, c, trig) in s.writes if op == "UPDATE" and t == "step" and trig is None}
    ctx.check({"_check_safe", "_check_after"} <= w, fl.fq, "sets _check_safe and _check_after", f"_flag_checks_with_products writes {sorted(w)}", "both flags")
    # hold / release: flag on the 0<->1 transition of the RETURNING value
    for name, val in (("hold", 1), ("release", 0)):
        fi = ctx.prog.func(f"step.Step.{name}")
        ok = False
        for n in ast.walk(fi.node):
            if isinstance(n, ast.If) and isinstance(n.test, ast.Compare) and len(n.test.comparators) == 1 and isinstance(n.test.comparators[0], ast.Constant) and n.test.comparators[0].value == val and isinstance(n.test.ops[0], ast.Eq):
                if any(callee_name(c) == "_flag_checks_with_products" for c in calls_in(n)):
                    ok = True
        stm = ctx.sql.stmts_in(fi.fq)
        ret = any(re.search(r"RETURNING\s+_holding", s.text, re.I) for s in stm)
        ctx.check(ok and ret, fi.fq, f"flags the subtree when the counter reaches {val}", f"Step.{name} does not flag _check_safe on the {1 - val}->{val} transition of _holding (RETURNING value)", "flag on transition", where=ctx.where_of(fi))
    # try_recycle: reattach precedes after_recycle
    tr = ctx.prog.func("trellis.Trellis.try_recycle")
    names = [callee_name(c) for c in calls_in(tr.node)]
    ok = "reattach" in names and "after_recycle" in names and names.index("reattach") < names.index("after_recycle")
    ctx.check(ok, tr.fq, "reattach precedes after_recycle", "after_recycle writes need/_holding before the subtree is flagged by reattach", "order kept", where=ctx.where_of(tr))
    callers = sorted(ctx.cg.callers_of("step.Step.after_recycle"))
    ctx.check(set(callers) <= {"trellis.Trellis.try_recycle"}, "step.Step.after_recycle", "only called from try_recycle", f"after_recycle has other callers {callers}: its unflagged writes of need/_holding rely on reattach", f"callers: {callers}")


def rule_volatile_boundary(ctx):
    """R-C10-1v: no writer of file.state crosses the VOLATILE boundary on an existing edge."""
    FileState = ctx.prog.enum("FileState")
    # 1. set_state(X) call sites on files
    n = 0
    for fi in ctx.prog.all_functions():
        for cs in ctx.cg.sites.get(fi.fq, []):
            if any(t.fq == "file.File.set_state" for t in cs.targets):
                if cs.by_name and not any(t.fq == "file.File.set_state" for t in cs.targets):
                    continue
                arg = cs.node.args[0] if cs.node.args else None
                src = ast.unparse(arg) if arg is not None else ""
                if cs.by_name and src.startswith("StepState"):
                    continue
                if not src.startswith("FileState."):
                    if cs.by_name:
                        continue
                n += 1
                ok = src in ("FileState.BUILT", "FileState.OUTDATED")
                ctx.check(ok, fi.fq, f"file.set_state({src})", "File.set_state called with a state other than BUILT/OUTDATED: crossing the VOLATILE boundary would not flag _check_after", "BUILT/OUTDATED only", where=ctx.where_of(fi, cs.node))
    # 2. hash transitions never involve VOLATILE
    ht = ctx.prog.fold("workflow", "_HASH_TRANSITIONS")
    bad = [k for k, v in ht.items() if k[1] == FileState.VOLATILE or v[0] == FileState.VOLATILE]
    ctx.check(not bad, "workflow._HASH_TRANSITIONS", "no VOLATILE key or value", f"transition rows involve VOLATILE: {bad}", f"{len(ht)} rows")
    # 3. revert_optional_steps
    upd = ctx.prog.fold("finalize", "UPDATE_OPTIONAL_TO_BE_DELETED")
    ok = isinstance(upd, str) and re.search(rf"state\s*=\s*{FileState.PLANNED.value}\b", upd) and re.search(rf"state\s*!=\s*{FileState.VOLATILE.value}\b|state\s+NOT\s+IN\s*\([^)]*\b{FileState.VOLATILE.value}\b", upd)
    ctx.check(bool(ok), "finalize.UPDATE_OPTIONAL_TO_BE_DELETED", "writes PLANNED to non-VOLATILE rows only", "the optional revert statement can change a VOLATILE row or write another state", "PLANNED, VOLATILE excluded")


def rule_consume_flags(ctx):
    """R-C10-2: flags are consumed before every dispatch decision, in the same transaction."""
    fi = ctx.prog.func("scheduler.Scheduler.pop_next_job")
    paths = flow.paths_of(fi)
    need = ["_update_meta_safe", "_update_meta_after", "_update_meta_ready"]
    n = 0
    for tr, st in paths:
        idx = flow.calls(tr, flow.call_named("_get_next_step"))
        for i in idx:
            n += 1
            reg = flow.region_of(tr, i, lambda s: s.split(".")[-1] == "db")
            before = [e[1].split(".")[-1] for e in tr[(reg[0] if reg else 0):i] if e[0] == "call"]
            missing = [x for x in need if x not in before]
            order_ok = not missing and [x for x in before if x in need][:3] == need
            aw = flow.awaits_between(tr, reg[0] + 1, i) if reg else []
            aw = [a for a in aw if not str(a[1]).startswith("<aenter")]
            ctx.check(reg is not None and order_ok and not aw, fi.fq, "metadata updates precede _get_next_step in one region",
                      f"dispatch decision without fresh metadata: region={reg is not None}, missing={missing}, awaits between={len(aw)}", "safe, after, ready then select; no await", where=ctx.where_of(fi))
            # set_state on the selected step in the same region, no await in between
            if not [k for k in flow.calls(tr, flow.call_named("_derive_job")) if k > i]:
                continue  # nothing was selected on this path
            j = [k for k in flow.calls(tr, flow.call_named("set_state")) if k > i]
            ok2 = bool(j) and reg is not None and j[0] < reg[1] and not flow.awaits_between(tr, i, j[0])
            ctx.check(ok2, fi.fq, "selected step leaves PENDING in the same region", "the selected step is not moved out of PENDING atomically with its selection", "set_state in region, no await", where=ctx.where_of(fi))
    if n == 0:
        raise AnalysisError("pop_next_job no longer calls _get_next_step")
    # each helper recomputes before clearing its flag
    for name, recompute in (("_update_meta_safe", ("FILL_SAFE_UPDATE", "APPLY_SAFE_UPDATE")), ("_update_meta_after", ("UPDATE_CHECK_AFTER",))):
        h = ctx.prog.func(f"scheduler.Scheduler.{name}")
        seq = []
        for c in calls_in(h.node):
            if callee_name(c) == "execute" and c.args:
                seq.append(ast.unparse(c.args[0]))
            elif callee_name(c) == "_clear_flag":
                seq.append("CLEAR")
        ok = "CLEAR" in seq and all(r in seq and seq.index(r) < seq.index("CLEAR") for r in recompute)
        ctx.check(ok, h.fq, "recompute before clearing the flag", f"statement order {seq}", "recompute then clear", where=ctx.where_of(h))
    h = ctx.prog.func("scheduler.Scheduler._update_meta_after")
    first_ok = any(isinstance(n, ast.Assign) and ast.unparse(n.targets[0]) == "first" and ast.unparse(n.value) == "True" for n in ast.walk(h.node)) and \
        any(isinstance(k, ast.Dict) and any(isinstance(kk, ast.Constant) and kk.value == "first" for kk in k.keys) for k in ast.walk(h.node))
    ctx.check(first_ok, h.fq, "first iteration propagates unconditionally", "the :first parameter is no longer bound from a flag that starts True", ":first starts True")
    rr = ctx.prog.fold("scheduler", "RECOMPUTE_READY")
    ctx.check(bool(re.search(r"_check_ready\s*=\s*0", rr)) and bool(re.search(r"WHERE\s+_check_ready\s*$", rr.strip(), re.I)), "scheduler.RECOMPUTE_READY", "recompute and clear on the flagged rows only", "RECOMPUTE_READY no longer clears exactly the rows it recomputes", "single UPDATE on flagged rows")


def rule_eligibility(ctx):
    """R-C10-3: truth table of the dispatch predicate."""
    StepState, Need = ctx.prog.enum("StepState"), ctx.prog.enum("Need")
    where = ctx.prog.fold("step", "STEP_DISPATCH_WHERE")
    dom = {
        "step.state": [s.value for s in StepState],
        "step._safe": [0, 1], "step._has_hash": [0, 1], "step._safe_ignoring_hold": [0, 1],
        "step.deferred": [0, 1], "step._implied_need": [n.value for n in Need], "step._ready": [0, 1],
    }
    tt = ctx.cat.truth_table(where, dom)
    names = list(dom)
    wrong = []
    for combo, val in tt.items():
        p = dict(zip(names, combo))
        expect = (p["step.state"] == StepState.PENDING.value and (p["step._safe"] or (p["step._has_hash"] and p["step._safe_ignoring_hold"]))
                  and not p["step.deferred"] and p["step._implied_need"] > Need.OPTIONAL.value and p["step._ready"])
        if bool(val) != bool(expect):
            wrong.append(p)
    ctx.check(not wrong, "step.STEP_DISPATCH_WHERE", "truth table = pending ∧ (safe ∨ checkable-ignoring-hold) ∧ ¬deferred ∧ needed ∧ ready",
              f"{len(wrong)} of {len(tt)} points differ, e.g. {wrong[:2]}", f"{len(tt)} points", points=len(tt))
    sel = ctx.prog.fold("scheduler", "SELECT_NEXT_STEP")
    err = ctx.cat.compiles(sel)
    ctx.check(err is None, "scheduler.SELECT_NEXT_STEP", "compiles with INDEXED BY step_dispatch", f"the dispatch query does not compile against the schema (its WHERE must imply the partial index's WHERE): {err}", "compiles")
    ctx.check("INDEXED BY step_dispatch" in re.sub(r"\s+", " ", sel), "scheduler.SELECT_NEXT_STEP", "pins the partial dispatch index", "SELECT_NEXT_STEP no longer pins step_dispatch: drift between query and index predicate is no longer a compile error", "INDEXED BY")
    idx = ctx.cat.indexes.get("step_dispatch")
    if idx is None or not idx.where:
        raise AnalysisError("partial index step_dispatch not found")
    tt_idx = ctx.cat.truth_table(idx.where, dom)
    ctx.check(tt_idx == tt, "step.STEP_SCHEMA", "step_dispatch index predicate = STEP_DISPATCH_WHERE", "the partial index predicate differs from STEP_DISPATCH_WHERE", "same truth table")
    # extra conjuncts of SELECT_NEXT_STEP
    conj = [re.sub(r"\s+", " ", c) for c in split_conjuncts(re.search(r"WHERE(.*)ORDER BY", sel, re.S | re.I).group(1))]
    has_thr = any(re.fullmatch(r"step \. _implied_need > \?", c) for c in conj)
    has_att = any(re.fullmatch(r"NOT node \. detached", c) for c in conj)
    res = [c for c in conj if "step_resource" in c]
    ok_res = len(res) == 1 and re.match(r"step \. _has_hash OR NOT EXISTS \(", res[0]) is not None
    ctx.check(has_thr, "scheduler.SELECT_NEXT_STEP", "needed: _implied_need > threshold parameter", "need threshold conjunct missing", "bound parameter")
    ctx.check(has_att, "scheduler.SELECT_NEXT_STEP", "active: NOT node.detached", "detached steps can be dispatched", "NOT node.detached")
    ctx.check(ok_res, "scheduler.SELECT_NEXT_STEP", "resources free unless checkable", f"resource conjunct is {res}", "_has_hash OR NOT EXISTS(unavailable resource)")
    g = ctx.prog.func("scheduler.Scheduler._get_next_step")
    bound = any(callee_name(c) == "execute" and len(c.args) > 1 and "need_threshold" in ast.unparse(c.args[1]) for c in calls_in(g.node))
    ctx.check(bound, g.fq, "threshold bound to workflow.need_threshold", "the dispatch threshold is not workflow.need_threshold", "need_threshold.value")
    # pend_step universe and unsafe column
    ps = ctx.prog.fold("pending", "_INSERT_PEND_STEP")
    m = re.search(r"NOT\s*\((step\._safe OR \(step\._has_hash AND step\._safe_ignoring_hold\))\)", re.sub(r"\s+", " ", ps))
    ctx.check(m is not None, "pending._INSERT_PEND_STEP", "unsafe = NOT (safety disjunct of the dispatch predicate)", "the report's unsafe column is no longer the negation of the dispatch safety test", "exact negation")
    uni = all(x in re.sub(r"\s+", " ", ps) for x in (f"step.state = {StepState.PENDING.value}", "step._implied_need > ?", "NOT node.detached"))
    ctx.check(uni, "pending._INSERT_PEND_STEP", "universe = pending ∧ needed ∧ attached", "the pending report ranges over a different set of steps than dispatch", "same universe")


def rule_safe_seed(ctx):
    """R-C10-4: the _safe definition consults creator state and holds."""
    StepState = ctx.prog.enum("StepState")
    sql = ctx.prog.fold("scheduler", "FILL_SAFE_UPDATE")
    reads = _direct_reads(ctx.cat, sql)
    ctx.check({("step", "_holding"), ("step", "state"), ("node", "creator")} <= reads, "scheduler.FILL_SAFE_UPDATE", "reads step._holding, step.state, node.creator",
              f"read set lacks {sorted({('step', '_holding'), ('step', 'state'), ('node', 'creator')} - reads)}", "read set ok")
    # the seed reads the *stored* _safe of the creator, which is only valid when the creator is not being recomputed in
    # the same pass: a flagged step whose creator is flagged too must not be a seed (it is reached by the recursion)
    nc = re.sub(r"\s+", " ", re.sub(r"--[^\n]*", "", sql))
    mseed = re.search(r"LEFT JOIN step AS creator_step ON creator_step\.node = cnode\.creator WHERE (.*?) UNION ALL", nc)
    if not mseed:
        raise AnalysisError("cannot isolate the seed WHERE clause of FILL_SAFE_UPDATE")
    tt = ctx.cat.truth_table(mseed.group(1), {"s._check_safe": [0, 1], "creator_step._check_safe": [None, 0, 1]})
    wrong = [(a, b) for (a, b), v in tt.items() if bool(v) != (a == 1 and b in (None, 0))]
    ctx.check(not wrong, "scheduler.FILL_SAFE_UPDATE", "seeds = flagged steps whose creator is not flagged itself", f"seed predicate differs at (step flag, creator flag) = {wrong}: a step is seeded from the stale stored _safe of a creator that is recomputed in the same pass, MIN keeps the stale 0, the flag is cleared, and a step whose creators are all running or succeeded is never dispatched", "topmost flagged step seeds", where="scheduler.py FILL_SAFE_UPDATE")
    # a node below a flagged step is reached from every flagged ancestor, and the flagged ancestor need not be its
    # direct creator: of its rows the one derived from the topmost flagged ancestor (largest depth) is the only one
    # that does not start from a stored value that the same statement is recomputing; MIN would keep a stale 0
    final = nc[nc.rindex(")") + 1:] if False else nc.split(") SELECT", 1)[-1] if ") SELECT" in nc else ""
    tail = nc[nc.rfind("SELECT i ,") if "SELECT i ," in nc else nc.rfind("SELECT i,"):]
    has_depth = re.search(r"trace\s*\([^)]*\bdepth\b[^)]*\)", nc) is not None and re.search(r"trace\s*\.\s*depth \+ 1", nc) is not None
    picks_deepest = re.search(r"MAX\s*\(\s*depth\s*\)", tail) is not None and "GROUP BY i" in tail and not re.search(r"MIN\s*\(\s*safe", tail)
    ctx.check(has_depth and picks_deepest, "scheduler.FILL_SAFE_UPDATE", "of several rows for one node the one from the topmost flagged ancestor (largest depth) is written",
              "duplicate rows are merged with MIN (or without regard to depth): a flagged step below an unflagged step below a flagged step is seeded from the stale stored _safe of its creator, the stale 0 wins, all flags are cleared, and a step whose creators are all running or succeeded stays undispatched for ever", "depth carried through the recursion; MAX(depth) per node", where="scheduler.py FILL_SAFE_UPDATE")
    # seed expressions: COALESCE(creator_step._safe AND state IN (...) AND _holding = 0, 1)
    flat = re.sub(r"\s+", " ", sql)
    seeds = re.findall(r"COALESCE\( (creator_step\._safe(?:_ignoring_hold)? AND .*?), 1 \)", flat)
    if len(seeds) < 4:
        raise AnalysisError("cannot locate the four seed expressions of FILL_SAFE_UPDATE")
    dom = {"creator_step._safe": [0, 1], "creator_step._safe_ignoring_hold": [0, 1], "creator_step.state": [s.value for s in StepState], "creator_step._holding": [0, 1, 2]}
    names = list(dom)
    okstates = {StepState.RUNNING.value, StepState.SUCCEEDED.value}
    for k, expr in enumerate(seeds):
        nh = "_safe_ignoring_hold" in expr.split(" AND ")[0]
        tt = ctx.cat.truth_table(expr, dom)
        wrong = []
        for combo, val in tt.items():
            p = dict(zip(names, combo))
            if nh:
                exp = p["creator_step._safe_ignoring_hold"] and p["creator_step.state"] in okstates
            else:
                exp = p["creator_step._safe"] and p["creator_step.state"] in okstates and p["creator_step._holding"] == 0
            if bool(val) != bool(exp):
                wrong.append(p)
        ctx.check(not wrong, "scheduler.FILL_SAFE_UPDATE", f"seed #{k + 1} ({'ignoring hold' if nh else 'respecting hold'})",
                  f"seed expression differs from 'creator safe ∧ creator RUNNING/SUCCEEDED{'' if nh else ' ∧ not holding'}' at {wrong[:2]}", f"{len(tt)} points")
    trg = ctx.cat.triggers.get("step_reset_holding")
    ok = trg is not None and trg.table == "step" and trg.op == "UPDATE" and "state" in trg.of_cols
    if ok:
        tt = ctx.cat.truth_table(trg.when, {"NEW.state": [s.value for s in StepState], "NEW._holding": [0, 1, 3]})
        ok = all(bool(v) == (st != StepState.RUNNING.value and h != 0) for (st, h), v in tt.items())
    ctx.check(ok, "step.STEP_SCHEMA", "trigger step_reset_holding fires for every state change away from RUNNING with a non-zero counter", "holds survive a step leaving RUNNING", "WHEN truth table ok")


WAKE_TABLE = {
    # handler -> why no wake-up is needed after its transaction
    "hold_dispatch": "holding only restricts eligibility",
    "amend_step": "the caller is a running job; its completion wakes the loop",
    "declare_static": "submits hash jobs (HashQueue.submit wakes the loop); the caller is a running job",
    "register_glob": "no eligibility column is written; the caller is a running job",
    "record_subprocess": "writes step_subprocess only",
    "start_build_phase": "sets builder.resume, which starts a new job_loop",
}


def rule_wakeups(ctx):
    """R-C10-5."""
    shared.check_reattach_wakes_deferred(ctx, "a step that is pending, attached, needed, safe and ready stays parked as deferred after its input was reattached: the build phase ends with an eligible step")
    shared.check_built_notifies(ctx, "a parked (deferred) consumer of a revalidated output is never woken: it satisfies every dispatch condition yet the build phase ends with it pending")
    b = ctx.prog.func("builder.Builder._task_done")
    ctx.check(any(ast.unparse(c.func) == "self.wake_job_loop.set" for c in calls_in(b.node)), b.fq, "task completion wakes the job loop", "a finished task no longer wakes job_loop", "wake_job_loop.set()")
    h = ctx.prog.func("builder.Builder.handle_done_tasks")
    ctx.check(any(ast.unparse(c.func) == "self.wake_job_loop.set" for c in calls_in(h.node)), h.fq, "retiring a task wakes the job loop", "handle_done_tasks no longer wakes job_loop", "wake_job_loop.set()")
    q = ctx.prog.func("hash_queue.HashQueue.submit")
    ctx.check(any(ast.unparse(c.func).endswith("wake.set") for c in calls_in(q.node)), q.fq, "a new hash job wakes the job loop", "HashQueue.submit no longer sets the wake event", "wake.set()")
    bq = ctx.prog.func("builder.Builder._default_hash_queue")
    ctx.check("wake=self.wake_job_loop" in ast.unparse(bq.node), bq.fq, "hash queue shares the builder's wake event", "the hash queue is built with a different wake event", "wake=self.wake_job_loop")
    elig_cols = {("step", "state"), ("step", "_holding"), ("step", "deferred"), ("file", "state"), ("node", "detached"), ("node", "creator"), ("dependency", None), ("step", None)}
    cls = ctx.prog.cls("director.DirectorHandler")
    n = 0
    for name, fi in cls.methods.items():
        if "allow_rpc" not in fi.decorators():
            continue
        reach = ctx.cg.reachable(fi.fq, include_by_name=False)
        writes = set()
        for f in reach:
            for s in ctx.sql.stmts_in(f):
                for (op, t, c, trig) in s.writes:
                    if (t, c) in elig_cols or (t, None) in elig_cols and op in ("INSERT", "DELETE"):
                        writes.add((op, t, c))
        if not writes:
            continue
        n += 1
        # wake after the region on all normal paths
        paths = flow.paths_of(fi)
        ok_all = True
        for tr, st in paths:
            if st not in ("fall", "return"):
                continue
            regs = flow.regions(tr, lambda s: s.split(".")[-1] == "db")
            if not regs:
                continue
            last_exit = max(r[1] for r in regs)
            wake = [i for i, e in enumerate(tr) if e[0] == "call" and e[1].endswith("wake_job_loop.set") and i > last_exit]
            if not wake:
                ok_all = False
        if ok_all:
            ctx.ok(fi.fq, "wakes job_loop after its transaction", "wake_job_loop.set() after commit on all normal paths", where=ctx.where_of(fi))
        elif name in WAKE_TABLE:
            ctx.ok(fi.fq, "no wake-up needed", "exception: " + WAKE_TABLE[name], where=ctx.where_of(fi))
        else:
            ctx.bad(fi.fq, "wakes job_loop after its transaction", f"handler writes eligibility columns {sorted(writes, key=str)[:4]} but does not set wake_job_loop after commit: a runnable step stays pending for ever", where=ctx.where_of(fi))
    if n < 4:
        raise AnalysisError(f"only {n} RPC handlers with eligibility writes found")
    jl = ctx.prog.func("builder.Builder.job_loop")
    waits = [ast.unparse(n.value) for n in ast.walk(jl.node) if isinstance(n, ast.Await) and "wait" in ast.unparse(n.value)]
    ctx.check(waits == ["self.wake_job_loop.wait()"], jl.fq, "waits only on wake_job_loop", f"job_loop waits on {waits}", "single wait")


def rule_loop_exit(ctx):
    """R-C10-6: the phase ends only when nothing is eligible; R-C12-1 shares the slot guard."""
    fi = ctx.prog.func("builder.Builder.job_loop")
    paths = flow.paths_of(fi)
    rets = [(tr, st) for tr, st in paths if st == "return"]
    if not rets:
        raise AnalysisError("job_loop has no return path")
    for tr, st in rets:
        # since the beginning of the current iteration
        start = max([i for i, e in enumerate(tr) if e[0] == "loopiter"] or [0])
        it = tr[start:]
        tests = [(e[1], e[2]) for e in it if e[0] == "test"]
        polled = any(e[0] == "call" and e[1].endswith("pop_next_job") for e in it)
        job_none = ("job is not None", False) in tests
        hash_none = ("hash_job is not None", False) in tests
        idle = ("len(self.running_tasks) == 0", True) in tests and ("len(self.done_tasks) == 0", True) in tests
        # a return without a poll must have failed the slot guard, which contradicts running_tasks == 0 for njob >= 1
        slot_fail = ("len(self.running_tasks) < self.njob", False) in tests
        ok = idle and ((polled and job_none and hash_none) or slot_fail)
        ctx.check(ok, fi.fq, "return only after an empty poll with nothing running",
                  f"job_loop can return although a step may be eligible: polled={polled} job None={job_none} hash None={hash_none} idle={idle}", "empty poll ∧ no running ∧ no done tasks" if not slot_fail else "infeasible: no free slot contradicts no running task (njob >= 1)", where=ctx.where_of(fi))
    sc = ctx.prog.func("director.ServeConfig.__attrs_post_init__") if ctx.prog.has_func("director.ServeConfig.__attrs_post_init__") else None
    ok = sc is not None and re.search(r"njob\s*<\s*1|njob\s*<=\s*0", ast.unparse(sc.node)) is not None
    ctx.check(ok, "director.ServeConfig.__attrs_post_init__", "njob >= 1 enforced", "njob may be < 1: the slot guard can then starve the loop and the infeasibility argument fails", "raises for njob < 1")
    pj = ctx.prog.func("scheduler.Scheduler.pop_next_job")
    early = []
    for s in pj.node.body:
        if isinstance(s, (ast.AsyncWith, ast.With)):
            break
        if isinstance(s, ast.If) and any(isinstance(x, ast.Return) for x in ast.walk(s)):
            early.append(ast.unparse(s.test))
        elif isinstance(s, ast.Return):
            early.append("<unconditional>")
    ok = early == ["self.draining"]
    ctx.check(ok, pj.fq, "draining is the only early exit before the poll", "pop_next_job returns None for another reason before consulting the database", "if self.draining: return None", where=ctx.where_of(pj))


RESOLVING = {"set_state", "mark_completed", "_reset_step_to_pending", "_finalize_failed_run"}
# helpers that resolve the state only when they answer True (the step was declared again and has been made pending)
RESOLVING_IF_TRUE = ("_restart_if_declared_again", "_discard_check_if_declared_again", "_drop_verdict_if_declared_again")


def kwarg_of(call, name):
    for k in call.keywords:
        if k.arg == name:
            return k.value
    return None


def rule_transient_state_resolved(ctx):
    """R-C10-9: CHECKING and RUNNING are transient: every job handler leaves them on every exit path.

    pop_next_job moves the step out of PENDING; the dispatch predicate only selects PENDING steps, and the
    end-of-phase test looks for eligible (PENDING) steps only.  A handler path that returns without giving
    the step a resting state leaves an eligible-looking step out of every later decision: it is neither
    dispatched again nor counted.
    """
    nr = ctx.prog.func("executor.Executor._new_run")
    # summary of _new_run: whenever it returns no hash it has finalised the run (R-C03-3 decides the details)
    none_paths = 0
    for tr, st in flow.paths_of(nr):
        rets = [e for e in tr if e[0] == "return"]
        if not rets or not re.search(r",\s*None\)?$", rets[-1][1].strip()):
            continue
        none_paths += 1
        fin = any(e[0] == "call" and e[1].split(".")[-1] == "_finalize_failed_run" for e in tr)
        ctx.check(fin, nr.fq, "returning no hash implies the run was finalised as failed", "a path returns (run, None) with the step still in its transient state", "_finalize_failed_run on the path", where=ctx.where_of(nr))
    if none_paths == 0:
        raise AnalysisError("_new_run: no path returning (run, None) found")
    ff = ctx.prog.func("executor.Executor._finalize_failed_run")
    ctx.check(any(callee_name(c) == "mark_completed" for c in calls_in(ff.node)), ff.fq, "finalising records a completion", "no mark_completed", "mark_completed")
    rp = ctx.prog.func("executor.Executor._reset_step_to_pending")
    ctx.check(any(callee_name(c) == "set_state" and c.args and ast.unparse(c.args[0]) == "StepState.PENDING" for c in calls_in(rp.node)), rp.fq, "puts the step back to PENDING", "no set_state(PENDING)", "set_state(PENDING)")
    # a job that puts the step back to PENDING without having run it must change what the next pop sees:
    # either the stored hash is gone (the next job runs the command) or the step is parked as deferred
    n_back = 0
    for fi in ctx.prog.module("executor").all_funcs.values():
        for c in calls_in(fi.node):
            if callee_name(c) == "set_state" and c.args and ast.unparse(c.args[0]) == "StepState.PENDING":
                n_back += 1
                recv = ast.unparse(c.func.value)
                drops_hash = any(callee_name(d) == "delete_hash" and ast.unparse(d.func.value) == recv and d.lineno < c.lineno for d in calls_in(fi.node))
                flag = c.args[1] if len(c.args) > 1 else kwarg_of(c, "deferred")
                parks = flag is not None and not (isinstance(flag, ast.Constant) and flag.value is False)
                if parks and not drops_hash:
                    # parked exactly while something is unavailable: a constant True parks a step whose input became available during the
                    # job (no later state change will wake it), so the build ends with a pending step that nothing blocks
                    exact = isinstance(flag, ast.Call) and callee_name(flag) == "has_unavailable_dynamic_input" and ast.unparse(flag.func.value) == recv
                    ctx.check(exact, fi.fq, f"{recv} is parked exactly while one of its dynamic inputs is unavailable", f"the deferred flag is `{ast.unparse(flag)}`: when the missing input came back while the job was running, the step stays deferred with every input available and is never dispatched again", f"deferred = {recv}.has_unavailable_dynamic_input()", where=ctx.where_of(fi, c))
                ctx.check(drops_hash or parks, fi.fq, f"{recv}.set_state(PENDING) after a job that did not run the command changes eligibility", "the step goes back to PENDING with its stored hash and without the deferred flag: the next pop selects it again and derives the same job, so the build phase never ends", "hash deleted first" if drops_hash else "parked as deferred while a dynamic input is unavailable", where=ctx.where_of(fi, c))
    if n_back < 2:
        raise AnalysisError("executor: set_state(PENDING) sites not found")
    # mark_completed, on which the handlers rely, writes a resting state on every path
    mc = ctx.prog.func("step.Step.mark_completed")
    n_mc = 0
    for tr, st in flow.paths_of(mc):
        if st not in ("return", "fall"):
            continue
        n_mc += 1
        states = [ast.unparse(e[2].args[0]) for e in tr if e[0] == "call" and e[1] == "self.set_state" and e[2].args]
        if not states or any(x not in ("StepState.PENDING", "StepState.FAILED", "StepState.SUCCEEDED") for x in states):
            ctx.bad(mc.fq, "every path writes PENDING, FAILED or SUCCEEDED", f"a path through {[(e[1], e[2]) for e in tr if e[0] == 'test'][:4]} writes {states or 'no state'}: the step stays RUNNING for ever", where=ctx.where_of(mc))
            break
    else:
        ctx.check(n_mc >= 3, mc.fq, "every path writes PENDING, FAILED or SUCCEEDED", "paths not found", f"{n_mc} paths")
    for fq in ("executor.Executor.validate_dynamic_job", "executor.Executor.try_skip_job", "executor.Executor.execute_job"):
        fi = ctx.prog.func(fq)
        n = 0
        for tr, st in flow.paths_of(fi):
            if st not in ("return", "fall"):
                continue
            n += 1
            calls = [(k, e[1].split(".")[-1]) for k, e in enumerate(tr) if e[0] == "call"]
            tests = [(e[1], e[2]) for e in tr if e[0] == "test"]
            resolved = any(nm in RESOLVING for _, nm in calls) or any(v is True and any(h in t for h in RESOLVING_IF_TRUE) for t, v in tests)
            # early return right after _new_run returned no hash
            early = tests[:1] == [("new_hash is None", True)] and any(nm == "_new_run" for _, nm in calls)
            if not (resolved or early):
                ctx.bad(fq, "every exit gives the step a resting state", f"a path (tests {tests[:4]}) returns with the step still CHECKING/RUNNING: it is never selected again and the phase ends without it", where=ctx.where_of(fi))
                break
        else:
            ctx.check(n > 0, fq, "every exit gives the step a resting state", "no exit path", f"{n} paths")


def rule_recompute_pipelines(ctx):
    """R-C10-10: the recomputation of the cached attributes runs all of its stages, in order, and clears the flag last.

    R-C10-1/-2 decide that flags are raised and that the recomputation is called before every decision; what is
    called has to do the work: seed the work list from the flagged rows, recompute, feed what changed into the
    propagation, and only then clear the flag.
    """
    def stages(fq):
        fi = ctx.prog.func(fq)
        out = []
        for tr, st in flow.paths_of(fi):
            seq = []
            for e in tr:
                if e[0] == "call" and e[1].endswith("db.execute") or e[0] == "call" and e[1].endswith("db.executemany"):
                    if e[2].args:
                        seq.append(ast.unparse(e[2].args[0]))
                elif e[0] == "call" and e[1].endswith("_clear_flag") and e[2].args:
                    seq.append("clear " + ast.unparse(e[2].args[0]))
            tests = [(e[1], e[2]) for e in tr if e[0] == "test"]
            loops = [1 for e in tr if e[0] == "loopiter"] + [e[2] for e in tr if e[0] == "loop" and e[2]]
            out.append((seq, tests, loops, st))
        return fi, out

    def in_order(seq, need):
        pos = -1
        for n in need:
            try:
                pos = seq.index(n, pos + 1)
            except ValueError:
                return False
        return True

    fi, paths = stages("scheduler.Scheduler._update_meta_safe")
    work = [p for p in paths if p[0]]
    ctx.check(bool(work) and all(in_order(p[0], ["EMPTY_SAFE_UPDATE", "FILL_SAFE_UPDATE", "APPLY_SAFE_UPDATE", "clear '_check_safe'"]) and p[0][-1] == "clear '_check_safe'" for p in work), fi.fq, "_safe: empty -> fill -> apply -> clear flag", f"stages on the working path: {[p[0] for p in work][:2]}: flagged steps lose their flag without (all of) the recomputation, and keep a stale _safe for good", "all stages, flag cleared last", where=ctx.where_of(fi))
    fi, paths = stages("scheduler.Scheduler._update_meta_after")
    once = [p for p in paths if p[0] and 1 in p[2]]
    none = [p for p in paths if p[0] and 1 not in p[2]]
    need = ["SEED_CHECK_AFTER", "COUNT_CHECK_AFTER", "UPDATE_CHECK_AFTER", "EMPTY_CHANGED_AFTER", "INSERT_CHANGED_AFTER", "PROPAGATE_CHECK_AFTER", "clear '_check_after'"]
    ctx.check(bool(once) and all(in_order(p[0], need) and p[0][-1] == "clear '_check_after'" for p in once), fi.fq, "_implied_need/_after: seed -> (recompute -> changed rows -> propagate)* -> clear flag", f"stages with one round: {[p[0] for p in once][:1]}: the propagation of a changed need to the suppliers is cut short, or the flag is cleared before the work is done", "all stages, flag cleared last", where=ctx.where_of(fi))
    ctx.check(bool(none) and all(in_order(p[0], ["SEED_CHECK_AFTER", "COUNT_CHECK_AFTER", "clear '_check_after'"]) for p in none), fi.fq, "with nothing to recompute the flag is still cleared after seeding", f"{[p[0] for p in none][:1]}", "seed, count, clear")
    src = ast.unparse(fi.node)
    ctx.check(re.search(r"changed_ids = cur\.fetchall\(\)", src) is not None and "executemany(INSERT_CHANGED_AFTER, changed_ids)" in src and re.search(r"cur = self\.db\.execute\(UPDATE_CHECK_AFTER", src) is not None, fi.fq, "the rows returned by the recomputation are the ones fed into the propagation", "the changed rows are not what is propagated", "UPDATE ... RETURNING -> INSERT_CHANGED_AFTER")
    ctx.check("ncheck = cur.rowcount" in src and re.search(r"while ncheck > 0", src) is not None, fi.fq, "the loop runs until the propagation adds nothing", "loop condition changed", "while ncheck > 0")
    bc = ctx.prog.func("scheduler.Scheduler.build_completed")
    ctx.ok(bc.fq, "end-of-build recomputation", "calls _update_meta_after" if "_update_meta_after" in ast.unparse(bc.node) else "does not recompute at the end of the build")


def rule_phase_wiring(ctx):
    """R-C10-11: a build phase is the job loop followed by the finalisation, and finished tasks come back to the loop.

    R-C10-6 decides when job_loop may return; this rule decides that it is run at all, that the end-of-build
    work follows it, and that a finished task leaves the running set and wakes the loop (otherwise the loop waits
    for ever on a slot that is never given back).
    """
    ro = ctx.prog.func("builder.Builder.run_once")
    n = 0
    for tr, st in flow.paths_of(ro):
        rets = [e for e in tr if e[0] == "return"]
        if not rets or "True" not in rets[-1][1]:
            continue
        n += 1
        names = [e[1].split(".")[-1] for e in tr if e[0] == "call"]
        ok = "job_loop" in names and "finalize" in names and names.index("job_loop") < names.index("finalize")
        ctx.check(ok, ro.fq, "a phase that reports 'ran' has run the job loop and then the finalisation", f"calls: {[x for x in names if x in ('job_loop', 'finalize')]}: the build phase ends without building, or without the end-of-build report and cleanup", "job_loop -> finalize", where=ctx.where_of(ro))
    if n == 0:
        raise AnalysisError("Builder.run_once: no path returning True")
    for fq in ("builder.Builder.start_task", "builder.Builder.start_hash_task"):
        fi = ctx.prog.func(fq)
        cb = [c for c in calls_in(fi.node) if callee_name(c) == "add_done_callback" and c.args and ast.unparse(c.args[0]) == "self._task_done"]
        reg = any(isinstance(a, ast.Assign) and any("self.running_tasks[" in ast.unparse(t) for t in a.targets) for a in ast.walk(fi.node))
        ctx.check(bool(cb) and reg, fq, "a started task is registered as running and reports back when it is done", f"done-callback={bool(cb)}, registered={reg}: the job loop never learns that the task finished and its slot is never free again", "running_tasks[task] = ...; add_done_callback(self._task_done)", where=ctx.where_of(fi))
    td = ctx.prog.func("builder.Builder._task_done")
    src = ast.unparse(td.node)
    ctx.check("self.running_tasks.pop(task)" in src and "self.done_tasks[task]" in src and "self.wake_job_loop.set()" in src, td.fq, "a finished task leaves the running set, joins the done set and wakes the loop", "one of the three is missing", "pop, record, wake")
    jl = ctx.prog.func("builder.Builder.job_loop")
    ctx.check(any(callee_name(c) == "handle_done_tasks" for c in calls_in(jl.node)), jl.fq, "the loop processes finished tasks", "done tasks are never handled (their exceptions and wake-ups are lost)", "handle_done_tasks()")


def rule_claims_follow_declaration(ctx):
    """R-C10-12: the resource claims that the dispatch predicate reads are the declared ones (a stale claim keeps an eligible step pending)."""
    shared.check_claims_replaced(ctx)


def rule_defer_cap(ctx):
    """R-C10-7: every accepted defer passed the counter and the cap."""
    fi = ctx.prog.func("step.Step.mark_completed")
    paths = flow.paths_of(fi)
    n = 0
    for tr, st in paths:
        for i, e in enumerate(tr):
            if e[0] == "call" and e[1] == "self.set_state" and "StepState.PENDING" in ast.unparse(e[2]):
                n += 1
                pre = tr[:i]
                inc = any(x[0] == "call" and x[1] == "self._increment_defer_count" for x in pre)
                cap = ("defer_count <= self.graph.defer_cap", True) in [(x[1], x[2]) for x in pre if x[0] == "test"]
                ctx.check(inc and cap, fi.fq, "accepted defer passed _increment_defer_count and the cap test", f"a defer is accepted without counting it (increment={inc}, cap test={cap}): a step can defer for ever", "counted and capped", where=ctx.where_of(fi, e[2]))
    if n == 0:
        raise AnalysisError("mark_completed has no PENDING branch")
    over = [tr for tr, st in paths if ("defer_count <= self.graph.defer_cap", False) in [(x[1], x[2]) for x in tr if x[0] == "test"]]
    ok = bool(over) and all(any(x[0] == "call" and x[1] == "self.set_state" and "StepState.FAILED" in ast.unparse(x[2]) for x in tr) for tr in over)
    ctx.check(ok, fi.fq, "over the cap ⇒ FAILED", "exceeding the defer cap does not fail the step", "FAILED")
    StepState = ctx.prog.enum("StepState")
    trg = ctx.cat.triggers.get("step_reset_defer_count")
    ok = trg is not None and trg.op == "UPDATE" and "state" in trg.of_cols
    if ok:
        tt = ctx.cat.truth_table(trg.when, {"NEW.state": [s.value for s in StepState]})
        ok = all(bool(v) == (st == StepState.SUCCEEDED.value) for (st,), v in tt.items())
    ctx.check(ok, "step.STEP_SCHEMA", "defer_count is reset only on SUCCEEDED", "defer_count is reset by another state change: the cap no longer bounds consecutive defers", "WHEN NEW.state = SUCCEEDED")
    inc = ctx.sql.stmts_in("step.Step._increment_defer_count")
    ctx.check(any(re.search(r"defer_count\s*=\s*defer_count\s*\+\s*1", s.text) for s in inc), "step.Step._increment_defer_count", "increments by one", "defer counter is not incremented", "+1")
    wf = ctx.prog.cls("workflow.Workflow")
    ctx.check("defer_cap" in wf.fields, "workflow.Workflow", "defer_cap is a finite integer field", "defer_cap field missing", wf.fields.get("defer_cap", ""))


RULES = [
    Rule("R-C10-1", "every write event on a read-set column of a cached definition sets its flag", rule_flag_coverage, min_instances=62),
    Rule("R-C10-1s", "Step overrides flag the subtree; hold/release flag on 0<->1", rule_step_overrides, min_instances=8),
    Rule("R-C10-1v", "file.state writers never cross the VOLATILE boundary", rule_volatile_boundary, min_instances=5),
    Rule("R-C10-2", "flags are consumed before every dispatch decision", rule_consume_flags, min_instances=5),
    Rule("R-C10-3", "eligibility predicate truth table", rule_eligibility, min_instances=9),
    Rule("R-C10-4", "_safe seed consults state and holds", rule_safe_seed, min_instances=6),
    Rule("R-C10-5", "wake-ups after eligibility-changing events", rule_wakeups, min_instances=9),
    Rule("R-C10-6", "job_loop returns only after an empty poll", rule_loop_exit, min_instances=3),
    Rule("R-C10-7", "defer cap", rule_defer_cap, min_instances=5),
    Rule("R-C10-9", "job handlers leave the transient states on every exit", rule_transient_state_resolved, min_instances=10),
    Rule("R-C10-10", "recomputation pipelines run all stages and clear the flag last", rule_recompute_pipelines, min_instances=6),
    Rule("R-C10-11", "phase wiring: loop, finalisation, finished tasks", rule_phase_wiring, min_instances=5),
    Rule("R-C10-12", "resource claims follow the declaration", rule_claims_follow_declaration, min_instances=7),
    Rule("R-C10-8", "'needed' is computed from attached consumers, targets and declared need", C11.rule_read_set, min_instances=10),
]


def _drop_trigger(name):
    return sub_once(r"CREATE TRIGGER IF NOT EXISTS " + name + r"\b.*?\nEND;\n", "", flags=re.S)


MUTANTS = [
    Mutant("validated-step-parked-unconditionally", "executor.py", in_function("Executor.validate_dynamic_job", replace_once("step.set_state(StepState.PENDING, step.has_unavailable_dynamic_input())", "step.set_state(StepState.PENDING, True)")), ("R-C10-9",)),
    Mutant("phase-without-job-loop", "builder.py", in_function("Builder.run_once", replace_once("        await self.job_loop()\n", "")), ("R-C10-11",)),
    Mutant("phase-without-finalize", "builder.py", in_function("Builder.run_once", replace_once("        await self.finalize()\n", "")), ("R-C10-11",)),
    Mutant("task-never-reports-back", "builder.py", in_function("Builder.start_task", replace_once("        task.add_done_callback(self._task_done)\n", "")), ("R-C10-11",)),
    Mutant("done-task-does-not-wake", "builder.py", in_function("Builder._task_done", replace_once("        self.wake_job_loop.set()\n", "")), ("R-C10-11",)),
    Mutant("after-not-seeded", "scheduler.py", in_function("Scheduler._update_meta_after", replace_once("        self.db.execute(SEED_CHECK_AFTER)\n", "")), ("R-C10-10",)),
    Mutant("after-changed-rows-dropped", "scheduler.py", in_function("Scheduler._update_meta_after", replace_once("            self.db.executemany(INSERT_CHANGED_AFTER, changed_ids)\n", "")), ("R-C10-10",)),
    Mutant("after-changed-rows-accumulate", "scheduler.py", in_function("Scheduler._update_meta_after", replace_once("            self.db.execute(EMPTY_CHANGED_AFTER)\n", "")), ("R-C10-10",)),
    Mutant("safe-filled-not-applied", "scheduler.py", in_function("Scheduler._update_meta_safe", replace_once("        cur = self.db.execute(APPLY_SAFE_UPDATE)\n", "        cur = self.db.execute(EMPTY_SAFE_UPDATE)\n")), ("R-C10-10",)),
    Mutant("after-flag-cleared-first", "scheduler.py", in_function("Scheduler._update_meta_after", lambda t: t.replace('        self._clear_flag("_check_after")\n', "", 1).replace("        self.db.execute(EMPTY_CHECK_AFTER)\n        self.db.execute(SEED_CHECK_AFTER)\n", '        self._clear_flag("_check_after")\n        self.db.execute(EMPTY_CHECK_AFTER)\n        self.db.execute(SEED_CHECK_AFTER)\n', 1) if 'self._clear_flag("_check_after")' in t else None), ("R-C10-10",)),
    Mutant("failed-step-stays-running", "step.py", in_function("Step.mark_completed", replace_once('                logger.info("Failed step: %s", self.label)\n                self.set_state(StepState.FAILED)\n', '                logger.info("Failed step: %s", self.label)\n')), ("R-C10-9",)),
    Mutant("validated-step-not-parked", "executor.py", in_function("Executor.validate_dynamic_job", replace_once("step.set_state(StepState.PENDING, step.has_unavailable_dynamic_input())", "step.set_state(StepState.PENDING)")), ("R-C10-9",)),
    Mutant("reset-keeps-hash", "executor.py", in_function("Executor._reset_step_to_pending", replace_once("            step.delete_hash()\n", "")), ("R-C10-9",)),
    Mutant("validated-step-stays-checking", "executor.py", in_function("Executor.validate_dynamic_job", replace_once("        async with self.db:\n            if not self._drop_verdict_if_declared_again(step):\n                step.set_state(StepState.PENDING, step.has_unavailable_dynamic_input())\n", "")), ("R-C10-9",)),
    Mutant("noskip-stays-checking", "executor.py", in_function("Executor.try_skip_job", replace_once("            await self._noskip(run, step_hash, new_hash)\n            await self._reset_step_to_pending(step)\n            # The output files", "            await self._noskip(run, step_hash, new_hash)\n            # The output files")), ("R-C10-9",)),
    Mutant("cancelled-out-hash-stays-checking", "executor.py", in_function("Executor.try_skip_job", replace_once("            await self._finalize_failed_run(run)\n            return\n", "            return\n")), ("R-C10-9",)),
    Mutant("safe-merge-by-min", "scheduler.py", replace_once("SELECT i, safe, safe_nh FROM (SELECT i, safe, safe_nh, MAX(depth) FROM trace GROUP BY i)", "SELECT i, MIN(safe), MIN(safe_nh) FROM trace GROUP BY i"), ("R-C10-4",)),
    Mutant("seed-from-flagged-creator", "scheduler.py", replace_once("    WHERE s._check_safe AND NOT COALESCE(creator_step._check_safe, 0)\n", "    WHERE s._check_safe\n"), ("R-C10-4",)),
    Mutant("revalidated-not-propagated", "step.py", in_function("Step.mark_completed", replace_once("                    file.set_state(FileState.BUILT)\n                    self.graph.mark_consuming_steps_pending(file)\n", "                    file.set_state(FileState.BUILT)\n")), ("R-C10-5",)),
    Mutant("when-narrowed-detached", "step.py", replace_once("AFTER UPDATE OF detached ON node\nWHEN OLD.detached != NEW.detached\nBEGIN\n    UPDATE step SET _check_ready = 1", "AFTER UPDATE OF detached ON node\nWHEN NEW.detached AND NOT OLD.detached\nBEGIN\n    UPDATE step SET _check_ready = 1"), ("R-C10-1",)),
    Mutant("when-narrowed-file-state", "step.py", sub_once(r"(CREATE TRIGGER IF NOT EXISTS step_file_check_ready_upd AFTER UPDATE OF state ON file\n)WHEN OLD.state != NEW.state", r"\1WHEN OLD.state != NEW.state AND NEW.state != " + "{FileState.OUTDATED.value}"), ("R-C10-1",)),
    Mutant("drop-trigger-dependency-ins", "step.py", _drop_trigger("step_dependency_check_after_ins"), ("R-C10-1",)),
    Mutant("drop-trigger-file-upd", "step.py", _drop_trigger("step_file_check_ready_upd"), ("R-C10-1",)),
    Mutant("drop-trigger-node-detached", "step.py", _drop_trigger("step_node_check_ready_detached"), ("R-C10-1",)),
    Mutant("drop-trigger-dyn-del", "step.py", _drop_trigger("dynamic_dep_check_ready_del"), ("R-C10-1",)),
    Mutant("drop-trigger-state-safe", "step.py", _drop_trigger("step_flag_check_safe"), ("R-C10-1",)),
    Mutant("drop-trigger-duration", "step.py", _drop_trigger("step_flag_check_after_duration"), ("R-C10-1",)),
    Mutant("drop-trigger-hash-del", "step.py", _drop_trigger("step_hash_del"), ("R-C10-1",)),
    Mutant("narrow-trigger-file", "step.py", replace_once("CREATE TRIGGER IF NOT EXISTS step_file_check_ready_upd AFTER UPDATE OF state ON file", "CREATE TRIGGER IF NOT EXISTS step_file_check_ready_upd AFTER UPDATE OF hash ON file"), ("R-C10-1",)),
    Mutant("new-writer-holding", "step.py", in_function("Step.set_duration", replace_once(
        'self.db.execute("UPDATE step SET duration = ? WHERE node = ?", (duration, self.i))',
        'self.db.execute("UPDATE step SET duration = ?, _holding = 0 WHERE node = ?", (duration, self.i))')), ("R-C10-1",)),
    Mutant("hold-no-flag", "step.py", in_function("Step.hold", replace_once("            self._flag_checks_with_products()\n", "            pass\n")), ("R-C10-1", "R-C10-1s")),
    Mutant("detach-no-sources-flag", "step.py", in_function("Step.detach", replace_once("        self.db.execute(RECURSIVE_CHECK_AFTER_SOURCES, (self.i,))\n", "")), ("R-C10-1s",)),
    Mutant("reattach-no-flag", "step.py", in_function("Step.reattach", replace_once("        self._flag_checks_with_products()\n", "")), ("R-C10-1s",)),
    Mutant("pop-no-ready-update", "scheduler.py", in_function("Scheduler.pop_next_job", replace_once("            self._update_meta_ready()\n", "")), ("R-C10-2",)),
    Mutant("clear-before-recompute", "scheduler.py", in_function("Scheduler._update_meta_safe", lambda seg: seg.replace('        self._clear_flag("_check_safe")\n', "").replace("        self.db.execute(EMPTY_SAFE_UPDATE)\n", '        self._clear_flag("_check_safe")\n        self.db.execute(EMPTY_SAFE_UPDATE)\n') if seg.count('self._clear_flag("_check_safe")') == 1 else None), ("R-C10-2",)),
    Mutant("dispatch-deferred", "step.py", replace_once("    NOT step.deferred AND\n", ""), ("R-C10-3",)),
    Mutant("dispatch-succeeded", "step.py", replace_once("STEP_DISPATCH_WHERE = f\"\"\"step.state = {StepState.PENDING.value} AND", "STEP_DISPATCH_WHERE = f\"\"\"step.state IN ({StepState.PENDING.value}, {StepState.SUCCEEDED.value}) AND"), ("R-C10-3",)),
    Mutant("dispatch-detached", "scheduler.py", replace_once("    NOT node.detached AND\n    (step._has_hash OR", "    (step._has_hash OR"), ("R-C10-3",)),
    Mutant("safe-ignores-holding", "scheduler.py", lambda t: t.replace("                creator_step._holding = 0,\n            1\n        ),\n        COALESCE(\n            creator_step._safe AND", "                1,\n            1\n        ),\n        COALESCE(\n            creator_step._safe AND", 1) if t.count("creator_step._holding = 0") == 3 else None, ("R-C10-4",)),
    Mutant("safe-allows-pending-creator", "scheduler.py", lambda t: t.replace("creator_step.state IN ({StepState.RUNNING.value}, {StepState.SUCCEEDED.value}) AND\n                creator_step._holding = 0,", "creator_step.state IN ({StepState.RUNNING.value}, {StepState.SUCCEEDED.value}, {StepState.PENDING.value}) AND\n                creator_step._holding = 0,", 1), ("R-C10-4",)),
    Mutant("define-step-no-wake", "director.py", in_function("DirectorHandler.define_step", replace_once("        self.builder.wake_job_loop.set()\n", "")), ("R-C10-5",)),
    Mutant("release-no-wake", "director.py", in_function("DirectorHandler.release_dispatch", replace_once("        self.builder.wake_job_loop.set()\n", "")), ("R-C10-5",)),
    Mutant("task-done-no-wake", "builder.py", in_function("Builder._task_done", replace_once("        self.wake_job_loop.set()\n", "")), ("R-C10-5",)),
    Mutant("loop-return-before-poll", "builder.py", in_function("Builder.job_loop", lambda seg: seg.replace(
        "            # Get the next job and start it as a task if there is such a job.\n", "            if len(self.running_tasks) == 0 and len(self.done_tasks) == 0:\n                return\n", 1) if "# Get the next job and start it" in seg else None), ("R-C10-6",)),
    Mutant("defer-no-count", "step.py", in_function("Step.mark_completed", replace_once("                defer_count = self._increment_defer_count()\n", "                defer_count = self.get_defer_count()\n")), ("R-C10-7",)),
    Mutant("reset-count-on-failed", "step.py", replace_once("CREATE TRIGGER IF NOT EXISTS step_reset_defer_count AFTER UPDATE OF state ON step\nWHEN NEW.state = {StepState.SUCCEEDED.value}", "CREATE TRIGGER IF NOT EXISTS step_reset_defer_count AFTER UPDATE OF state ON step\nWHEN NEW.state IN ({StepState.SUCCEEDED.value}, {StepState.PENDING.value})"), ("R-C10-7",)),
    Mutant("has-hash-not-seeded", "step.py", in_function("Step.initialize_row", lambda seg: seg.replace('            "(SELECT EXISTS(SELECT 1 FROM step_hash WHERE node = :node)), :holding)",', '            "0, :holding)",') if "SELECT EXISTS(SELECT 1 FROM step_hash" in seg else None), ("R-C10-1",)),
]

VARIANTS = [
    Variant("reformat-dispatch-where", "step.py", replace_once("    NOT step.deferred AND\n", "    NOT   step.deferred   AND\n")),
    Variant("equivalent-state-test", "step.py", replace_once("STEP_DISPATCH_WHERE = f\"\"\"step.state = {StepState.PENDING.value} AND", "STEP_DISPATCH_WHERE = f\"\"\"step.state IN ({StepState.PENDING.value}) AND")),
    Variant("rename-trigger", "step.py", lambda t: t.replace("step_flag_check_safe", "step_state_flags_check_safe")),
]
