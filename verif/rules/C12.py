"""C12 — job, resource and hold limits are never exceeded (structural clauses)."""
from __future__ import annotations

import ast
import re

from ..engine import flow
from ..engine.mutate import Mutant, Variant, in_function, replace_once
from ..engine.runner import Rule
from ..engine.source import AnalysisError
from ..engine.sqlfront import all_where_clauses, split_conjuncts
from . import C10
from . import C11
from . import shared
from .common import callee_name, calls_in

EXPLANATION = (
    "Static analysis of the limit mechanisms. Tasks are started only from job_loop, each start dominated by the true "
    "edge of `len(running_tasks) < njob`; running_tasks gains keys only in the two start functions; njob >= 1 is "
    "enforced. A step command can only be launched through _run_command <- execute_job <- RunJob.coro (who-may-reach "
    "over the call graph): not from the skip, validate, hash or promoted-hash paths that run outside the budget. The "
    "resource test is part of the dispatch statement and its read set includes the RUNNING steps' claims; selection "
    "and the PENDING->RUNNING write are one region without await (check-then-claim is atomic); the arm's truth table "
    "says a hash-less step is selected only if every required resource is defined and fits. A checkable job cannot "
    "run a command (job kind follows the stored hash; _has_hash mirror coverage is C10's rule). Holds: counter "
    "transitions flag the subtree, reset trigger, seed expression (C10). Decides these clauses; that counts respect "
    "the limits at every instant follows from them plus the single-threaded event loop, which is assumed. "
    'Also: the sum of units in use reads only claims and states and has exactly the two conjuncts name/RUNNING (detached running steps still count); every path of after_recycle stores the declared resources; R-C12-5 the open-hold counter is written only by hold()/release() and cleared only by the state-change trigger.'
    ' R-C12-7 set_resources deletes all claims of the step and inserts the declared ones without deferring to existing rows; R-C12-8 the subtree flagging on detach/reattach that the hold clause relies on.'
    ' R-C12-10 also follows the lookups of former outputs to queries without an attachment filter and the raw request through out_paths to _paths; R-C12-11 a step sheds the declarations of its previous run before it counts as running (R-C11-6).'
)
ASSUMPTIONS = ["single-threaded asyncio event loop", "a step's command is only started by executor.launch_command"]

DBCTX = lambda s: s.split(".")[-1] == "db"  # noqa: E731


def _norm(s):
    return re.sub(r"\s+", " ", s).strip()


def rule_slots(ctx):
    """R-C12-1."""
    jl = ctx.prog.func("builder.Builder.job_loop")
    n = 0
    for tr, st in flow.paths_of(jl):
        for k, e in enumerate(tr):
            if e[0] == "call" and e[1] in ("self.start_task", "self.start_hash_task"):
                n += 1
                guards = [(x[1], x[2]) for x in tr[:k] if x[0] == "test" and "running_tasks" in x[1]]
                ok = bool(guards) and guards[-1] == ("len(self.running_tasks) < self.njob", True)
                ctx.check(ok, jl.fq, f"{e[1]} under `len(running_tasks) < njob`", f"a task is started without a free slot (last guard: {guards[-1:]})", "guarded", where=ctx.where_of(jl, e[2]))
    if n < 2:
        raise AnalysisError("job_loop no longer starts tasks")
    for tgt in ("builder.Builder.start_task", "builder.Builder.start_hash_task"):
        callers = {c.split(".<locals>.")[0] for c in ctx.cg.callers_of(tgt, include_by_name=True)}
        ctx.check(callers <= {"builder.Builder.job_loop"}, tgt, "called only from job_loop", f"also called from {sorted(callers - {'builder.Builder.job_loop'})}: tasks are started outside the slot budget", "job_loop only")
    writers = set()
    for fi in ctx.prog.all_functions():
        for node in ast.walk(fi.node):
            if isinstance(node, ast.Assign):
                for t in node.targets:
                    if isinstance(t, ast.Subscript) and ast.unparse(t.value).endswith("running_tasks"):
                        writers.add(fi.fq)
    ctx.check(writers == {"builder.Builder.start_task", "builder.Builder.start_hash_task"}, "builder.Builder.running_tasks", "keys are added only by the two start functions", f"writers {sorted(writers)}", "two writers")
    td = ctx.prog.func("builder.Builder._task_done")
    ctx.check("job = self.running_tasks.pop(task)" in ast.unparse(td.node), td.fq, "a finished task frees its slot", "slot not released", "pop")
    sc = ctx.prog.func("director.ServeConfig.__attrs_post_init__") if ctx.prog.has_func("director.ServeConfig.__attrs_post_init__") else None
    ok = sc is not None and re.search(r"njob\s*<\s*1|njob\s*<=\s*0", ast.unparse(sc.node)) is not None and any(isinstance(x, ast.Raise) for x in ast.walk(sc.node))
    ctx.check(ok, "director.ServeConfig.__attrs_post_init__", "njob >= 1 is enforced", "njob < 1 accepted", "raises")
    wd = ctx.prog.func("director._wire_director")
    ctx.check("njob=config.njob" in ast.unparse(wd.node), wd.fq, "the builder's limit is the configured njob", "limit provenance changed", "config.njob")


def rule_commands_in_budget(ctx):
    """R-C12-2."""
    lc = None
    for m in ctx.prog.mods.values():
        if "launch_command" in m.funcs:
            lc = m.funcs["launch_command"]
    if lc is None:
        raise AnalysisError("launch_command not found")
    callers = {c.split(".<locals>.")[0] for c in ctx.cg.callers_of(lc.fq, include_by_name=True)}
    ctx.check(callers == {"executor.Executor._run_command"}, lc.fq, "launched only by Executor._run_command", f"callers {sorted(callers)}", "single caller")
    callers = {c.split(".<locals>.")[0] for c in ctx.cg.callers_of("executor.Executor._run_command", include_by_name=True)}
    ctx.check(callers == {"executor.Executor.execute_job"}, "executor.Executor._run_command", "called only by execute_job", f"callers {sorted(callers)}", "single caller")
    callers = {c.split(".<locals>.")[0] for c in ctx.cg.callers_of("executor.Executor.execute_job", include_by_name=True)}
    ctx.check(callers == {"job.RunJob.coro"}, "executor.Executor.execute_job", "called only by RunJob.coro", f"callers {sorted(callers)}", "single caller")
    for root in ("executor.Executor.try_skip_job", "executor.Executor.validate_dynamic_job", "executor.Executor.run_hash_job", "builder.Builder.run_promoted_hash_jobs", "hash_queue.gather_hashes", "builder.Builder.start_hash_task"):
        ctx.prog.func(root)
        reach = ctx.cg.reachable(root, include_by_name=False)
        ctx.check(lc.fq not in reach and "executor.Executor._run_command" not in reach, root, "cannot reach launch_command",
                  f"a command can be launched from {root}, which runs outside the job budget or counts as a check: {ctx.cg.path(root, lc.fq, include_by_name=False)}", "unreachable")
    co = _norm(ast.unparse(ctx.prog.cls("job.RunJob").methods["coro"].node))
    ctx.check("if self.runs_command: inner = executor.execute_job(" in co, "job.RunJob.coro", "execute_job only when the job runs a command", "changed", "ok")
    st = ctx.prog.func("builder.Builder.start_task")
    ctx.check("asyncio.create_task(self._run_with_progress(job)" in _norm(ast.unparse(st.node)), st.fq, "a job's coroutine only runs as a budgeted task", "changed", "ok")


def rule_resources(ctx):
    """R-C12-3."""
    SS = ctx.prog.enum("StepState")
    sel = ctx.prog.fold("scheduler", "SELECT_NEXT_STEP")
    res = ctx.prog.fold("scheduler", "RESOURCE_UNAVAILABLE")
    ctx.check(_norm(res) in _norm(sel), "scheduler.SELECT_NEXT_STEP", "embeds RESOURCE_UNAVAILABLE", "the resource test is not part of the dispatch statement", "embedded")
    reads = {(e[1], e[2]) for e in ctx.cat.effects(sel) if e[0] == "READ"}
    need = {("step_resource", "units"), ("step_resource", "name"), ("available_resource", "units"), ("available_resource", "name"), ("step", "state")}
    ctx.check(need <= reads, "scheduler.SELECT_NEXT_STEP", "reads claims of other steps, availability and states", f"read set lacks {sorted(need - reads)}", "read set ok")
    flat = _norm(res)
    ctx.check(f"s2.state = {SS.RUNNING.value}" in flat, "scheduler.RESOURCE_UNAVAILABLE", "subtracts the units of RUNNING steps", "the units held by running steps are not subtracted (or of steps in another state)", "RUNNING")
    # the subtraction ranges over every RUNNING step: its sub-select reads nothing but claims and step states and
    # has no conjunct besides the resource name and the state (a command keeps running, and keeps its resource, when
    # its step is detached or otherwise reclassified)
    ms = re.search(r"COALESCE\(\( (SELECT SUM\(r2\.units\).*?) \), 0\)", flat)
    if not ms:
        raise AnalysisError("cannot isolate the SUM over running steps in RESOURCE_UNAVAILABLE")
    sub = ms.group(1)
    sub_reads = {(e[1], e[2]) for e in ctx.cat.effects(sub.replace("req.name", "'x'")) if e[0] == "READ"}
    allowed = {("step_resource", "units"), ("step_resource", "name"), ("step_resource", "node"), ("step", "state"), ("step", "node")}
    ctx.check(sub_reads <= allowed, "scheduler.RESOURCE_UNAVAILABLE", "units in use are summed over all RUNNING steps (reads only claims and states)",
              f"the sum of units in use also consults {sorted(f'{t}.{c}' for t, c in sub_reads - allowed)}: a step whose command is still running is left out of the sum and its resource is handed out twice", "read set ok")
    wh = all_where_clauses(sub)
    conj = sorted(re.sub(r"\s*\.\s*", ".", _norm(c)) for c in split_conjuncts(wh[0])) if wh else []
    ctx.check(len(wh) == 1 and conj == sorted(["r2.name = req.name", f"s2.state = {SS.RUNNING.value}"]), "scheduler.RESOURCE_UNAVAILABLE", "the sum is filtered by resource name and RUNNING state only",
              f"conjuncts of the sum: {conj}", "two conjuncts")
    m = re.search(r"AND \( (avail\.name IS NULL OR .*< req\.units) \)$", flat)
    if not m:
        raise AnalysisError("cannot isolate the resource arm of RESOURCE_UNAVAILABLE")
    arm = m.group(1)
    arm2 = re.sub(r"COALESCE\(\( SELECT SUM\(r2\.units\).*?\), 0\)", "used_units", arm)
    tt = ctx.cat.truth_table(arm2, {"avail.name": [None, "gpu"], "avail.units": [0, 1, 2, 3], "used_units": [0, 1, 2], "req.units": [1, 2]})
    wrong = []
    for (nm, av, used, rq), v in tt.items():
        exp = nm is None or (av - used) < rq
        if bool(v) != exp:
            wrong.append((nm, av, used, rq))
    ctx.check(not wrong, "scheduler.RESOURCE_UNAVAILABLE", "unavailable iff undefined or available - running < required", f"differs at {wrong[:3]}", f"{len(tt)} points")
    conj = [c for c in re.split(r"\bAND\b", _norm(sel).split("WHERE", 1)[1].split("ORDER BY")[0]) if "NOT EXISTS" in c or "_has_hash OR" in c]
    ctx.check(any("step._has_hash OR NOT EXISTS" in c for c in conj), "scheduler.SELECT_NEXT_STEP", "resource test waived only for checkable steps", "resource test can be bypassed by a step that will run a command", "_has_hash OR NOT EXISTS(...)")
    pj = ctx.prog.func("scheduler.Scheduler.pop_next_job")
    for tr, st in flow.paths_of(pj):
        g = [k for k, e in enumerate(tr) if e[0] == "call" and e[1] == "self._get_next_step"]
        s = [k for k, e in enumerate(tr) if e[0] == "call" and e[1] == "step.set_state"]
        if g and s:
            ok = flow.region_of(tr, g[0], DBCTX) is not None and flow.region_of(tr, g[0], DBCTX) == flow.region_of(tr, s[0], DBCTX) and not flow.awaits_between(tr, g[0], s[0])
            ctx.check(ok, pj.fq, "check and claim are one region without await", "another dispatch can interleave between the resource test and the RUNNING write: two steps over-commit a resource", "atomic", where=ctx.where_of(pj))
    ins = ctx.prog.fold("scheduler", "INSERT_AVAILABLE_RESOURCE")
    w = {s.site.func.fq for s in ctx.sql.writers_of("available_resource")}
    ctx.check(w == {"scheduler.Scheduler.initialize"} and "INSERT INTO available_resource" in ins, "available_resource", "written only at scheduler initialisation", f"writers {sorted(w)}", "single writer")
    # a recycled step carries the claims of the *current* declaration, whatever its state
    ar = ctx.prog.func("step.Step.after_recycle")
    npaths = 0
    for tr, st in flow.paths_of(ar):
        if st == "raise":
            continue
        npaths += 1
        calls = [e[2] for e in tr if e[0] == "call" and e[1] == "self.set_resources"]
        ok = len(calls) == 1 and len(calls[0].args) == 1 and ast.unparse(calls[0].args[0]) == "resources"
        ctx.check(ok, ar.fq, "every path of after_recycle stores the declared resources", "a recycled step keeps the resource claims of its previous declaration on some path (state-dependent): the dispatcher accounts for the wrong number of units", "set_resources(resources) on all paths", where=ctx.where_of(ar))
    if npaths == 0:
        raise AnalysisError("after_recycle has no normal path")
    w = {s.site.func.fq for s in ctx.sql.writers_of("step_resource")}
    ctx.check(w == {"step.Step.set_resources"}, "step_resource", "claims are written only by Step.set_resources", f"writers {sorted(w)}", "single writer")


def rule_checkable_no_command(ctx):
    """R-C12-4 / R-C12-5."""
    g = ctx.prog.func("scheduler.Scheduler._get_next_step")
    ctx.check("StepState.CHECKING if has_hash else StepState.RUNNING" in ast.unparse(g.node), g.fq, "the hold/resource bypass (checkable) maps to CHECKING", "a row selected through the bypass is marked RUNNING", "CHECKING")
    sel = _norm(ctx.prog.fold("scheduler", "SELECT_NEXT_STEP"))
    ctx.check(sel.startswith("SELECT node.i, node.label, step._has_hash"), "scheduler.SELECT_NEXT_STEP", "returns the _has_hash it selected on", "the returned flag is not the one the predicate tested", "same column")
    rj = ctx.prog.cls("job.RunJob").methods["runs_command"]
    ctx.check("return self.step_hash is None" in ast.unparse(rj.node), rj.fq, "a job with a stored hash cannot run the command", "changed", "ok")
    dj = ctx.prog.func("scheduler.Scheduler._derive_job")
    ctx.check("step_hash = step.get_hash()" in ast.unparse(dj.node), dj.fq, "the job's hash is read in the dispatch transaction", "provenance changed", "get_hash in region")
    ts = ctx.prog.func("executor.Executor.try_skip_job")
    for tr, st in flow.paths_of(ts):
        tests = [(e[1], e[2]) for e in tr if e[0] == "test"]
        if any(t.endswith("_digest != new_hash.inp_digest") and v or t.endswith("out_digest != new_hash.out_digest") and v for t, v in tests):
            ok = any(e[0] == "call" and e[1].endswith("_reset_step_to_pending") for e in tr) and not any(e[0] == "call" and e[1].endswith("_run_command") for e in tr)
            ctx.check(ok, ts.fq, "a failed check goes back to PENDING without hash (ordinary gated dispatch)", "a failed hash check runs the command directly, bypassing holds and resources", "reset only")
    rs = ctx.prog.func("executor.Executor._reset_step_to_pending")
    ctx.check("step.delete_hash()" in ast.unparse(rs.node), rs.fq, "the hash is dropped, so the next dispatch is gated by _safe and resources", "hash kept after a mismatch", "delete_hash")
    api = ctx.prog.module("api")
    for name in ("hold", "release"):
        pass


def rule_running_row_not_reset(ctx):
    """R-C12-6: a command that is still running keeps its row.  A detached step keeps running; when its creator
    declares it again *differently*, can_recycle refuses and Trellis.create re-initialises the row (PENDING, no
    hold, fresh claims): the dispatcher no longer counts the running command and can start the step a second time.
    Somewhere on the way from define_step to the re-initialisation the state of the reused row has to be looked at."""
    sites = [ctx.prog.func("workflow.Workflow.define_step"), ctx.prog.func("trellis.Trellis.create"), ctx.prog.func("step.Step.initialize_row")]
    looks = []
    for fi in sites:
        src = ast.unparse(fi.node)
        if "StepState.RUNNING" in src or "StepState.CHECKING" in src or re.search(r"state\s*(=|IN)\s*\(?\s*\{?StepState", src):
            looks.append(fi.fq)
    ir = sites[2]
    resets = [st for st in ctx.sql.stmts_in(ir.fq) if st.kind == "DELETE" and any(w[1] == "step" for w in st.writes)]
    if not resets:
        raise AnalysisError("Step.initialize_row no longer re-creates the step row")
    ctx.check(bool(looks), ir.fq, "the row of a step whose command is still running is not re-initialised by a re-declaration",
              "nothing between define_step and `DELETE FROM step` looks at the state of the reused row: a RUNNING (or CHECKING) detached step that is declared again with other arguments becomes PENDING while its command runs; the running command is no longer counted against jobs, resources or holds, and the step is dispatched a second time", "state of the reused row consulted", where=ctx.where_of(ir))


def _filters_by_state(fn, call):
    """The mapping handed to `call` is not a parameter of fn as it came in, and fn tests a node's get_state()."""
    params = {a.arg for a in fn.args.args}
    first = call.args[0] if call.args else None
    passes_param = isinstance(first, ast.Name) and first.id in params and not any(isinstance(n, (ast.Assign, ast.AugAssign)) and first.id in {t.id for t in ast.walk(n) if isinstance(t, ast.Name) and isinstance(t.ctx, ast.Store)} for n in ast.walk(fn))
    tests_state = any(isinstance(n, ast.Compare) and any(isinstance(c, ast.Call) and callee_name(c) == "get_state" for c in ast.walk(n)) for n in ast.walk(fn))
    return first is not None and not passes_param and tests_state


def rule_redeclared_running_step(ctx):
    """R-C12-10: how a step that is declared again while its command runs is carried through.

    (a) initialize_row reads the old row before deleting it and, when the old state is RUNNING, writes RUNNING again and
        carries the open-hold counter over; (b) the executor records the declaration when the command is launched,
        compares it when the command has ended and, when it differs, discards the verdict: no completion, the stored
        hash is deleted and the step is made pending.
    """
    ir = ctx.prog.func("step.Step.initialize_row")
    stm = ctx.sql.stmts_in(ir.fq)
    sel = [s_ for s_ in stm if s_.kind == "SELECT" and ("step", "state") in s_.reads]
    dele = [s_ for s_ in stm if s_.kind == "DELETE" and any(w[1] == "step" for w in s_.writes)]
    ins = [s_ for s_ in stm if s_.kind == "INSERT" and any(w[0] == "INSERT" and w[1] == "step" for w in s_.writes)]
    ctx.check(bool(sel) and bool(dele) and sel[0].site.lineno < dele[0].site.lineno, ir.fq, "the old row is read before it is deleted", "the old state is not read (or only after the row is gone)", "SELECT state ... before DELETE", where=ctx.where_of(ir))
    src = ast.unparse(ir.node)
    # the flag: the old state is one of the two transient states; the new state: the old one when the flag holds, PENDING otherwise
    flag_defs = [a for a in ast.walk(ir.node) if isinstance(a, ast.Assign) and len(a.targets) == 1 and isinstance(a.targets[0], ast.Name) and "StepState.RUNNING" in ast.unparse(a.value)]
    flag = flag_defs[0].targets[0].id if flag_defs else None
    fsrc = ast.unparse(flag_defs[0].value) if flag_defs else ""
    flag_ok = flag is not None and "StepState.CHECKING" in fsrc and re.search(r"(==| in )", fsrc) is not None and "is not None" in fsrc
    keeps_state = flag is not None and (re.search(rf"\w+\[0\] if {flag} else StepState\.PENDING\.value", src) is not None or re.search(rf"StepState\.RUNNING if {flag} else StepState\.PENDING", src) is not None)
    ctx.check(keeps_state and flag_ok, ir.fq, "a row that was RUNNING or CHECKING keeps that state, every other one is written as PENDING", "the new row is PENDING although a job of the step is in flight: the step is dispatched a second time next to it", "old state kept iff it was RUNNING or CHECKING")
    holds = bool(ins) and "_holding" in re.sub(r"\s+", " ", ins[0].text) and re.search(r"'holding': \w+\[1\] if \w+ else 0", src) is not None
    ctx.check(holds, ir.fq, "the open-hold counter of a running step is carried over", "a re-declared running step loses its open holds: the steps it is holding back are released while the block is still open", "_holding carried over")
    ej = ctx.prog.func("executor.Executor.execute_job")
    rec = [a for a in ast.walk(ej.node) if isinstance(a, ast.Assign) and ast.unparse(a.targets[0]) == "run.launched_decl" and "_declaration(" in ast.unparse(a.value)]
    ctx.check(len(rec) == 1, ej.fq, "the declaration is recorded when the command is about to start", f"{len(rec)} assignments of run.launched_decl", "recorded in the reset transaction")
    rs = ctx.prog.func("executor.Executor._restart_if_declared_again")
    rsrc = re.sub(r"\s+", " ", ast.unparse(rs.node))
    ctx.check("run.launched_decl == self._declaration(run.step)" in rsrc or "run.launched_decl != self._declaration(run.step)" in rsrc, rs.fq, "the recorded declaration is compared with the current one", "comparison changed", "compared")
    # the event, not only the value: A -> B -> A reads like no change, but every re-creation drops what the command amended
    ev = any(isinstance(c.func, ast.Attribute) and c.func.attr == "add" and ast.unparse(c.func.value).endswith("declared_again") for c in calls_in(ir.node))
    parents_ir = {}
    for n_ in ast.walk(ir.node):
        for c_ in ast.iter_child_nodes(n_):
            parents_ir[c_] = n_
    guarded = False
    for c in calls_in(ir.node):
        if isinstance(c.func, ast.Attribute) and c.func.attr == "add" and ast.unparse(c.func.value).endswith("declared_again"):
            node = c
            while node in parents_ir:
                node = parents_ir[node]
                if isinstance(node, ast.If):
                    guarded = True
    ctx.check(ev and guarded, ir.fq, "re-creating the row of a running step is recorded as an event", "only the value of the declaration is compared later: a step declared A, then B, then A again while it runs is taken for unchanged although each re-creation cut the inputs its command had amended", "graph.declared_again.add(self.i) when the old row was RUNNING")
    ctx.check(re.search(r"run\.step\.i in self\.workflow\.declared_again", rsrc) is not None and "declared_again.discard(run.step.i)" in rsrc, rs.fq, "the executor consults the event and clears it when the command has ended", "the event is not consulted (or never cleared: every later run of the step would be discarded)", "in declared_again ... discard")
    # what the replaced command was declared to write is recorded before the step is made pending (C07: it can be removed later)
    seq = [callee_name(c) for c in calls_in(rs.node)]
    rec = ctx.prog.func("executor.Executor._record_written_outputs")
    upd = [c for c in calls_in(rec.node) if callee_name(c) == "update_file_hashes"]
    rec_ok = bool(upd) and any(k.arg == "cause" and "FAILED" in ast.unparse(k.value) for k in upd[0].keywords) and _filters_by_state(rec.node, upd[0])
    ctx.check(rec_ok, rec.fq, "what a dropped run wrote is recorded with cause FAILED, for paths that are still outputs", "recorded with another cause, or for paths whose role changed while the hashes were computed (no such transition: ConsistencyError)", "role filter + cause=FAILED")
    # the outputs in question are detached by the re-creation: the lookups must see detached nodes
    for fq_ in ("executor.Executor._record_written_outputs", "executor.Executor._restart_if_declared_again"):
        f_ = ctx.prog.func(fq_)
        looks = [c for c in calls_in(f_.node) if callee_name(c) in ("find", "find_attached", "find_and_detached") and c.args and ast.unparse(c.args[0]) == "File"]
        blind = []
        for c in looks:
            tgt = ctx.prog.find_method(ctx.prog.cls("workflow.Workflow"), callee_name(c))
            if tgt is None or re.search(r"NOT\s+detached", ast.unparse(tgt.node)):
                blind.append(callee_name(c))
        ctx.check(bool(looks) and not blind, fq_, "the former outputs are looked up including detached nodes", f"lookup through {blind or 'nothing'}: the re-creation has detached the outputs the old command wrote, they are skipped, get no hash and stay on disk after the cleanup", "Trellis.find (no attachment filter)")
    ok_dyn = re.search(r"run\.step\.out_paths\(raw=True\)", rsrc) is not None
    ctx.check(ok_dyn, rs.fq, "the former outputs the re-created step is still linked to (amended ones included) are hashed as well", "only the outputs declared at launch are recorded: a file the replaced command declared with amend(out=...) stays on disk for ever", "out_paths(raw=True)")
    # ... and the request reaches the query: out_paths hands `raw` on, and _paths leaves out its attachment filter for it
    op_, pf_ = ctx.prog.func("step.Step.out_paths"), ctx.prog.func("step.Step._paths")
    fwd = any(callee_name(c) == "_paths" and any(k.arg == "raw" and isinstance(k.value, ast.Name) and k.value.id == "raw" for k in c.keywords) for c in calls_in(op_.node)) and any(a.arg == "raw" for a in op_.node.args.args + op_.node.args.kwonlyargs)
    ctx.check(fwd, op_.fq, "out_paths hands its `raw` argument on to _paths", "out_paths accepts raw= and ignores it: the former outputs of a re-created (attached) step are detached and are filtered out again, so what the replaced command had amended is never hashed and stays on disk", "raw=raw")
    lifts = any(isinstance(n, ast.If) and any(isinstance(x, ast.Name) and x.id == "raw" for x in ast.walk(n.test)) and any(isinstance(x, ast.Constant) and isinstance(x.value, str) and "NOT detached" in x.value for b in n.body for x in ast.walk(b)) for n in ast.walk(pf_.node))
    ctx.check(lifts, pf_.fq, "the attachment filter of _paths is left out for raw requests", "_paths adds NOT detached whatever `raw` says", "guarded by raw")
    ok_out = rec_ok and "_record_written_outputs" in seq and "compute_out_hashes" in rsrc and re.search(r"run\.launched_decl\[2\]", rsrc) is not None and seq.index("_record_written_outputs") < seq.index("set_state")
    ctx.check(ok_out, rs.fq, "the outputs the command was launched with are hashed and recorded before the restart", "the early return skips the output hashes: a file written by the replaced command under a path the new declaration no longer has keeps state PLANNED without hash, is forgotten at cleanup and stays on disk", "compute_out_hashes(launched outputs) -> update_file_hashes(cause=FAILED)")
    starts = [c for c in calls_in(ej.node) if isinstance(c.func, ast.Attribute) and c.func.attr == "discard" and ast.unparse(c.func.value).endswith("declared_again")]
    first_await = min((a.lineno for a in ast.walk(ej.node) if isinstance(a, ast.Await)), default=10 ** 9)
    ctx.check(len(starts) == 1 and starts[0].lineno < first_await, ej.fq, "a run starts without a note left by an earlier command of the step", "a note that survived an early exit discards the verdict of an unrelated later run (one needless execution)", "declared_again.discard(step.i) before the first await")
    dc = ctx.prog.func("executor.Executor._discard_check_if_declared_again")
    dsrc = re.sub(r"\s+", " ", ast.unparse(dc.node))
    ctx.check("step.i not in self.workflow.declared_again" in dsrc and "declared_again.discard(step.i)" in dsrc and any(callee_name(c) == "_reset_step_to_pending" for c in calls_in(dc.node)), dc.fq, "a hash check of a step that was declared again is dropped: hash deleted, step pending", "the check completes on hashes of the declaration that is gone", "consult, clear, _reset_step_to_pending")
    for fq_, final in (("executor.Executor.try_skip_job", "mark_completed"), ("executor.Executor.validate_dynamic_job", "set_state")):
        fj = ctx.prog.func(fq_)
        bad_path = None
        for tr, st in flow.paths_of(fj):
            calls_ = [e[1].split(".")[-1] for e in tr if e[0] == "call"]
            if final in calls_ and "_reset_step_to_pending" not in calls_ and "_finalize_failed_run" not in calls_:
                k = calls_.index(final)
                if "_discard_check_if_declared_again" not in calls_[:k]:
                    bad_path = [(e[1], e[2]) for e in tr if e[0] == "test"][-3:]
        ctx.check(bad_path is None, fq_, f"the verdict of the check ({final}) is only applied after asking whether the step was declared again", f"a path (last tests {bad_path}) lets the step off on the hashes of a declaration that was replaced while the check ran", "guarded", where=ctx.where_of(fj))
    # no window between the question and the verdict: each transaction that applies a verdict asks first, inside it
    dv = ctx.prog.func("executor.Executor._drop_verdict_if_declared_again")
    vsrc = re.sub(r"\s+", " ", ast.unparse(dv.node))
    ctx.check(not isinstance(dv.node, ast.AsyncFunctionDef) and "step.i not in self.workflow.declared_again" in vsrc and "declared_again.discard(step.i)" in vsrc and "step.delete_hash()" in vsrc and "step.set_state(StepState.PENDING)" in vsrc, dv.fq, "the in-transaction question is synchronous: consult, clear, delete the hash, make pending", "the helper awaits (a declaration can arrive in between) or no longer resets the step", "sync helper")
    for fq_, verdict in (("executor.Executor.execute_job", "mark_completed"), ("executor.Executor.try_skip_job", "mark_completed"), ("executor.Executor.validate_dynamic_job", "set_state")):
        fj = ctx.prog.func(fq_)
        bad = None
        n_v = 0
        for tr, st in flow.paths_of(fj):
            ks = [k for k, e in enumerate(tr) if e[0] == "call" and e[1].split(".")[-1] == verdict and (verdict != "set_state" or "StepState.PENDING" in ast.unparse(e[2]))]
            for k in ks:
                n_v += 1
                reg = flow.region_of(tr, k, lambda s_: s_.split(".")[-1] == "db")
                if reg is None:
                    bad = "verdict outside a transaction"
                    continue
                inside = tr[reg[0]:k]
                asked = any(e[0] == "call" and e[1].split(".")[-1] == "_drop_verdict_if_declared_again" for e in inside)
                awaited = any(e[0] == "await" and not e[1].startswith("<a") for e in inside)
                if not asked or awaited:
                    bad = f"asked in the same transaction: {asked}, await between: {awaited}"
        ctx.check(bad is None and n_v > 0, fq_, f"{verdict} is applied in a transaction that first asks whether the step was declared again", f"{bad}: while output hashes are computed in a thread (seconds for a large output) the creator can run again and replace the declaration; the verdict then lands on the new row, with the inputs the command amended cut off", "asked inside the verdict's transaction", where=ctx.where_of(fj))
    names = [callee_name(c) for c in calls_in(rs.node)]
    ctx.check("delete_hash" in names and any(callee_name(c) == "set_state" and c.args and ast.unparse(c.args[0]) == "StepState.PENDING" for c in calls_in(rs.node)) and "mark_completed" not in names, rs.fq, "a replaced declaration ends the run without a verdict: hash deleted, step pending", "the run is completed (or keeps its hash) although the declaration it ran for is gone", "delete_hash + set_state(PENDING)")
    dec = ctx.prog.func("executor.Executor._declaration")
    getters = {callee_name(c) for c in calls_in(dec.node)}
    ctx.check({"inp_paths", "env_deps", "out_paths", "vol_paths"} <= getters and "dynamic=False" in ast.unparse(dec.node), dec.fq, "the compared declaration is what can_recycle compares (initial inputs, variables, outputs, volatile outputs)", f"getters {sorted(getters)}", "four initial lists")


def rule_hold_counter(ctx):
    """R-C12-5: the open-hold counter only moves with hold()/release() of the running command, and is cleared only
    when the step stops RUNNING."""
    SS = ctx.prog.enum("StepState")
    direct = {}
    for st in ctx.sql.writers_of("step", "_holding", op="UPDATE"):
        direct.setdefault(st.site.func.fq, []).append(st)
    allowed = {"step.Step.hold": r"SET _holding = _holding \+ 1", "step.Step.release": r"SET _holding = _holding - 1 WHERE node = \? AND _holding > 0"}
    if not set(allowed) <= set(direct):
        raise AnalysisError(f"hold()/release() no longer write step._holding (writers: {sorted(direct)})")
    for fq, stmts in sorted(direct.items()):
        for stx in stmts:
            where = f"stepup/core/{stx.site.func.module.path.name}:{stx.site.lineno}"
            if fq in allowed:
                ctx.check(re.search(allowed[fq], _norm(stx.text)) is not None, fq, "counter moves by one (release only from a positive count)", f"statement: {_norm(stx.text)[:120]}", "±1", where=where)
            else:
                ctx.bad(fq, "UPDATE step._holding outside hold()/release()",
                        "the open-hold counter is overwritten by a function that is not tied to the running command's own hold()/release(): if the step is RUNNING inside a hold() block at that moment (a detached step keeps running and can be recycled), the steps it declared in the block are released before the block ends", where=where)
    trig = [t for t in ctx.cat.triggers.values() if re.search(r"UPDATE step SET _holding = 0", _norm(t.body))]
    ctx.check(len(trig) == 1 and trig[0].table == "step" and trig[0].op == "UPDATE" and "state" in trig[0].of_cols, "step.STEP_SCHEMA", "one trigger clears the counter, on a state change",
              f"{[t.name for t in trig]}", "step_reset_holding")
    if trig:
        tt = ctx.cat.truth_table(trig[0].when, {"NEW.state": [m.value for m in SS], "NEW._holding": [0, 1, 2]})
        wrong = [(stv, h) for (stv, h), v in tt.items() if bool(v) != (stv != SS.RUNNING.value and h != 0)]
        ctx.check(not wrong, f"trigger {trig[0].name}", "clears exactly when the new state is not RUNNING and the counter is non-zero", f"differs at {wrong[:3]}", f"{len(tt)} points")
    ins = [s for s in ctx.sql.stmts_in("step.Step.initialize_row") if s.kind == "INSERT" and re.search(r"INSERT INTO step\b", s.text)]
    dflt = ctx.cat.tables["step"].columns.get("_holding", {}).get("dflt")
    named = any(re.search(r"\b_holding\b", s.text.split("VALUES")[0].split("SELECT")[0]) for s in ins)
    ctx.check(bool(ins) and (named or str(dflt) == "0"), "step.Step.initialize_row", "a fresh step row starts with no open hold", f"default {dflt!r}", "0")
    dh = ctx.prog.func("director.DirectorHandler.hold_dispatch") if "director.DirectorHandler.hold_dispatch" in {f.fq for f in ctx.prog.all_functions()} else None
    if dh is not None:
        src = _norm(ast.unparse(dh.node))
        ctx.check(".hold()" in src, dh.fq, "the hold request reaches Step.hold of the calling step", "hold request no longer increments the counter", "hold()")


def rule_claims_replaced(ctx):
    """R-C12-7 (body in shared.check_claims_replaced; also claimed by C10)."""
    shared.check_claims_replaced(ctx)


def rule_pool_initialised(ctx):
    """R-C12-9: the pool of available resources is what the command line gives."""
    si = ctx.prog.func("scheduler.Scheduler.initialize")
    ok = any(callee_name(c) == "executemany" and c.args and ast.unparse(c.args[0]) == "INSERT_AVAILABLE_RESOURCE" and len(c.args) > 1 and "parse_resources(" in ast.unparse(c.args[1]) for c in calls_in(si.node))
    ctx.check(ok, si.fq, "the available units are inserted from the parsed --resources option", "the pool is never filled: every step that claims a resource is reported as unsatisfiable (or, with a stale table, admitted against the wrong pool)", "executemany(INSERT_AVAILABLE_RESOURCE, parse_resources(...))", where=ctx.where_of(si))
    emp = [c for c in calls_in(si.node) if callee_name(c) == "execute" and c.args and ast.unparse(c.args[0]) == "EMPTY_AVAILABLE_RESOURCE"]
    ctx.ok(si.fq, "the pool table is emptied first" if emp else "the pool table is not emptied (a fresh TEMP table per connection)", "EMPTY_AVAILABLE_RESOURCE")


RULES = [
    Rule("R-C12-11", "a step sheds what its previous run declared before it counts as running (a leftover declared inside a hold that was never released is otherwise dispatched: its creator is RUNNING with _holding = 0)", C11.rule_running_sheds_products, min_instances=5),
    Rule("R-C12-10", "a step declared again while running keeps its row and is run again afterwards", rule_redeclared_running_step, min_instances=24),
    Rule("R-C12-9", "the resource pool is initialised from the command line", rule_pool_initialised, min_instances=1),
    Rule("R-C12-8", "steps (re)attached inside a hold block are re-examined (hold clause relies on the _safe recomputation)", C10.rule_step_overrides, min_instances=8),
    Rule("R-C12-7", "resource claims are replaced on declaration", rule_claims_replaced, min_instances=7),
    Rule("R-C12-1", "tasks start only inside the slot budget", rule_slots, min_instances=8),
    Rule("R-C12-2", "commands are launched only inside the budget", rule_commands_in_budget, min_instances=10),
    Rule("R-C12-3", "resource check-then-claim is atomic and exact", rule_resources, min_instances=8),
    Rule("R-C12-4", "a checkable job cannot run a command", rule_checkable_no_command, min_instances=6),
    Rule("R-C12-5", "hold counter discipline", rule_hold_counter, min_instances=5),
    Rule("R-C12-6", "a running command keeps its row", rule_running_row_not_reset, min_instances=1),
]

MUTANTS = [
    Mutant("verdict-applied-without-asking", "executor.py", in_function("Executor.execute_job", lambda t: t.replace("            if self._drop_verdict_if_declared_again(step):\n                # Declared again while the hashes were computed: what the command wrote is\n                # recorded as after a failure, the verdict is dropped.\n                self._record_written_outputs(new_out_hashes)\n                self.scheduler.record_run_stopped(step.i, succeeded=False)\n                self._report_step_counts()\n                return\n", "", 1) if "Declared again while the hashes were computed" in t else None), ("R-C12-10",)),
    Mutant("skip-applied-without-asking", "executor.py", in_function("Executor.try_skip_job", replace_once("            if self._drop_verdict_if_declared_again(step):\n                self._report_step_counts()\n                return\n", "")), ("R-C12-10",)),
    Mutant("amended-outputs-of-replaced-command-forgotten", "executor.py", in_function("Executor._restart_if_declared_again", replace_once("            paths.update(record.path for record in run.step.out_paths(raw=True))\n", "")), ("R-C12-10",)),
    Mutant("checked-step-let-off-after-redeclaration", "executor.py", in_function("Executor.try_skip_job", replace_once("        if await self._discard_check_if_declared_again(step):\n            return\n", "")), ("R-C12-10",)),
    Mutant("checking-row-reset-by-redeclaration", "step.py", in_function("Step.initialize_row", lambda t: t.replace("        still_running = old_row is not None and old_row[0] in (\n            StepState.RUNNING.value,\n            StepState.CHECKING.value,\n        )\n", "        still_running = old_row is not None and old_row[0] == StepState.RUNNING.value\n", 1) if "StepState.CHECKING.value,\n        )" in t else None), ("R-C12-10",)),
    Mutant("stale-note-survives-early-exit", "executor.py", in_function("Executor.execute_job", replace_once("        self.workflow.declared_again.discard(step.i)\n", "")), ("R-C12-10",)),
    Mutant("redeclaration-compared-by-value-only", "step.py", in_function("Step.initialize_row", replace_once("        if still_running:\n            self.graph.declared_again.add(self.i)\n", "")), ("R-C12-10",)),
    Mutant("replaced-command-outputs-forgotten", "executor.py", in_function("Executor._restart_if_declared_again", replace_once("                self._record_written_outputs(result.new_hashes)\n", "                pass\n")), ("R-C12-10",)),
    Mutant("dropped-run-outputs-recorded-whatever-their-role", "executor.py", in_function("Executor._record_written_outputs", replace_once("        self.workflow.update_file_hashes(still_outputs, cause=HashUpdateCause.FAILED)\n", "        self.workflow.update_file_hashes(out_hashes, cause=HashUpdateCause.FAILED)\n")), ("R-C12-10",)),
    Mutant("dropped-run-outputs-recorded-as-succeeded", "executor.py", in_function("Executor._record_written_outputs", replace_once("cause=HashUpdateCause.FAILED", "cause=HashUpdateCause.SUCCEEDED")), ("R-C12-10",)),
    Mutant("dropped-run-outputs-looked-up-attached-only", "executor.py", in_function("Executor._record_written_outputs", replace_once("self.workflow.find(File, path)", "self.workflow.find_attached(File, path)")), ("R-C12-10",)),
    Mutant("replaced-command-outputs-looked-up-attached-only", "executor.py", in_function("Executor._restart_if_declared_again", replace_once("self.workflow.find(File, path)", "self.workflow.find_attached(File, path)")), ("R-C12-10",)),
    Mutant("raw-outputs-request-not-forwarded", "step.py", in_function("Step.out_paths", lambda t: __import__("re").sub(r"\braw=raw,\s*", "", t, count=1) if "raw=raw" in t else None), ("R-C12-10",)),
    Mutant("raw-request-still-filtered", "step.py", in_function("Step._paths", replace_once("if not (raw or self.is_detached()):", "if not self.is_detached():")), ("R-C12-10",)),
    Mutant("declared-again-never-cleared", "executor.py", in_function("Executor._restart_if_declared_again", replace_once("            self.workflow.declared_again.discard(run.step.i)\n", "")), ("R-C12-10",)),
    Mutant("redeclared-running-row-reset", "step.py", in_function("Step.initialize_row", replace_once('"state": old_row[0] if still_running else StepState.PENDING.value,', '"state": StepState.PENDING.value,')), ("R-C12-10",)),
    Mutant("redeclared-running-loses-holds", "step.py", in_function("Step.initialize_row", replace_once('"holding": old_row[1] if still_running else 0,', '"holding": 0,')), ("R-C12-10",)),
    Mutant("replaced-declaration-completes", "executor.py", in_function("Executor._restart_if_declared_again", replace_once("            if not declared_again and run.launched_decl == self._declaration(run.step):\n                return False\n", "            return False\n")), ("R-C12-10",)),
    Mutant("pool-never-filled", "scheduler.py", in_function("Scheduler.initialize", lambda t: __import__("re").sub(r"\n( +)self\.db\.executemany\(\s*INSERT_AVAILABLE_RESOURCE,[^\n]*(?:\n[^\n]*)*?\n\1\)\n|\n( +)self\.db\.executemany\(INSERT_AVAILABLE_RESOURCE,[^\n]*\)\n", lambda m: "\n" + (m.group(1) or m.group(2)) + "pass\n", t, count=1) if "INSERT_AVAILABLE_RESOURCE" in t else None), ("R-C12-9",)),
    Mutant("declared-none-keeps-old-claims", "workflow.py", in_function("Workflow.define_step", replace_once("        step.set_resources(resources)\n", "        if resources:\n            step.set_resources(resources)\n")), ("R-C12-7",)),
    Mutant("claims-merged-not-replaced", "step.py", in_function("Step.set_resources", lambda t: t.replace('"DELETE FROM step_resource WHERE node = ?", (self.i,)', '"DELETE FROM step_resource WHERE node = ? AND name NOT IN (SELECT value FROM json_each(?))", (self.i, "[]")', 1).replace('"INSERT INTO step_resource VALUES (?, ?, ?)"', '"INSERT INTO step_resource VALUES (?, ?, ?) ON CONFLICT DO NOTHING"', 1) if '"DELETE FROM step_resource WHERE node = ?", (self.i,)' in t else None), ("R-C12-7",)),
    Mutant("old-claims-kept", "step.py", in_function("Step.set_resources", replace_once('        self.db.execute("DELETE FROM step_resource WHERE node = ?", (self.i,))\n', "")), ("R-C12-7",)),
    Mutant("claims-not-stored", "step.py", in_function("Step.set_resources", replace_once('        self.db.executemany("INSERT INTO step_resource VALUES (?, ?, ?)", rows)\n', "")), ("R-C12-7",)),
    Mutant("recycle-clears-hold", "step.py", in_function("Step.after_recycle", replace_once('"UPDATE step SET need = ?, shell = ? WHERE node = ?"', '"UPDATE step SET need = ?, shell = ?, _holding = 0 WHERE node = ?"')), ("R-C12-5",)),
    Mutant("release-unguarded", "step.py", in_function("Step.release", replace_once("WHERE node = ? AND _holding > 0 ", "WHERE node = ? ")), ("R-C12-5",)),
    Mutant("reset-hold-always", "step.py", replace_once("WHEN NEW.state != {StepState.RUNNING.value} AND NEW._holding != 0", "WHEN NEW._holding != 0"), ("R-C12-5",)),
    Mutant("running-sum-attached-only", "scheduler.py", replace_once("              JOIN step AS s2 ON s2.node = r2.node\n              WHERE r2.name = req.name\n                AND s2.state = {StepState.RUNNING.value}\n", "              JOIN step AS s2 ON s2.node = r2.node\n              JOIN node AS n2 ON n2.i = r2.node\n              WHERE r2.name = req.name\n                AND s2.state = {StepState.RUNNING.value}\n                AND NOT n2.detached\n"), ("R-C12-3",)),
    Mutant("recycle-keeps-claims", "step.py", in_function("Step.after_recycle", replace_once("            self.graph.mark_step_pending(self)\n        self.set_resources(resources)\n", "            self.graph.mark_step_pending(self)\n            self.set_resources(resources)\n")), ("R-C12-3",)),
    Mutant("slot-le", "builder.py", in_function("Builder.job_loop", lambda s: s.replace("            if len(self.running_tasks) < self.njob:\n                job = await self.scheduler.pop_next_job()", "            if len(self.running_tasks) <= self.njob:\n                job = await self.scheduler.pop_next_job()") if "job = await self.scheduler.pop_next_job()" in s else None), ("R-C12-1",)),
    Mutant("start-outside-loop", "builder.py", in_function("Builder.run_promoted_hash_jobs", replace_once("                await self.executor.run_hash_job(job)\n", "                self.start_hash_task(job)\n")), ("R-C12-1",)),
    Mutant("skip-runs-command", "executor.py", in_function("Executor.try_skip_job", lambda s: s.replace("            await self._noskip(run, step_hash, new_hash)\n            await self._reset_step_to_pending(step)\n            # The output files must have been changed externally.", "            await self._noskip(run, step_hash, new_hash)\n            await self._run_command(run)\n            await self._reset_step_to_pending(step)\n            # The output files must have been changed externally.") if "# The output files must have been changed externally." in s else None), ("R-C12-2", "R-C12-4")),
    Mutant("resources-of-pending", "scheduler.py", replace_once("                AND s2.state = {StepState.RUNNING.value}\n", "                AND s2.state = {StepState.PENDING.value}\n"), ("R-C12-3",)),
    Mutant("resource-le", "scheduler.py", replace_once("      ) < req.units\n", "      ) <= req.units - 1 - 1\n"), ("R-C12-3",)),
    Mutant("undefined-resource-ok", "scheduler.py", replace_once("      avail.name IS NULL\n      OR (", "      0\n      OR ("), ("R-C12-3",)),
    Mutant("claim-after-region", "scheduler.py", in_function("Scheduler.pop_next_job", lambda s: s.replace("                step.reset_for_rerun()\n            step.set_state(state)\n", "                step.reset_for_rerun()\n        async with self.db:\n            step.set_state(state)\n") if "                step.reset_for_rerun()\n            step.set_state(state)\n" in s else None), ("R-C12-3",)),
    Mutant("bypass-marks-running", "scheduler.py", in_function("Scheduler._get_next_step", replace_once("state = StepState.CHECKING if has_hash else StepState.RUNNING", "state = StepState.RUNNING")), ("R-C12-4",)),
]

# shared with C11 (R-C11-6): replayed for this property's copy of the rule
MUTANTS += [Mutant("shared-" + m.name, m.file, m.transform, ("R-C12-11",), m.note) for m in C11.MUTANTS if m.name in ("running-keeps-old-products", "running-sheds-after-state", "checking-sheds-instead")]

VARIANTS = []

# a sketch of the F63/F64 repair (recording through state-selecting helpers): no rule of this property may alarm on it
VARIANTS += [shared.REPAIR_SKETCH_F63]
