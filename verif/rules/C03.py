"""C03 — a step only succeeds on inputs that were final while it ran (structural clauses)."""
from __future__ import annotations

import ast
import itertools
import re

from ..engine import finite, flow
from ..engine.mutate import Mutant, Variant, in_function, replace_once
from ..engine.runner import Rule
from ..engine.source import AnalysisError
from ..engine.sqlfront import all_where_clauses, identifiers, split_conjuncts
from . import C13
from . import C12
from . import shared
from .common import callee_name, calls_in, kwarg, norm_record_events

EXPLANATION = (
    "Static analysis of the input-availability and freshness mechanisms. The shared 'blocked input' predicate is "
    "identified by constant identity in dispatch and report and turned into a truth table over state x detached x "
    "dynamic, compared with the property's definition and cross-checked against Scheduler._derive_job's sanity "
    "branches by finite-domain interpretation. execute_job/_new_run/try_skip_job are path-enumerated for the "
    "hash-before / hash-after / fail-and-drain ordering and for the atomic completion region (no await between "
    "output hashes, mark_completed and the freshness clock). amend classification is interpreted over Availability; "
    "the three 'dynamic input unavailable' predicates (amend time, defer time, report time) are compared as tables; "
    "ran_concurrently's orientation and the pruning of stop times are checked by def-use. Decides these clauses, not "
    "the race windows themselves."
    ' Also: R-C03-9 the comparison after a command uses the hashes verified when the run started (stored on every path that lets the command start, never overridden, not filtered by the current state), amended inputs get their baseline when the request is accepted, read after the promoted hash jobs.'
    ' R-C03-11 the declared-again mechanism (R-C12-10): no verdict of a command or check is applied to a row that was re-created meanwhile.'
)
ASSUMPTIONS = ["single-threaded event loop: a region without await is atomic", "SHA-256 collision resistance (C13)"]

DBCTX = lambda s: s.split(".")[-1] == "db"  # noqa: E731


def _norm(s):
    return re.sub(r"\s+", " ", s).strip()


def rule_shared_predicate(ctx):
    """R-C03-1."""
    w = ctx.prog.fold("step", "UNAVAILABLE_INPUT_WHERE")
    for mod, const in (("scheduler", "RECOMPUTE_READY"), ("pending", "_INSERT_PEND_FILE_BLOCK")):
        text = ctx.prog.fold(mod, const)
        ctx.check(_norm(w) in _norm(text), f"{mod}.{const}", "embeds step.UNAVAILABLE_INPUT_WHERE", "the statement no longer embeds the shared blocked-input predicate: dispatch and report can disagree about what 'blocked' means", "shared constant")
    origin = ctx.prog.const_origin("pending", "UNAVAILABLE_INPUT_WHERE")
    ctx.check(origin == ("step", "UNAVAILABLE_INPUT_WHERE"), "pending", "UNAVAILABLE_INPUT_WHERE is imported from step", f"pending uses its own definition ({origin})", "imported")
    origin = ctx.prog.const_origin("scheduler", "unavailable_input_sql")
    ctx.check(origin == ("step", "unavailable_input_sql"), "scheduler", "unavailable_input_sql is imported from step", f"scheduler uses {origin}", "imported")


def _unavail_table(ctx):
    FS = ctx.prog.enum("FileState")
    w = ctx.prog.fold("step", "UNAVAILABLE_INPUT_WHERE")
    dom = {"input_file.state": [s.value for s in FS], "input_node.detached": [0, 1], "dynamic_dep.i": [None, 7]}
    return ctx.cat.truth_table(w, dom), FS


def rule_predicate_meaning(ctx):
    """R-C03-2."""
    tt, FS = _unavail_table(ctx)
    avail = {FS.BUILT.value, FS.CONFIRMED.value}
    wrong = []
    for (st, det, dyn), v in tt.items():
        if st == FS.VOLATILE.value:
            exp = True
        elif dyn is None:
            exp = bool(det) or st not in avail
        else:
            exp = (not det) and st in (FS.PLANNED.value, FS.OUTDATED.value)
        if bool(v) != exp:
            wrong.append((FS(st).name, det, "dynamic" if dyn else "initial", bool(v)))
    ctx.check(not wrong, "step.UNAVAILABLE_INPUT_WHERE", "initial: detached ∨ state ∉ {BUILT, CONFIRMED}; dynamic: attached ∧ PLANNED/OUTDATED; VOLATILE always",
              f"truth table differs at {wrong[:4]}: a step can start before an input is available", f"{len(tt)} points", points=len(tt))
    # cross-check with _derive_job: whatever the SQL lets through never reaches a ConsistencyError
    dj = ctx.prog.func("scheduler.Scheduler._derive_job")
    bad = []
    for (st, det, dyn), v in tt.items():
        if v:
            continue
        fp = finite.feasible_paths(ctx.prog, dj, {"detached": bool(det), "is_dynamic": dyn is not None}, {"FileState(fs_value)": FS(st)})
        for tr, status in fp:
            if status == "raise" and any(e[0] == "raise" and "ConsistencyError" in e[1] for e in tr):
                bad.append((FS(st).name, det, dyn is not None))
    ctx.check(not bad, dj.fq, "no dispatchable input combination reaches a ConsistencyError", f"the dispatch predicate lets through {sorted(set(bad))[:4]}, which _derive_job rejects as internal error", "consistent with the SQL predicate")
    # ready inputs are exactly attached BUILT/CONFIRMED
    src = _norm(ast.unparse(dj.node))
    ctx.check("if not detached and file_state in (FileState.BUILT, FileState.CONFIRMED): inp_hashes[path] = FileHash.from_json(hash_value)" in src, dj.fq, "hashes are collected for attached BUILT/CONFIRMED inputs only", "the set of inputs whose hash is collected changed", "attached BUILT/CONFIRMED")


def rule_hash_before_after(ctx):
    """R-C03-3."""
    fi = ctx.prog.func("executor.Executor.execute_job")
    paths = flow.paths_of(fi)
    for tr, st in paths:
        names = [(k, e[1].split(".")[-1]) for k, e in enumerate(tr) if e[0] == "call"]
        idx = {n: k for k, n in reversed(names)}
        restarted = any(e[0] == "test" and ("_restart_if_declared_again" in e[1] or "_drop_verdict_if_declared_again" in e[1]) and e[2] is True for e in tr)
        dropped_late = any(e[0] == "test" and "_drop_verdict_if_declared_again" in e[1] and e[2] is True for e in tr)
        if "_run_command" in idx and restarted:
            # declared again while running: the verdict is discarded, the step is made pending again without a hash
            pre = ["record_run_started", "_new_run", "reset_for_rerun", "_run_command", "_restart_if_declared_again"] + (["_compute_full_step_hash", "_drop_verdict_if_declared_again"] if dropped_late else [])
            pos = [idx.get(n) for n in pre]
            ctx.check(all(p is not None for p in pos) and pos == sorted(pos) and "mark_completed" not in idx, fi.fq, "a run whose declaration was replaced ends without a verdict", f"order {[n for _, n in names if n in pre or n == 'mark_completed']}", "restart after the command, no completion", where=ctx.where_of(fi))
        elif "_run_command" in idx:
            order = ["record_run_started", "_new_run", "reset_for_rerun", "_run_command", "_compute_full_step_hash", "_classify_execution", "mark_completed"]
            pos = [idx.get(n) for n in order]
            ok = all(p is not None for p in pos) and pos == sorted(pos)
            ctx.check(ok, fi.fq, "start time -> input re-hash -> reset -> command -> full re-hash -> classify -> complete", f"order on the run path is {[n for _, n in names if n in order]}", "order kept", where=ctx.where_of(fi))
            tests = [(e[1], e[2]) for e in tr[:idx["_run_command"]] if e[0] == "test"]
            ctx.check(("new_hash is None", False) in tests, fi.fq, "the command runs only when the input re-hash succeeded", "command can run after a failed input re-hash", "guarded by new_hash is None -> return")
        drains = [k for k, e in enumerate(tr) if e[0] == "call" and e[1].endswith("_drain_for_unexpected_input_changes")]
        tests_all = [(e[1], e[2]) for e in tr if e[0] == "test"]
        if ("unexpected_input_changes", True) in tests_all:
            ctx.check(bool(drains), fi.fq, "unexpected input change drains the scheduler", "inputs changed under a running step but dispatch continues", "drained")
    src = _norm(ast.unparse(fi.node))
    ctx.check("unexpected_input_changes = len(new_inp_hashes) > 0" in src, fi.fq, "unexpected change = any input hash differs after the command", "definition changed", "ok")
    # _classify_execution table
    ce = ctx.prog.func("executor.Executor._classify_execution")
    for unexp, wants, succ in itertools.product((True, False), (True, False), (True, False)):
        ov = {"len(run.unavailable) > 0 or len(run.unfresh) > 0": wants, "run.success": succ}
        fp = finite.feasible_paths(ctx.prog, ce, {"unexpected_input_changes": unexp}, ov)
        for tr, status in fp:
            tr = norm_record_events(ctx.prog, tr)
            nulls = any(e[0] == "assign" and e[1] == "new_hash" and e[2] == "None" for e in tr)
            wd_false = any(e[0] == "assign" and e[1] == "wants_defer" and e[2] == "False" for e in tr)
            upd = any(e[0] == "call" and e[1].endswith("update_file_hashes") and "HashUpdateCause.FAILED" in ast.unparse(e[2]) for e in tr)
            if unexp:
                ok = nulls and wd_false and upd
                exp = "no hash, no defer, inputs re-recorded under FAILED"
            elif wants or not succ:
                ok = nulls
                exp = "no hash"
            else:
                ok = not nulls
                exp = "hash kept"
            ctx.check(ok, ce.fq, f"unexpected={unexp} wants_defer={wants} success={succ}", f"classification differs (expected: {exp})", exp)
    # _new_run: changed inputs => FAILED update + finalize + drain; returns None
    nr = ctx.prog.func("executor.Executor._new_run")
    nr_paths = []
    for unexp in (True, False):
        nr_paths += finite.feasible_paths(ctx.prog, nr, {}, {"len(new_inp_hashes) > 0": unexp})
    for tr, st in nr_paths:
        tests = [(e[1], e[2]) for e in tr if e[0] == "test"]
        if ("new_step_hash is not None", False) in tests:
            fin = any(e[0] == "call" and e[1].endswith("_finalize_failed_run") for e in tr)
            ret_none = any(e[0] == "return" and "None" in e[1] for e in tr)
            ctx.check(fin and ret_none, nr.fq, "failed input re-hash finalizes the run as failed and returns no hash", "a failed input re-hash is not recorded as failure", "finalized")
            if ("unexpected_input_changes", True) in tests:
                tr = norm_record_events(ctx.prog, tr)
                upd = any(e[0] == "call" and e[1].endswith("update_file_hashes") and "FAILED" in ast.unparse(e[2]) for e in tr)
                dr = any(e[0] == "call" and e[1].endswith("_drain_for_unexpected_input_changes") for e in tr)
                ctx.check(upd and dr, nr.fq, "changed inputs are re-recorded and the scheduler drains", "changed inputs before the command do not stop dispatch", "update + drain")
    ff = ctx.prog.func("executor.Executor._finalize_failed_run")
    ctx.check("run.step.mark_completed(None, False)" in ast.unparse(ff.node), ff.fq, "records failure without hash", "failed run can be recorded with a hash", "mark_completed(None, False)")
    dr = ctx.prog.func("executor.Executor._drain_for_unexpected_input_changes")
    ctx.check("self.scheduler.draining = True" in ast.unparse(dr.node), dr.fq, "sets scheduler.draining", "drain helper no longer drains", "draining = True")
    for fq in ("executor.Executor.try_skip_job", "executor.Executor.validate_dynamic_job"):
        f2 = ctx.prog.func(fq)
        for tr, st in flow.paths_of(f2):
            tests = [(e[1], e[2]) for e in tr if e[0] == "test"]
            if ("new_hash is None", True) in tests[:1] or (tests and tests[0] == ("new_hash is None", True)):
                later = [e for e in norm_record_events(ctx.prog, tr) if e[0] == "call" and e[1].split(".")[-1] in ("mark_completed", "set_state", "update_file_hashes")]
                ctx.check(not later, fq, "a failed input re-hash ends the job without touching the step", "job continues after a failed input re-hash", "early return")


def _mentions(node, pred):
    return any(pred(n) for n in ast.walk(node))


def _is_run_attr(n, attr):
    return isinstance(n, ast.Attribute) and n.attr == attr and isinstance(n.value, ast.Name) and n.value.id == "run"


def rule_after_baseline(ctx):
    """R-C03-9: the hashes an input is compared with after the command are the ones verified when the run started."""
    nr = ctx.prog.func("executor.Executor._new_run")
    params = {a.arg for a in nr.node.args.args}
    ctx.check("inp_hashes" in params, nr.fq, "receives the dispatch-time input hashes", "parameter inp_hashes is gone", "parameter present")
    # (a) _new_run stores the verified hashes on the run, on the path that returns a hash
    attrs = []
    for n in ast.walk(nr.node):
        if isinstance(n, (ast.Assign, ast.AnnAssign)):
            tgts = n.targets if isinstance(n, ast.Assign) else [n.target]
            for t in tgts:
                if isinstance(t, ast.Attribute) and isinstance(t.value, ast.Name) and t.value.id == "run" and n.value is not None and _mentions(n.value, lambda m: isinstance(m, ast.Name) and m.id == "inp_hashes"):
                    attrs.append((t.attr, n))
    ctx.check(len(attrs) == 1, nr.fq, "the hashes verified before the command are kept on the run", f"found {len(attrs)} assignments of the verified input hashes to the run; the comparison after the command then falls back to whatever the database says by then", "one assignment")
    attr, asg = attrs[0] if len(attrs) == 1 else ("<none>", None)
    ok_path, paths_seen = True, 0
    for tr, st in finite.feasible_paths(ctx.prog, nr, {}, {"new_step_hash is not None": True}):
        tests = [(e[1], e[2]) for e in tr if e[0] == "test"]
        if ("new_step_hash is not None", True) in tests:
            paths_seen += 1
            if not any(e[0] == "assign" and e[1] == f"run.{attr}" for e in tr):
                ok_path = False
    guard = None
    for n in ast.walk(nr.node):
        if asg is not None and isinstance(n, ast.If) and any(asg is m for b in n.body for m in ast.walk(b)):
            guard = _norm(ast.unparse(n.test))
    ctx.check(asg is not None and ok_path and paths_seen > 0 and guard in (None, "new_step_hash is not None"), nr.fq, "stored on every path that lets the command start", f"the assignment to run.{attr} is guarded by {guard!r}", "stored when the input re-hash succeeded")
    # (b) _compute_full_step_hash: the 'before' mapping handed to compute_both_hashes prefers run.<attr>
    cf = ctx.prog.func("executor.Executor._compute_full_step_hash")
    first = None
    for c in calls_in(cf.node):
        nm = callee_name(c)
        if nm and nm.split(".")[-1] == "compute_both_hashes" and c.args:
            first = c.args[0]
        if nm and nm.split(".")[-1] == "partial" and c.args and isinstance(c.args[0], ast.Name) and c.args[0].id == "compute_both_hashes" and len(c.args) > 1:
            first = c.args[1]
    ctx.check(isinstance(first, ast.Name), cf.fq, "compute_both_hashes receives the 'before' input hashes by name", "call shape not recognised", "recognised")
    if not isinstance(first, ast.Name):
        raise AnalysisError(f"{cf.fq}: compute_both_hashes call not found")
    var = first.id
    run_attr = lambda m: _is_run_attr(m, attr)  # noqa: E731
    stores = []  # (kind, value node, prefers_run)

    def visit(stmts, guards):
        for stx in stmts:
            if isinstance(stx, ast.If):
                visit(stx.body, guards + [(stx.test, True)])
                visit(stx.orelse, guards + [(stx.test, False)])
                continue
            if isinstance(stx, (ast.For, ast.AsyncFor, ast.While, ast.With, ast.AsyncWith, ast.Try)):
                for fld in ("body", "orelse", "finalbody"):
                    visit(getattr(stx, fld, []) or [], guards)
                for h in getattr(stx, "handlers", []) or []:
                    visit(h.body, guards)
                continue
            if isinstance(stx, ast.Assign):
                for t in stx.targets:
                    if isinstance(t, ast.Name) and t.id == var:
                        stores.append(("bind", stx.value, guards))
                    if isinstance(t, ast.Subscript) and isinstance(t.value, ast.Name) and t.value.id == var:
                        stores.append(("item", stx.value, guards))
            if isinstance(stx, ast.Expr) and isinstance(stx.value, ast.Call) and isinstance(stx.value.func, ast.Attribute) and isinstance(stx.value.func.value, ast.Name) and stx.value.func.value.id == var and stx.value.func.attr == "update":
                stores.append(("update", stx.value, guards))

    visit(cf.node.body, [])
    ctx.check(bool(stores), cf.fq, f"writes to {var} found", "no write found", f"{len(stores)} writes")

    def membership_guard(guards):
        """+1 if the guards say 'path in run.attr', -1 if they say 'not in', 0 otherwise."""
        for test, pol in guards:
            if isinstance(test, ast.Compare) and len(test.ops) == 1 and _mentions(test.comparators[0], run_attr):
                if isinstance(test.ops[0], ast.In):
                    return 1 if pol else -1
                if isinstance(test.ops[0], ast.NotIn):
                    return -1 if pol else 1
        return 0

    def value_prefers_run(v):
        # run.attr[k], run.attr.get(k, fallback), IfExp(k in run.attr, run.attr[k], fallback), or inside a comprehension
        for m in ast.walk(v):
            if isinstance(m, ast.Call) and isinstance(m.func, ast.Attribute) and m.func.attr == "get" and run_attr(m.func.value):
                return True
            if isinstance(m, ast.IfExp) and isinstance(m.test, ast.Compare) and _mentions(m.test, run_attr):
                op = m.test.ops[0]
                arm = m.body if isinstance(op, ast.In) else m.orelse
                if _mentions(arm, run_attr):
                    return True
        return False

    db_stores = []
    run_stores = []
    for k, (kind, v, guards) in enumerate(stores):
        uses_run = _mentions(v, run_attr)
        mg = membership_guard(guards)
        if kind == "item" and uses_run and mg >= 0:
            run_stores.append(k)
        elif kind in ("bind", "update") and uses_run and (value_prefers_run(v) or kind == "update"):
            run_stores.append(k)
        elif kind == "bind" and isinstance(v, (ast.Dict, ast.Call)) and not _mentions(v, lambda m: isinstance(m, ast.Attribute) and m.attr == "hash") and not isinstance(v, ast.DictComp):
            continue  # empty initialisation
        else:
            db_stores.append((k, mg, uses_run))
    # an input that was verified at run start is compared whatever its state is now: a state filter on the run-start
    # arm drops exactly the inputs that vanished or were outdated while the command ran
    def state_filtered(k):
        kind, v, guards = stores[k]
        def narrows(cond):
            return _mentions(cond, lambda x: isinstance(x, ast.Attribute) and x.attr == "state") and not (isinstance(cond, ast.BoolOp) and isinstance(cond.op, ast.Or) and any(_mentions(o, run_attr) for o in cond.values))

        if any(narrows(t) and pol for t, pol in guards):
            return True
        for m in ast.walk(v):
            if isinstance(m, (ast.DictComp, ast.ListComp, ast.GeneratorExp, ast.SetComp)):
                for g in m.generators:
                    for cond in g.ifs:
                        if _mentions(cond, lambda x: isinstance(x, ast.Attribute) and x.attr == "state") and not (isinstance(cond, ast.BoolOp) and isinstance(cond.op, ast.Or) and any(_mentions(o, run_attr) for o in cond.values)):
                            return True
        return False

    for k in run_stores:
        ctx.check(not state_filtered(k), cf.fq, "the run-start arm is not filtered by the current state of the input", f"write #{k} to {var} takes the run-start hash only for inputs that are still BUILT/CONFIRMED: an input that another step has meanwhile recorded as MISSING or OUTDATED is neither re-checked nor part of the new step hash, and the step succeeds", "no state test on the run-start arm", where=ctx.where_of(cf, stores[k][1]))
    ctx.check(bool(run_stores), cf.fq, f"{var} takes values from run.{attr}", f"the 'before' hashes never come from run.{attr}: an input whose record another step updated while this command ran is compared with the updated hash and the step succeeds on content it did not read", "run-start hashes used")
    for k, mg, uses_run in db_stores:
        later_override = any(j > k and stores[j][0] in ("update", "item") and j in run_stores and membership_guard(stores[j][2]) >= 0 and not stores[j][2] for j in range(len(stores)))
        ctx.check(mg == -1 or later_override, cf.fq, "a hash read from the database is used only for inputs that were not verified at run start", f"write #{k} to {var} takes the database record also for inputs listed in run.{attr}", "database hash is the fallback only", where=ctx.where_of(cf, stores[k][1]))
    # (d) inputs accepted while the command runs (amend) get their baseline when they are accepted
    am = ctx.prog.func("director.DirectorHandler.amend_step")
    writers = []
    for fi2 in ctx.prog.module("executor").all_funcs.values():
        if fi2.fq in (nr.fq, cf.fq):
            continue
        for n in ast.walk(fi2.node):
            if isinstance(n, ast.Attribute) and n.attr == attr and isinstance(n.value, ast.Name) and n.value.id == "run":
                par_calls = [c for c in calls_in(fi2.node) if isinstance(c.func, ast.Attribute) and c.func.value is n and c.func.attr in ("update", "setdefault", "pop", "popitem", "clear", "__setitem__")]
                stores = [a for a in ast.walk(fi2.node) if isinstance(a, ast.Assign) and any(isinstance(t, ast.Subscript) and t.value is n for t in a.targets)]
                if par_calls or stores:
                    writers.append((fi2, [c.func.attr for c in par_calls], bool(stores)))
    keep_first = [w for w in writers if "setdefault" in w[1] and not w[2] and "update" not in w[1]]
    called = {callee_name(c) for c in calls_in(am.node)}
    via = [w[0].name for w in keep_first if w[0].name in called]
    ctx.check(bool(via), am.fq, f"amended inputs are added to run.{attr} when they are accepted", f"amend_step calls no executor method that records run.{attr} (writers found: {[(w[0].fq, w[1]) for w in writers]}): an input amended by a running step is compared, after the command, with whatever the database says by then, so a change noticed by another step in between goes unseen and the step succeeds on content it did not read", f"through {via}", where=ctx.where_of(am))
    ctx.check(all("setdefault" in w[1] and not w[2] and "update" not in w[1] for w in writers), "executor", f"later writers of run.{attr} keep the first hash of a path", f"a writer overrides hashes recorded earlier: {[(w[0].fq, w[1], w[2]) for w in writers]}", "setdefault only")
    if via:
        # what is recorded are the hashes of available inputs, read inside a transaction
        srcs = [ast.unparse(c) for c in calls_in(am.node) if callee_name(c) in via]
        ctx.check(any("inp_paths()" in ast.unparse(am.node) and ("FileState.BUILT" in ast.unparse(am.node)) for _ in srcs), am.fq, "the recorded hashes are those of the step's available inputs", "source of the recorded hashes not recognised", "step.inp_paths() filtered on BUILT/CONFIRMED")
    if via:
        # ... and they are read after the last point of the handler at which inputs can still change state:
        # an amended input that is UNCONFIRMED on arrival is hashed by run_promoted_hash_jobs; a snapshot taken before
        # that await leaves it out, and the check after the command falls back to the database for it
        n_paths = 0
        for tr, st in flow.paths_of(am):
            calls = [(k, e[1].split(".")[-1]) for k, e in enumerate(tr) if e[0] == "call"]
            notes = [k for k, nm in calls if nm in via]
            if not notes:
                continue
            promoted = [k for k, nm in calls if nm == "run_promoted_hash_jobs"]
            reads = [k for k, nm in calls if nm == "inp_paths" and k < notes[-1]]
            n_paths += 1
            if promoted and not (reads and reads[-1] > promoted[-1]):
                ctx.bad(am.fq, "the baseline is read after the promoted hash jobs of the same request", "the hashes are read before run_promoted_hash_jobs: an amended input that was UNCONFIRMED on arrival (a match of a static tree) gets no baseline, so a change that another step notices while this one runs goes unseen", where=ctx.where_of(am))
                break
        else:
            ctx.check(n_paths > 0, am.fq, "the baseline is read after the promoted hash jobs of the same request", "no path records a baseline", f"{n_paths} paths")
    # (e) the baseline only holds inputs the step is given: the job is derived before reset_for_rerun drops the inputs an
    #     earlier run amended, so those are pruned right after the reset, in the same transaction
    ej = ctx.prog.func("executor.Executor.execute_job")
    ok_prune = False
    for tr, st in flow.paths_of(ej):
        k = [i for i, e in enumerate(tr) if e[0] == "call" and e[1] == "step.reset_for_rerun"]
        if not k:
            continue
        reg = flow.region_of(tr, k[0], lambda s_: s_.split(".")[-1] == "db")
        if reg is None:
            continue
        inside = tr[k[0]:reg[1]]
        reads_inputs = any(e[0] == "call" and e[1].split(".")[-1] == "inp_paths" for e in inside)
        rebinds = any(e[0] == "assign" and e[1] == f"run.{attr}" and f"run.{attr}" in e[2] for e in inside)
        if reads_inputs and rebinds:
            ok_prune = True
    ctx.check(ok_prune, ej.fq, f"after the reset, run.{attr} is narrowed to the inputs the step still has", f"entries for inputs that the reset dropped stay in run.{attr}: when the step amends such an input again, after its producer has rebuilt it, the old hash is taken for what the step read, the step is failed with 'Input changed unexpectedly' and the scheduler drains (with -j 1 the same history succeeds)", "narrowed in the transaction of the reset", where=ctx.where_of(ej))
    # (c) the Run field starts empty, so a run that never passed _new_run falls back to the database
    rn = ctx.prog.cls("run.Run") if hasattr(ctx.prog, "cls") else None
    if rn is not None and asg is not None:
        fields = [n for n in rn.node.body if isinstance(n, ast.AnnAssign) and isinstance(n.target, ast.Name) and n.target.id == attr]
        ctx.check(len(fields) == 1, "run.Run", f"field {attr} declared", "field missing", "declared")


def rule_atomic_completion(ctx):
    """R-C03-4."""
    fi = ctx.prog.func("executor.Executor.execute_job")
    n = 0
    for tr, st in flow.paths_of(fi):
        mc = [k for k, e in enumerate(tr) if e[0] == "call" and e[1] == "step.mark_completed"]
        for k in mc:
            n += 1
            reg = flow.region_of(tr, k, DBCTX)
            if reg is None:
                ctx.bad(fi.fq, "completion inside one transaction", "mark_completed outside `async with db`", where=ctx.where_of(fi))
                continue
            inside = norm_record_events(ctx.prog, tr[reg[0] + 1:reg[1]])
            names = [e[1].split(".")[-1] for e in inside if e[0] == "call"]
            need = ["_classify_execution", "update_file_hashes", "mark_completed", "record_run_stopped"]
            pos = [names.index(x) if x in names else None for x in need]
            aw = [e for e in inside if e[0] == "await" and not e[1].startswith("<a")]
            ok = all(p is not None for p in pos) and pos == sorted(pos) and not aw
            ctx.check(ok, fi.fq, "output hashes, mark_completed and the freshness clock in one region without await", f"calls in region: {[x for x in names if x in need]}, awaits inside: {len(aw)}: a consumer can observe BUILT outputs before the producer's stop time exists", "atomic", where=ctx.where_of(fi))
    if n == 0:
        raise AnalysisError("execute_job no longer calls mark_completed")
    src = _norm(ast.unparse(fi.node))
    ctx.check("self.scheduler.record_run_stopped(step.i, succeeded=new_hash is not None)" in src, fi.fq, "stop time recorded iff the step succeeded", "record_run_stopped argument changed", "succeeded=new_hash is not None")
    causes = {ast.unparse(kwarg(e[2], "cause")) for tr, st in flow.paths_of(fi) for e in norm_record_events(ctx.prog, tr) if e[0] == "call" and e[1].endswith("update_file_hashes") and kwarg(e[2], "cause") is not None}
    ctx.check("HashUpdateCause.SUCCEEDED if run.success else HashUpdateCause.FAILED" in causes, fi.fq, "output hash cause follows run.success", "cause selection changed", "ok")


def rule_amend_classification(ctx):
    """R-C03-5."""
    Av, FS = ctx.prog.enum("Availability"), ctx.prog.enum("FileState")
    fi = ctx.prog.func("workflow.Workflow.amend_step")
    for av, st in itertools.product(Av, (FS.BUILT, FS.CONFIRMED)):
        fp = finite.feasible_paths(ctx.prog, fi, {}, {"info.availability": av, "info.state": st})
        seen = set()
        for tr, status in fp:
            if not any(e[0] == "loop" and e[1] == "infos" and e[2] == 1 for e in tr):
                continue
            adds = tuple(sorted({e[1] for e in tr if e[0] == "call" and e[1] in ("unavailable.add", "unconfirmed.add", "unfresh.add")}))
            consult = any(e[0] == "call" and e[1] == "ran_concurrently" for e in tr)
            seen.add((adds, consult))
        if av == Av.UNAVAILABLE:
            ok = all("unavailable.add" in a for a, _ in seen)
            exp = "recorded as unavailable"
        elif av == Av.UNCONFIRMED:
            ok = all("unconfirmed.add" in a and "unavailable.add" not in a for a, _ in seen)
            exp = "queued for confirmation"
        elif st == FS.BUILT:
            ok = any(c for _, c in seen) and all("unavailable.add" not in a for a, _ in seen)
            exp = "freshness consulted"
        else:
            ok = all(not a for a, _ in seen)
            exp = "accepted"
        ctx.check(ok, fi.fq, f"availability={av.name} state={st.name}", f"amend classification: {sorted(seen)} (expected: {exp})", exp)
    src = _norm(ast.unparse(fi.node))
    ctx.check("if isinstance(producer, Step) and ran_concurrently(producer.i, step.i): unfresh.add(info.file.path)" in src, fi.fq, "ran_concurrently(producer, consumer) decides freshness", "argument order or consequence of the freshness test changed", "producer.i, step.i")
    dh = ctx.prog.func("director.DirectorHandler.amend_step")
    src = _norm(ast.unparse(dh.node))
    ctx.check("ran_concurrently=self.scheduler.ran_concurrently" in src, dh.fq, "freshness oracle is the scheduler's", "another oracle is passed", "scheduler.ran_concurrently")
    ctx.check("if file.get_state() not in (FileState.CONFIRMED, FileState.BUILT): unavailable.add(path)" in src, dh.fq, "confirmed-but-missing inputs join unavailable", "inputs still unavailable after confirmation are accepted", "re-read after hash jobs")
    ctx.check("carry_on = len(unavailable) == 0 and len(unfresh) == 0" in src, dh.fq, "carry_on iff nothing unavailable or unfresh", "carry_on definition changed", "ok")
    guarded_defer = False
    for tr, st in flow.paths_of(dh):
        tests = [(e[1], e[2]) for e in tr if e[0] == "test"]
        if ("carry_on", False) in tests or ("not carry_on", True) in tests:
            d = any(e[0] == "call" and e[1] == "self.executor.defer" for e in tr)
            guarded_defer = guarded_defer or d
            ctx.check(d, dh.fq, "not carry_on => executor.defer", "a step with unavailable inputs is not deferred", "defer called")
        chk = [k for k, e in enumerate(tr) if e[0] == "call" and e[1].endswith("run_promoted_hash_jobs")]
        if chk and any(e[0] == "loop" and e[1] == "checked_paths" and e[2] == 1 for e in tr):
            reread = [k for k, e in enumerate(tr) if e[0] == "call" and e[1] == "file.get_state" and k > chk[0]]
            ctx.check(bool(reread), dh.fq, "states are re-read after the promoted hash jobs", "UNCONFIRMED inputs are not re-examined after confirmation", "re-read")
    ctx.check(guarded_defer, dh.fq, "a branch on carry_on that defers exists", "amend_step never defers the running step: it succeeds although an amended input is unavailable or unfresh", "present")
    ed = ctx.prog.func("executor.Executor.defer")
    src = _norm(ast.unparse(ed.node))
    ctx.check("run.success = False" in src and "run.unavailable.update(unavailable)" in src and "run.unfresh.update(unfresh)" in src, ed.fq, "defer marks the run unsuccessful and records the reasons", "defer no longer prevents success", "ok")


def rule_defer_keeps_wakeable(ctx):
    """R-C03-6."""
    fi = ctx.prog.func("step.Step.mark_completed")
    n = 0
    SS = ctx.prog.enum("StepState")
    for tr, st in finite.feasible_paths(ctx.prog, fi, {}, {"self.get_state()": SS.PENDING}):
        for k, e in enumerate(tr):
            if e[0] == "call" and e[1] == "self.set_state" and "StepState.PENDING" in ast.unparse(e[2]):
                n += 1
                call = e[2]
                ok = len(call.args) == 2 and ast.unparse(call.args[1]) == "deferred"
                d = [x for x in tr[:k] if x[0] == "assign" and x[1] == "deferred"]
                ok = ok and bool(d) and d[-1][2] == "self.has_unavailable_dynamic_input()"
                det = any(x[0] == "call" and x[1] == "self._detach_created_steps" for x in tr)
                ctx.check(ok and not det, fi.fq, "accepted defer: PENDING with deferred = has_unavailable_dynamic_input(), created steps stay attached",
                          "an accepted defer parks the step with a wrong deferred flag or detaches its products (the edge that wakes it is lost)", "ok", where=ctx.where_of(fi, call))
    if n == 0:
        raise AnalysisError("no accepted-defer branch in mark_completed")
    shared.check_reattach_wakes_deferred(ctx, "a step parked on a detached dynamic input stays parked when the producer is recycled and the input is attached again (no file state changes): it is never run again and its output stays stale")
    ms = ctx.prog.func("workflow.Workflow.mark_step_pending")
    ok = any(callee_name(c) == "set_state" and len(c.args) == 1 and ast.unparse(c.args[0]) == "StepState.PENDING" and not c.keywords for c in calls_in(ms.node))
    ctx.check(ok, ms.fq, "re-pending clears deferred (default argument)", "mark_step_pending passes a deferred value: a woken step stays parked", "set_state(PENDING)")
    ss = ctx.prog.func("step.Step.set_state")
    a = ss.node.args
    ok = len(a.defaults) == 1 and isinstance(a.defaults[0], ast.Constant) and a.defaults[0].value is False
    ctx.check(ok, ss.fq, "deferred defaults to False", "Step.set_state default for deferred changed", "False")
    st = [s for s in ctx.sql.stmts_in(ss.fq) if s.kind == "UPDATE"]
    ctx.check(any(re.search(r"SET state = \? , deferred = \?", s.text) for s in st), ss.fq, "state and deferred are written together", "deferred is no longer written with the state", "one UPDATE")


def rule_freshness(ctx):
    """R-C03-7."""
    fi = ctx.prog.func("scheduler.Scheduler.ran_concurrently")
    params = [p for p in fi.params() if p != "self"]
    src = _norm(ast.unparse(fi.node))
    ok = (f"stop_time = self.stop_times.get({params[0]})" in src and f"start_time = self.start_times.get({params[1]})" in src
          and "return stop_time is not None and start_time is not None and (start_time <= stop_time)" in src.replace("start_time <= stop_time", "(start_time <= stop_time)").replace("((", "(").replace("))", ")"))
    ctx.check(ok, fi.fq, "consumer start <= producer stop, false when either is missing", "orientation or missing-timestamp handling of the freshness test changed", f"stop_times[{params[0]}], start_times[{params[1]}]", where=ctx.where_of(fi))
    rs = ctx.prog.func("scheduler.Scheduler.record_run_stopped")
    src = _norm(ast.unparse(rs.node))
    ctx.check("if succeeded: self.stop_times[step_i] = time.monotonic_ns()" in src, rs.fq, "stop time only for succeeded steps", "stop time recorded for failed runs too (or not at all)", "if succeeded")
    ctx.check("oldest_start = min(self.start_times.values())" in src and "if stop_time < oldest_start: del self.stop_times[other_step_i]" in src, rs.fq,
              "stop times are pruned only when older than the oldest start among steps still running", "a producer's stop time can be erased while a consumer that started before it is still running: the freshness test then passes wrongly", "pruned against min(start_times)")
    ctx.check("self.start_times.pop(step_i, None)" in src, rs.fq, "the finished step's start time is dropped first", "start time of the finished step kept", "ok")
    st = ctx.prog.func("scheduler.Scheduler.record_run_started")
    ctx.check("self.start_times[step_i] = time.monotonic_ns()" in ast.unparse(st.node), st.fq, "start time from the monotonic clock", "start time source changed", "monotonic_ns")
    bc = ctx.prog.func("scheduler.Scheduler.build_completed")
    ctx.check("self.stop_times.clear()" in ast.unparse(bc.node), bc.fq, "clocks are cleared only at the end of a phase", "", "cleared in build_completed")
    writers = set()
    for f in ctx.prog.all_functions():
        for n in ast.walk(f.node):
            if isinstance(n, (ast.Assign, ast.Delete)):
                tg = n.targets
                for t in tg:
                    if isinstance(t, ast.Subscript) and ast.unparse(t.value).endswith((".stop_times", ".start_times")):
                        writers.add(f.fq)
            if isinstance(n, ast.Call) and isinstance(n.func, ast.Attribute) and n.func.attr in ("clear", "pop", "update") and ast.unparse(n.func.value).endswith((".stop_times", ".start_times")):
                writers.add(f.fq)
    allowed = {"scheduler.Scheduler.record_run_started", "scheduler.Scheduler.record_run_stopped", "scheduler.Scheduler.build_completed"}
    ctx.check(writers <= allowed, "scheduler.Scheduler", "only the three bookkeeping methods write the clocks", f"other writers: {sorted(writers - allowed)}", f"{sorted(writers)}")


def _pred_over(ctx, where_clauses, want):
    """Pick the WHERE clause that mentions all identifiers in ``want`` and keep the conjuncts over them."""
    for w in where_clauses:
        ids = identifiers(w)
        if all(any(i == x or i.endswith("." + x.split(".")[-1]) and x.split(".")[0] in i for i in ids) for x in want):
            keep = [c for c in split_conjuncts(w) if any(x in identifiers(c) for x in want)]
            return " AND ".join(f"({c})" for c in keep)
    return None


def rule_three_predicates(ctx):
    """R-C03-8."""
    FS, Av = ctx.prog.enum("FileState"), ctx.prog.enum("Availability")
    # amend time
    ci = ctx.prog.cls("workflow._SupplyInfo").methods["availability"]
    amend = {}
    for st, det in itertools.product(FS, (True, False)):
        fp = finite.feasible_paths(ctx.prog, ci, {}, {"self.detached": det, "self.state": st})
        rets = {e[1] for tr, s in fp for e in tr if e[0] == "return"}
        if len(rets) != 1:
            raise AnalysisError(f"_SupplyInfo.availability is not a function of (state, detached) at {st.name}, {det}: {rets}")
        amend[(st, det)] = rets.pop().split(".")[-1]
    wrong = [(s.name, d, v) for (s, d), v in amend.items() if v != ("UNAVAILABLE" if d else "UNCONFIRMED" if s == FS.UNCONFIRMED else "AVAILABLE" if s in (FS.BUILT, FS.CONFIRMED) else "UNAVAILABLE")]
    ctx.check(not wrong, ci.fq, "available = attached ∧ BUILT/CONFIRMED; unconfirmed = attached ∧ UNCONFIRMED; else unavailable", f"availability table differs at {wrong[:4]}: a detached or unbuilt file is accepted as a final input", "16 points", where=ctx.where_of(ci))
    # defer time
    hs = ctx.prog.func("step.Step.has_unavailable_dynamic_input")
    texts = [s.text for s in ctx.sql.stmts_in(hs.fq)]
    if not texts:
        raise AnalysisError("has_unavailable_dynamic_input has no SQL statement")
    pred = _pred_over(ctx, [w for t in texts for w in all_where_clauses(t)], ["file.state"])
    if pred is None:
        raise AnalysisError("cannot isolate the state predicate of has_unavailable_dynamic_input")
    dom = {("node.detached",): [0, 1], ("file.state",): [s.value for s in FS]}
    try:
        tt = ctx.cat.truth_table(pred, dom)
    except AnalysisError:
        tt = ctx.cat.truth_table(pred, {("file.state",): [s.value for s in FS]})
        tt = {(d, s): v for (s,), v in tt.items() for d in (0, 1)}
    defer = {(FS(s), bool(d)): bool(v) for (d, s), v in tt.items()}
    joins_dyn = all(re.search(r"JOIN dynamic_dep ON dynamic_dep \. i = dependency \. i", t) for t in texts)
    ctx.check(joins_dyn, hs.fq, "ranges over dynamic dependencies of this step", "no longer restricted to dynamic inputs", "JOIN dynamic_dep")
    # report time
    pf = ctx.prog.fold("pending", "_INSERT_PEND_FILE_BLOCK")
    w = _norm(ctx.prog.fold("step", "UNAVAILABLE_INPUT_WHERE"))
    flat = _norm(pf)
    m = re.search(r"OR \( pend_step\.deferred AND dynamic_dep\.i IS NOT NULL AND (.*) \)\s*$", flat)
    if not m:
        raise AnalysisError("cannot locate the deferred arm of _INSERT_PEND_FILE_BLOCK")
    arm = m.group(1)
    tt2 = ctx.cat.truth_table(arm, {"input_node.detached": [0, 1], "input_file.state": [s.value for s in FS]})
    report = {(FS(s), bool(d)): bool(v) for (d, s), v in tt2.items()}
    for (st, det), av in sorted(amend.items(), key=lambda x: (x[0][0].value, x[0][1])):
        if av == "UNAVAILABLE":
            ctx.check(defer[(st, det)], hs.fq, f"state={st.name} detached={det}: unavailable at amend time ⇒ counted at defer time",
                      "an input the amend call classified as unavailable is not counted by has_unavailable_dynamic_input: the step is parked with deferred=0, dispatched again at once and re-executed until the defer cap", "agrees", where=ctx.where_of(hs))
            ctx.check(report[(st, det)], "pending._INSERT_PEND_FILE_BLOCK", f"state={st.name} detached={det}: unavailable at amend time ⇒ blocking at report time",
                      "the end-of-build report does not attribute such a deferred step to its unavailable input (it lands in the 'stale deferred flag' bucket)", "agrees")


RULES = [
    Rule("R-C03-11", "the verdict of a command or check says nothing about a step that was declared again meanwhile: it is dropped in the transaction that would apply it", C12.rule_redeclared_running_step, min_instances=24),
    Rule("R-C03-10", "the re-hash before and after a command trusts a recorded digest only when the full stat signature is unchanged", C13.rule_stat_shortcut, min_instances=4),
    Rule("R-C03-1", "one shared definition of 'blocked input'", rule_shared_predicate, min_instances=4),
    Rule("R-C03-2", "the predicate means what the property says", rule_predicate_meaning, min_instances=3),
    Rule("R-C03-3", "hash before and after the command; fail and drain on change", rule_hash_before_after, min_instances=15),
    Rule("R-C03-4", "completion is atomic with the freshness clock", rule_atomic_completion, min_instances=3),
    Rule("R-C03-5", "amend classifies every input", rule_amend_classification, min_instances=12),
    Rule("R-C03-6", "defer keeps the step wakeable", rule_defer_keeps_wakeable, min_instances=4),
    Rule("R-C03-7", "freshness test orientation and clock bookkeeping", rule_freshness, min_instances=7),
    Rule("R-C03-9", "the comparison after the command uses the hashes verified at run start", rule_after_baseline, min_instances=11),
    Rule("R-C03-8", "amend-time, defer-time and report-time predicates agree", rule_three_predicates, min_instances=20),
]

MUTANTS = [
    Mutant("reattach-leaves-deferred", "step.py", lambda t: re.sub(r"CREATE TRIGGER IF NOT EXISTS step_node_clear_deferred_reattached.*?END;\n", "", t, count=1, flags=re.S) if "step_node_clear_deferred_reattached" in t else None, ("R-C03-6",)),
    Mutant("pending-private-predicate", "pending.py", replace_once("WHERE ({UNAVAILABLE_INPUT_WHERE})\n", "WHERE (input_file.state NOT IN ({FileState.BUILT.value}, {FileState.CONFIRMED.value}))\n"), ("R-C03-1",)),
    Mutant("initial-ignores-detached", "step.py", replace_once("        input_node.detached OR\n        input_file.state NOT IN", "        input_file.state NOT IN"), ("R-C03-2",)),
    Mutant("outdated-counts-available", "step.py", replace_once("input_file.state NOT IN ({FileState.BUILT.value}, {FileState.CONFIRMED.value})\n    )\n)", "input_file.state NOT IN ({FileState.BUILT.value}, {FileState.CONFIRMED.value}, {FileState.OUTDATED.value})\n    )\n)"), ("R-C03-2",)),
    Mutant("run-after-failed-rehash", "executor.py", in_function("Executor.execute_job", replace_once("        if new_hash is None:\n            # Step failed early due to unexpected input changes, error already reported.\n            return\n", "")), ("R-C03-3",)),
    Mutant("no-drain-on-change", "executor.py", in_function("Executor.execute_job", replace_once("            await self._drain_for_unexpected_input_changes()\n", "            pass\n")), ("R-C03-3",)),
    Mutant("classify-keeps-hash-on-change", "executor.py", in_function("Executor._classify_execution", replace_once("            run.success = False\n            new_hash = None\n            # Clear the dynamic inputs", "            run.success = False\n            # Clear the dynamic inputs")), ("R-C03-3",)),
    Mutant("after-baseline-from-db", "executor.py", in_function("Executor._compute_full_step_hash", replace_once('            inp_hashes = {}\n            for rec in run.step.inp_paths():\n                if rec.path in run.start_inp_hashes:\n                    inp_hashes[rec.path] = run.start_inp_hashes[rec.path]\n                elif rec.state in (FileState.BUILT, FileState.CONFIRMED):\n                    inp_hashes[rec.path] = rec.hash\n', "            inp_hashes = {rec.path: rec.hash for rec in run.step.inp_paths() if rec.state in (FileState.BUILT, FileState.CONFIRMED)}\n")), ("R-C03-9",)),
    Mutant("after-baseline-db-first", "executor.py", in_function("Executor._compute_full_step_hash", replace_once('            inp_hashes = {}\n            for rec in run.step.inp_paths():\n                if rec.path in run.start_inp_hashes:\n                    inp_hashes[rec.path] = run.start_inp_hashes[rec.path]\n                elif rec.state in (FileState.BUILT, FileState.CONFIRMED):\n                    inp_hashes[rec.path] = rec.hash\n', "            inp_hashes = {}\n            for rec in run.step.inp_paths():\n                if rec.state in (FileState.BUILT, FileState.CONFIRMED):\n                    inp_hashes[rec.path] = rec.hash\n                elif rec.path in run.start_inp_hashes:\n                    inp_hashes[rec.path] = run.start_inp_hashes[rec.path]\n")), ("R-C03-9",)),
    Mutant("run-start-hashes-not-kept", "executor.py", in_function("Executor._new_run", replace_once("            run.start_inp_hashes = dict(inp_hashes)\n", "")), ("R-C03-9",)),
    Mutant("run-start-hashes-on-failure-only", "executor.py", in_function("Executor._new_run", lambda s: s.replace("            run.start_inp_hashes = dict(inp_hashes)\n", "", 1).replace("        unexpected_input_changes = len(new_inp_hashes) > 0\n", "        run.start_inp_hashes = dict(inp_hashes)\n        unexpected_input_changes = len(new_inp_hashes) > 0\n", 1) if "run.start_inp_hashes = dict(inp_hashes)" in s else None), ("R-C03-9",)),
    Mutant("amended-inputs-without-baseline", "director.py", in_function("DirectorHandler.amend_step", replace_once("        self.executor.note_input_hashes(job_i, inp_hashes)\n", "")), ("R-C03-9",)),
    Mutant("amend-overrides-run-start-hashes", "executor.py", in_function("Executor.note_input_hashes", replace_once("            run.start_inp_hashes.setdefault(path, inp_hash)\n", "            run.start_inp_hashes[path] = inp_hash\n")), ("R-C03-9",)),
    Mutant("baseline-before-promoted-hashes", "director.py", in_function("DirectorHandler.amend_step", lambda t: t.replace("        # The step may read the amended inputs from here on.\n        # What they look like now is what the check after the command has to compare with.\n        async with self.db:\n            inp_hashes = {\n                record.path: record.hash\n                for record in step.inp_paths()\n                if record.state in (FileState.BUILT, FileState.CONFIRMED)\n            }\n        self.executor.note_input_hashes(job_i, inp_hashes)\n", "", 1).replace("        if to_check:\n", "        async with self.db:\n            inp_hashes = {\n                record.path: record.hash\n                for record in step.inp_paths()\n                if record.state in (FileState.BUILT, FileState.CONFIRMED)\n            }\n        self.executor.note_input_hashes(job_i, inp_hashes)\n        if to_check:\n", 1) if "self.executor.note_input_hashes(job_i, inp_hashes)" in t and "        if to_check:\n" in t else None), ("R-C03-9",)),
    Mutant("run-start-arm-state-filtered", "executor.py", in_function("Executor._compute_full_step_hash", replace_once('            inp_hashes = {}\n            for rec in run.step.inp_paths():\n                if rec.path in run.start_inp_hashes:\n                    inp_hashes[rec.path] = run.start_inp_hashes[rec.path]\n                elif rec.state in (FileState.BUILT, FileState.CONFIRMED):\n                    inp_hashes[rec.path] = rec.hash\n', "            inp_hashes = {\n                rec.path: run.start_inp_hashes.get(rec.path, rec.hash)\n                for rec in run.step.inp_paths()\n                if rec.state in (FileState.BUILT, FileState.CONFIRMED)\n            }\n")), ("R-C03-9",)),
    Mutant("baseline-keeps-dropped-inputs", "executor.py", in_function("Executor.execute_job", lambda t: t.replace("            run.start_inp_hashes = {\n                path: inp_hash\n                for path, inp_hash in run.start_inp_hashes.items()\n                if path in current\n            }\n", "", 1) if "if path in current" in t else None), ("R-C03-9",)),
    Mutant("await-in-completion", "executor.py", in_function("Executor.execute_job", replace_once("            run.interrupted_defer = step.mark_completed(new_hash, wants_defer)\n", "            run.interrupted_defer = step.mark_completed(new_hash, wants_defer)\n            await asyncio.sleep(0)\n")), ("R-C03-4",)),
    Mutant("stop-clock-after-region", "executor.py", in_function("Executor.execute_job", lambda s: s.replace("            self.scheduler.record_run_stopped(step.i, succeeded=new_hash is not None)\n", "", 1).replace("        self._report_step_counts()\n\n        # Report the result of running the step\n", "        self.scheduler.record_run_stopped(step.i, succeeded=new_hash is not None)\n        self._report_step_counts()\n\n        # Report the result of running the step\n", 1) if "# Report the result of running the step" in s else None), ("R-C03-4",)),
    Mutant("unconfirmed-accepted", "workflow.py", in_function("Workflow.amend_step", replace_once("            elif availability == Availability.UNCONFIRMED:\n                unconfirmed.add(info.file)\n", "            elif availability == Availability.UNCONFIRMED:\n                pass\n")), ("R-C03-5",)),
    Mutant("amend-no-defer", "director.py", in_function("DirectorHandler.amend_step", replace_once("        if not carry_on:\n            self.executor.defer(job_i, unavailable=unavailable, unfresh=unfresh)\n", "")), ("R-C03-5",)),
    Mutant("swapped-freshness-args", "workflow.py", in_function("Workflow.amend_step", replace_once("ran_concurrently(producer.i, step.i)", "ran_concurrently(step.i, producer.i)")), ("R-C03-5",)),
    Mutant("defer-flag-false", "step.py", in_function("Step.mark_completed", replace_once("                    deferred = self.has_unavailable_dynamic_input()\n", "                    deferred = False\n")), ("R-C03-6",)),
    Mutant("pending-keeps-deferred", "workflow.py", in_function("Workflow.mark_step_pending", replace_once("        step.set_state(StepState.PENDING)\n", "        step.set_state(StepState.PENDING, step.has_unavailable_dynamic_input())\n")), ("R-C03-6",)),
    Mutant("freshness-swapped-dicts", "scheduler.py", in_function("Scheduler.ran_concurrently", lambda s: s.replace("self.stop_times.get(producer_i)", "self.stop_times.get(consumer_i)").replace("self.start_times.get(consumer_i)", "self.start_times.get(producer_i)")), ("R-C03-7",)),
    Mutant("prune-against-own-start", "scheduler.py", in_function("Scheduler.record_run_stopped", lambda s: s.replace("        self.start_times.pop(step_i, None)\n", "        own_start = self.start_times.pop(step_i, None)\n", 1).replace("            oldest_start = min(self.start_times.values())\n", "            oldest_start = own_start if own_start is not None else min(self.start_times.values())\n", 1)), ("R-C03-7",)),
    Mutant("detached-built-available", "workflow.py", in_function("_SupplyInfo.availability", lambda s: s.replace("        if self.detached:\n            return Availability.UNAVAILABLE\n", "", 1).replace("        return Availability.UNAVAILABLE\n", "        return Availability.UNAVAILABLE\n", 1) if "if self.detached:" in s else None), ("R-C03-8",)),
    Mutant("defer-predicate-state-only", "step.py", in_function("Step.has_unavailable_dynamic_input", lambda s: s.replace("            AND (\n                node.detached\n                OR file.state NOT IN ({FileState.CONFIRMED.value}, {FileState.BUILT.value})\n            )\n", "            AND file.state NOT IN ({FileState.CONFIRMED.value}, {FileState.BUILT.value})\n") if "node.detached" in s else None), ("R-C03-8",)),
    Mutant("report-arm-state-only", "pending.py", replace_once("       AND (\n           input_node.detached\n           OR input_file.state NOT IN ({FileState.CONFIRMED.value}, {FileState.BUILT.value})\n       )\n", "       AND input_file.state NOT IN ({FileState.CONFIRMED.value}, {FileState.BUILT.value})\n"), ("R-C03-8",)),
]

# the declared-again mechanism is shared with C12 (R-C12-10): its mutants are replayed for this property's copy of the rule
MUTANTS += [Mutant("shared-" + m.name, m.file, m.transform, ("R-C03-11",), m.note) for m in C12.MUTANTS if m.name in ['verdict-applied-without-asking', 'redeclaration-compared-by-value-only', 'replaced-declaration-completes', 'stale-note-survives-early-exit']]

VARIANTS = [
    Variant("predicate-rewritten", "step.py", replace_once("        input_file.state NOT IN ({FileState.BUILT.value}, {FileState.CONFIRMED.value})\n    )\n)", "        (input_file.state != {FileState.BUILT.value} AND input_file.state != {FileState.CONFIRMED.value})\n    )\n)")),
    Variant("after-baseline-get-form", "executor.py", in_function("Executor._compute_full_step_hash", replace_once('            inp_hashes = {}\n            for rec in run.step.inp_paths():\n                if rec.path in run.start_inp_hashes:\n                    inp_hashes[rec.path] = run.start_inp_hashes[rec.path]\n                elif rec.state in (FileState.BUILT, FileState.CONFIRMED):\n                    inp_hashes[rec.path] = rec.hash\n', "            inp_hashes = {}\n            for rec in run.step.inp_paths():\n                if rec.path in run.start_inp_hashes or rec.state in (FileState.BUILT, FileState.CONFIRMED):\n                    inp_hashes[rec.path] = run.start_inp_hashes.get(rec.path, rec.hash)\n"))),
    Variant("after-baseline-update-form", "executor.py", in_function("Executor._compute_full_step_hash", replace_once('            inp_hashes = {}\n            for rec in run.step.inp_paths():\n                if rec.path in run.start_inp_hashes:\n                    inp_hashes[rec.path] = run.start_inp_hashes[rec.path]\n                elif rec.state in (FileState.BUILT, FileState.CONFIRMED):\n                    inp_hashes[rec.path] = rec.hash\n', "            inp_hashes = {rec.path: rec.hash for rec in run.step.inp_paths() if rec.state in (FileState.BUILT, FileState.CONFIRMED)}\n            current = {rec.path for rec in run.step.inp_paths()}\n            inp_hashes.update({p: h for p, h in run.start_inp_hashes.items() if p in current})\n"))),
    Variant("availability-rewritten", "workflow.py", in_function("_SupplyInfo.availability", replace_once("        if self.state in (FileState.BUILT, FileState.CONFIRMED):", "        if self.state in (FileState.CONFIRMED, FileState.BUILT):"))),
]

# a sketch of the F63/F64 repair (recording through state-selecting helpers): no rule of this property may alarm on it
VARIANTS += [shared.REPAIR_SKETCH_F63]
