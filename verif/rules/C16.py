"""C16 — remote calls are answered exactly once and correctly paired (structural clauses)."""
from __future__ import annotations

import ast
import re

from ..engine import flow
from ..engine.mutate import Mutant, Variant, in_function, replace_once
from ..engine.runner import Rule
from ..engine.source import AnalysisError, Evaluator
from .common import callee_name, calls_in, kwarg

EXPLANATION = (
    "Static analysis of the RPC layer. Exposure gate: in _call_procedure the invocation is dominated by the "
    "is_rpc_allowed test and the signature binding, and every procedure name used by the clients in the package is a "
    "decorated method of one of the two handlers. Id pairing by def-use: the call id read from the request header is "
    "the one bound into the done callback, queued with the task and written with the reply; the async client registers "
    "the pending future before sending with no await after the liveness check, and resolves by popped id; the sync "
    "client compares the received id with the expected one. One reply per task: one done callback per created task, "
    "one enqueue per callback, each send-loop iteration ends in exactly one of skip / send / sentinel+raise / stop. "
    "Framing: encoder and decoder use the same field size and byte order for both fields, the size bound precedes "
    "every sized read, zero size <-> None body. Failure mapping: only UsageError subclasses are reconstructed. Peers "
    "cannot wedge the server: EOF/reset map to a clean end. Decides these clauses, not behaviour under every "
    "fragmentation and completion order. "
    'Also: R-C16-7 futures awaited unshielded by their callers are completed only under a cancelled()/done() guard and all pending calls are failed when the receive loop ends; R-C16-8 the blocking reader repeats recv until the requested size is buffered, and no attrs field of the connection/client classes has a shared mutable default; _call_and_capture_failure catches BaseException.'
    ' R-C16-9 a shared hash job is queued, retired by a done-callback and completed however its task ends (cancellation included), waiters shield it; R-C16-10 every blocking wait in a request handler includes the stop event.'
)
ASSUMPTIONS = ["asyncio streams deliver bytes in order; readexactly returns exactly n bytes or raises"]


def _norm(s):
    return re.sub(r"\s+", " ", s).strip()


def rule_exposure(ctx):
    """R-C16-1."""
    cp = ctx.prog.func("rpc._call_procedure")
    n = 0
    for tr, st in flow.paths_of(cp):
        for k, e in enumerate(tr):
            if e[0] == "call" and e[1] == "procedure":
                n += 1
                tests = [(x[1], x[2]) for x in tr[:k] if x[0] == "test"]
                allowed = ("is_rpc_allowed(procedure)", True) in tests
                bound = any(x[0] == "call" and x[1].endswith(".bind") for x in tr[:k])
                exc = [x for x in tr[:k] if x[0] == "except"]
                ctx.check(allowed and bound and not exc, cp.fq, "procedure(*args) only after is_rpc_allowed and signature.bind", f"a procedure can be invoked without the exposure gate (allowed={allowed}, bound={bound}, via except={bool(exc)})", "gated", where=ctx.where_of(cp, e[2]))
    if n == 0:
        raise AnalysisError("_call_procedure no longer invokes the procedure")
    src = _norm(ast.unparse(cp.node))
    ctx.check("if not is_rpc_allowed(procedure): raise RPCError" in src, cp.fq, "an undecorated procedure raises RPCError", "undecorated procedures are callable", "raises")
    ctx.check("except AttributeError as exc: raise RPCError" in src, cp.fq, "an unknown name raises RPCError", "unknown names leak AttributeError", "raises")
    ia = ctx.prog.func("rpc.is_rpc_allowed")
    ctx.check("getattr(func, '_allow_rpc', False)" in ast.unparse(ia.node), ia.fq, "default is not allowed", "default changed to allowed", "False")
    # names used by clients must be decorated handler methods
    allowed = set()
    for cname in ("director.DirectorHandler", "reporter.ReporterHandler"):
        c = ctx.prog.cls(cname)
        for nm, fi in c.methods.items():
            if "allow_rpc" in fi.decorators():
                allowed.add(nm)
    used = {}
    for m in ctx.prog.mods.values():
        if m.name in ("rpc", "pytest"):
            continue
        for n2 in ast.walk(m.tree):
            if isinstance(n2, ast.Attribute) and isinstance(n2.value, ast.Attribute) and n2.value.attr == "call":
                used.setdefault(n2.attr, m.name)
            elif isinstance(n2, ast.Attribute) and isinstance(n2.value, ast.Call) and isinstance(n2.value.func, ast.Attribute) and n2.value.func.attr == "call":
                used.setdefault(n2.attr, m.name)
    for nm, where in sorted(used.items()):
        ctx.check(nm in allowed, f"{where}", f"client calls remote procedure {nm}", f"{nm} is not an @allow_rpc method of DirectorHandler/ReporterHandler: the call can only fail", "exposed")
    if len(used) < 15:
        raise AnalysisError("client call sites not found")
    for cname in ("director.DirectorHandler",):
        c = ctx.prog.cls(cname)
        for nm, fi in c.methods.items():
            if nm.startswith("_") or nm in ("interrupt", "suspend", "cancel_interrupt"):
                ctx.check("allow_rpc" not in fi.decorators(), fi.fq, "private / signal-handling methods are not exposed", "a private method is remotely callable", "not exposed")


def rule_id_pairing(ctx):
    """R-C16-2."""
    rl = ctx.prog.func("rpc.RPCServerConnection._recv_loop")
    src = _norm(ast.unparse(rl.node))
    ctx.check("async for call_id, request in requests" in src and "task.add_done_callback(partial(self._queue_reply, call_id))" in src, rl.fq, "the id read with the request is bound into the done callback", "reply id is not the request's id", "partial(_queue_reply, call_id)")
    qr = ctx.prog.func("rpc.RPCServerConnection._queue_reply")
    ctx.check("self._completed.put_nowait((call_id, task))" in ast.unparse(qr.node), qr.fq, "the id travels with the task", "queue tuple changed", "(call_id, task)")
    sl = ctx.prog.func("rpc.RPCServerConnection._send_loop")
    src = _norm(ast.unparse(sl.node))
    ctx.check("async for call_id, task in completed_tasks" in src and "await _send_stream_message(self.writer, call_id, response)" in src and "response = _encode_body(await task)" in src, sl.fq, "the reply of a task is written with that task's id", "reply written with another id", "same id")
    ism = ctx.prog.func("rpc._recv_stream_message")
    ctx.check("call_id, size = _decode_header(await reader.readexactly(HEADER_SIZE))" in _norm(ast.unparse(ism.node)) and "return (call_id, body)" in _norm(ast.unparse(ism.node)), ism.fq, "id comes from the header of the same message as the body", "changed", "ok")
    # async client
    ac = ctx.prog.func("rpc.SocketAsyncRPCClient.__call__")
    for tr, st in flow.paths_of(ac):
        reg = [k for k, e in enumerate(tr) if e[0] == "assign" and e[1] == "self._pending[call_id]"]
        send = [k for k, e in enumerate(tr) if e[0] == "call" and e[1] == "_send_stream_message"]
        chk = [k for k, e in enumerate(tr) if e[0] == "test" and e[1] == "self._recv_task.done()"]
        if reg and send:
            aw = [x for x in tr[(chk[-1] if chk else 0):reg[0]] if x[0] == "await"]
            ctx.check(reg[0] < send[0] and not aw and bool(chk), ac.fq, "pending entry registered before the send, with no await after the liveness check", f"registered after send or with {len(aw)} await(s) in between: the receive loop can end and strand the future, or the reply can arrive before the entry exists", "registered first")
    # when the caller is cancelled while its request is being flushed, the request is already in the write buffer and
    # will be answered: the entry must stay (an unknown id in a response ends the receive loop and fails every other
    # call of the client), so the handler that forgets the entry must not be the one that sees CancelledError
    n_try = 0
    for t in [x for x in ast.walk(ac.node) if isinstance(x, ast.Try)]:
        if not any(callee_name(c) == "_send_stream_message" for st_ in t.body for c in calls_in(st_)):
            continue
        n_try += 1
        first = None
        for h in t.handlers:
            ty = ast.unparse(h.type) if h.type is not None else "<bare>"
            if ty in ("<bare>", "BaseException", "asyncio.CancelledError", "CancelledError") or "CancelledError" in ty:
                first = (h, ty)
                break
        if first is None:
            ctx.ok(ac.fq, "no handler around the send sees CancelledError", "a cancelled caller leaves its entry in place")
            continue
        h, ty = first
        pops = [c for c in calls_in(h) if callee_name(c) == "pop" and "_pending" in ast.unparse(c.func)]
        ctx.check(not pops and any(isinstance(x, ast.Raise) for x in ast.walk(h)), ac.fq, "a caller cancelled while flushing keeps its pending entry", f"the `except {ty}` clause around the send forgets the entry also when the caller was merely cancelled: the request is answered all the same, the response carries an id nobody knows, the receive loop raises and every other call in flight on the client fails", "entry kept on CancelledError", where=ctx.where_of(ac, h))
    if n_try == 0:
        raise AnalysisError("SocketAsyncRPCClient.__call__: send is no longer inside a try block")
    src = _norm(ast.unparse(ac.node))
    ctx.check("call_id = self._next_call_id()" in src and "return _decode_response(await future, call" in src, ac.fq, "fresh id per call; the caller awaits its own future", "changed", "ok")
    nc = ctx.prog.func("rpc._SocketClientState._next_call_id")
    ctx.check("self._counter += 1" in ast.unparse(nc.node), nc.fq, "ids are unique within a connection (monotone counter)", "ids can repeat", "counter")
    cr = ctx.prog.func("rpc.SocketAsyncRPCClient._recv_loop")
    src = _norm(ast.unparse(cr.node))
    ctx.check("pending = self._pending.pop(call_id, None)" in src and "pending.future.set_result(response)" in src and "if pending is None: raise RPCError" in src, cr.fq, "a response resolves exactly the popped entry; unknown ids are an error", "responses are matched differently", "pop by id")
    fin = [t for t in ast.walk(cr.node) if isinstance(t, ast.Try) and t.finalbody]
    ctx.check(bool(fin) and "set_exception" in ast.unparse(fin[0].finalbody[0]) if fin else False, cr.fq, "all pending calls fail when the loop ends", "pending calls wait for ever after the connection ends", "finally: fail all")
    sr = ctx.prog.func("rpc.SocketSyncRPCClient._recv_response")
    ctx.check("if call_id != expected_call_id: raise RPCError" in _norm(ast.unparse(sr.node)), sr.fq, "sync client rejects a response with another id", "out-of-step responses are accepted", "compared")
    sc = ctx.prog.func("rpc.SocketSyncRPCClient.__call__")
    src = _norm(ast.unparse(sc.node))
    ctx.check("response = self._recv_response(call_id)" in src and src.index("self._broken = True") < src.index("_send_socket_message(sock, call_id, request)") < src.index("self._broken = False"), sc.fq, "client is marked broken for the duration of an exchange", "an interrupted exchange leaves a usable client that is out of step", "broken flag")


def rule_one_reply(ctx):
    """R-C16-3."""
    rl = ctx.prog.func("rpc.RPCServerConnection._recv_loop")
    creates = [c for c in calls_in(rl.node) if ast.unparse(c.func) == "asyncio.create_task"]
    cbs = [c for c in calls_in(rl.node) if callee_name(c) == "add_done_callback"]
    ctx.check(len(creates) == 1 and len(cbs) == 1 and cbs[0].lineno > creates[0].lineno, rl.fq, "one done callback per created task", f"{len(creates)} create_task / {len(cbs)} add_done_callback", "1:1")
    qr = ctx.prog.func("rpc.RPCServerConnection._queue_reply")
    puts = [c for c in calls_in(qr.node) if callee_name(c) in ("put_nowait", "put")]
    ctx.check(len(puts) == 1, qr.fq, "exactly one enqueue per completed task", f"{len(puts)} enqueues", "1")
    sl = ctx.prog.func("rpc.RPCServerConnection._send_loop")
    for tr, st in flow.paths_of(sl):
        if not any(e[0] == "loop" and e[2] == 1 for e in tr):
            continue
        sends = [e for e in tr if e[0] == "call" and e[1] == "_send_stream_message"]
        cancelled = ("task.cancelled()", True) in [(e[1], e[2]) for e in tr if e[0] == "test"]
        excs = [e[1] for e in tr if e[0] == "except"]
        if cancelled:
            ok = not sends
            kind = "cancelled task: no reply"
        elif "ConnectionError" in excs and st == "return":
            ok = len(sends) <= 1
            kind = "peer gone: stop"
        elif "Exception" in excs:
            ok = len(sends) == 1 and st == "raise"
            kind = "unsendable result: sentinel then raise"
        else:
            ok = len(sends) == 1
            kind = "one reply"
        ctx.check(ok, sl.fq, f"send loop iteration: {kind}", f"{len(sends)} message(s) written on this path", "exactly one outcome")
    # the send loop drops cancelled tasks, so a handler must not be able to end its own task cancelled (or raised):
    # _call_and_capture_failure turns every BaseException into a failure value
    cc = ctx.prog.func("rpc._call_and_capture_failure")
    handlers = [h for t in ast.walk(cc.node) if isinstance(t, ast.Try) for h in t.handlers]
    ok = len(handlers) == 1 and handlers[0].type is not None and ast.unparse(handlers[0].type) == "BaseException" and not any(isinstance(n, ast.Raise) for n in ast.walk(handlers[0])) and any(isinstance(n, ast.Return) for n in ast.walk(handlers[0]))
    ctx.check(ok, cc.fq, "a handler ending in any BaseException (including CancelledError) still yields a reply value",
              "a handler that ends in CancelledError ends its task cancelled; the send loop drops cancelled tasks, so that call gets no reply", "except BaseException: return failure", where=ctx.where_of(cc))
    src = _norm(ast.unparse(sl.node))
    ctx.check("await _send_stream_message(self.writer, call_id, None)" in src, sl.fq, "an unsendable result is answered with the empty-body sentinel", "client waits for ever for a reply that cannot be pickled", "sentinel")


def rule_framing(ctx):
    """R-C16-4."""
    enc = ctx.prog.func("rpc._encode_message")
    dec = ctx.prog.func("rpc._decode_header")
    es = _norm(ast.unparse(enc.node))
    dsrc = _norm(ast.unparse(dec.node))
    ok_e = "header = call_id.to_bytes(FIELD_SIZE, 'big') + size.to_bytes(FIELD_SIZE, 'big')" in es
    ok_d = "call_id = int.from_bytes(header[:FIELD_SIZE], 'big')" in dsrc and "size = int.from_bytes(header[FIELD_SIZE:], 'big')" in dsrc
    ctx.check(ok_e and ok_d, "rpc._encode_message/_decode_header", "both fields: FIELD_SIZE bytes, big endian, id then size", "encoder and decoder disagree on field size, order or byte order", "agree")
    fs = ctx.prog.fold("rpc", "FIELD_SIZE")
    hs = ctx.prog.fold("rpc", "HEADER_SIZE")
    ctx.check(hs == 2 * fs, "rpc.HEADER_SIZE", "header = two fields", f"HEADER_SIZE={hs}, FIELD_SIZE={fs}", "2 * FIELD_SIZE")
    ctx.check("size = 0 if body is None else len(body)" in es and "return header if body is None else header + body" in es, enc.fq, "None body <-> size 0", "sentinel encoding changed", "ok")
    ctx.check("if size > MAX_BODY_SIZE: raise RPCError" in dsrc, dec.fq, "oversized announcements are rejected in the decoder", "no size bound", "bounded")
    for fq in ("rpc._recv_stream_message", "rpc._recv_socket_message"):
        f = ctx.prog.func(fq)
        s = _norm(ast.unparse(f.node))
        ok = "_decode_header(" in s and "None if size == 0 else" in s and s.index("_decode_header(") < s.index("readexactly(size)")
        ctx.check(ok, fq, "header decoded (and bounded) before the sized read; size 0 -> None", "body read before the header was validated, or sentinel decoding changed", "ok")
    for fq in ("rpc._send_stream_message", "rpc._send_socket_message"):
        f = ctx.prog.func(fq)
        ctx.check("_encode_message(call_id, body)" in ast.unparse(f.node), fq, "all senders use the one encoder", "a sender frames messages itself", "shared encoder")


def rule_fragmentation(ctx):
    """R-C16-8: a reply may arrive in any number of pieces; per-connection state belongs to one connection."""
    rd = ctx.prog.func("rpc._SocketReader.readexactly")
    loops = [w for w in ast.walk(rd.node) if isinstance(w, ast.While)]
    recvs = [c for c in calls_in(rd.node) if callee_name(c) == "recv"]
    if not recvs:
        raise AnalysisError("_SocketReader.readexactly no longer calls recv")
    in_loop = [w for w in loops if any(c in list(ast.walk(w)) for c in recvs)]
    ok = bool(in_loop) and all(re.search(r"len\(self\._buffer\) < size|size > len\(self\._buffer\)", ast.unparse(w.test)) for w in in_loop) and len(in_loop) == len(loops)
    ctx.check(ok and all(any(c in list(ast.walk(w)) for w in in_loop) for c in recvs), rd.fq, "recv is repeated until the requested number of bytes is buffered",
              "a single recv is taken for the whole message: a reply that arrives in more than one piece (split header, body larger than the socket buffer) fails on the blocking client although the director answered correctly", "while len(buffer) < size: recv", where=ctx.where_of(rd))
    raises = [n for n in ast.walk(rd.node) if isinstance(n, ast.Raise)]
    guards = []
    for r in raises:
        for n in ast.walk(rd.node):
            if isinstance(n, ast.If) and any(x is r for x in ast.walk(n)):
                guards.append(ast.unparse(n.test))
    ctx.check(bool(raises) and all(re.fullmatch(r"len\((\w+)\) == 0|not (\w+)", g) for g in guards) and len(guards) >= len(raises), rd.fq, "only a zero-length read means the peer is gone", f"raises under {guards}: a short read is treated as a lost connection", "len(fragment) == 0")
    # per-instance state: no attrs field of the connection / client classes shares a mutable default
    mod = ctx.prog.module("rpc")
    nfields = 0
    for cls in [n for n in ast.walk(mod.tree) if isinstance(n, ast.ClassDef)]:
        for st in cls.body:
            if isinstance(st, ast.AnnAssign) and isinstance(st.value, ast.Call) and callee_name(st.value) in ("field", "ib"):
                d = kwarg(st.value, "default")
                if d is None:
                    continue
                nfields += 1
                mutable = isinstance(d, (ast.List, ast.Dict, ast.Set, ast.ListComp, ast.DictComp, ast.SetComp)) or (isinstance(d, ast.Call) and callee_name(d) in ("set", "list", "dict", "deque", "defaultdict", "OrderedDict", "Queue", "Event", "Lock", "bytearray"))
                ctx.check(not mutable, f"rpc.{cls.name}", f"field {ast.unparse(st.target)}: default is not a shared mutable object", f"`default={ast.unparse(d)}` is evaluated once: every instance of {cls.name} shares that object, so the calls in flight (or pending replies) of one connection are cancelled, awaited or answered by another", "immutable default or factory", where=f"stepup/core/rpc.py:{st.lineno}")
    if nfields < 3:
        raise AnalysisError("rpc.py: attrs fields with defaults not found")


def rule_failure_mapping(ctx):
    """R-C16-5."""
    te = ctx.prog.func("rpc.RemoteFailure.to_exception")
    rets = [n for n in ast.walk(te.node) if isinstance(n, ast.Return)]
    kinds = [ast.unparse(r.value) for r in rets]
    ctx.check(kinds.count("RPCError(self.message)") >= 3 and kinds.count("cls(self.message)") == 1, te.fq, "one reconstructing return, every other path RPCError", f"returns {kinds}", "guarded")
    src = _norm(ast.unparse(te.node))
    ctx.check("if not (isinstance(cls, type) and issubclass(cls, UsageError)): return RPCError(self.message)" in src, te.fq, "only UsageError subclasses are reconstructed", "arbitrary classes named by the peer are instantiated", "UsageError only")
    rr = ctx.prog.func("rpc._raise_remote_error")
    src = _norm(ast.unparse(rr.node))
    ctx.check("if failure.usage and (not is_debug()): raise failure.to_exception() from None" in src.replace("and not is_debug()", "and (not is_debug())") and "raise RPCError(" in src, rr.fq, "usage errors keep their class; everything else is a generic RPCError", "internal faults surface as arbitrary exceptions", "mapped")
    fe = ctx.prog.func("rpc.RemoteFailure.from_exception")
    ctx.check("isinstance(exc, UsageError)" in ast.unparse(fe.node), fe.fq, "usage flag computed on the server from the real class", "usage flag provenance changed", "isinstance")
    dr = ctx.prog.func("rpc._decode_response")
    ctx.check("if isinstance(result, RemoteFailure): _raise_remote_error(result, call)" in _norm(ast.unparse(dr.node)), dr.fq, "a RemoteFailure reply raises on the client", "failures are returned as values", "raises")


def rule_peers(ctx):
    """R-C16-6."""
    rs = ctx.prog.func("rpc._recv_stream_message")
    src = _norm(ast.unparse(rs.node))
    ctx.check("except (asyncio.IncompleteReadError, ConnectionError): return None" in src, rs.fq, "EOF or reset while reading = peer gone", "a vanished peer raises inside the server loop", "None")
    sl = ctx.prog.func("rpc.RPCServerConnection._send_loop")
    src = _norm(ast.unparse(sl.node))
    ctx.check("except ConnectionError: self._stop_event.set() return" in src, sl.fq, "a peer that is gone ends the send loop quietly", "a vanished peer crashes the send loop", "returns")
    st = ctx.prog.func("rpc.RPCServerConnection.stop")
    called = [ast.unparse(c.func) for c in calls_in(st.node)]
    ctx.check(called == ["self._stop_event.set"] and not any(isinstance(n, (ast.Await, ast.Raise)) for n in ast.walk(st.node)), st.fq, "stop() only sets the event", "stop() does more than signalling", "set only")
    sc = ctx.prog.func("rpc.SocketRPCServer._serve_connection")
    ctx.check("finally" in ast.unparse(sc.node) or any(isinstance(n, ast.Try) and n.finalbody for n in ast.walk(sc.node)), sc.fq, "a failing connection is removed from the server's set", "leak", "finally: discard")
    dr = ctx.prog.func("rpc._decode_request")
    src = _norm(ast.unparse(dr.node))
    ctx.check("if not isinstance(call, RPCCall): raise RPCError" in src and "except Exception as exc: raise RPCError" in src, dr.fq, "a body that is not a call ends the connection with RPCError", "garbage bodies are executed or crash differently", "RPCError")


def _guards_of(fn_node, target):
    """Receiver expressions that are known not done/cancelled when ``target`` executes: tests of the enclosing
    If statements (body side) and early exits `if X.done(): return` that precede it in the same block."""
    parents = {}
    for n in ast.walk(fn_node):
        for c in ast.iter_child_nodes(n):
            parents[c] = n
    guards = set()

    def from_test(test, positive):
        # `not X.cancelled()` / `not X.done()` true on the positive side; `X.done()` true on the negative side
        if isinstance(test, ast.UnaryOp) and isinstance(test.op, ast.Not):
            from_test(test.operand, not positive)
        elif isinstance(test, ast.BoolOp) and isinstance(test.op, ast.And) and positive:
            for v in test.values:
                from_test(v, True)
        elif isinstance(test, ast.BoolOp) and isinstance(test.op, ast.Or) and not positive:
            for v in test.values:
                from_test(v, False)
        elif isinstance(test, ast.Call) and isinstance(test.func, ast.Attribute) and test.func.attr in ("cancelled", "done") and not positive:
            guards.add(ast.unparse(test.func.value))

    node = target
    while node in parents:
        par = parents[node]
        if isinstance(par, ast.If):
            if node in par.body:
                from_test(par.test, True)
            elif node in par.orelse:
                from_test(par.test, False)
        # early exits before `node` in the same statement list
        for field in ("body", "orelse", "finalbody"):
            lst = getattr(par, field, None)
            if isinstance(lst, list) and node in lst:
                for prev in lst[:lst.index(node)]:
                    if isinstance(prev, ast.If) and not prev.orelse and prev.body and isinstance(prev.body[-1], (ast.Return, ast.Raise, ast.Continue, ast.Break)):
                        from_test(prev.test, False)
        node = par
    return guards


def rule_future_typestate(ctx):
    """R-C16-7: a future that its caller awaits unshielded may already be cancelled; completing it needs a guard."""
    mod = ctx.prog.module("rpc")
    n = 0
    for fi in mod.all_funcs.values():
        for c in calls_in(fi.node):
            if isinstance(c.func, ast.Attribute) and c.func.attr in ("set_result", "set_exception"):
                recv = ast.unparse(c.func.value)
                n += 1
                g = _guards_of(fi.node, c)
                ctx.check(recv in g, fi.fq, f"{recv}.{c.func.attr}(...) only when {recv} is not cancelled/done",
                          f"{recv} can have been cancelled by its awaiting caller: {c.func.attr} then raises InvalidStateError inside the receive loop, the remaining pending calls are never resolved and wait forever",
                          f"guarded by a test on {recv}", where=ctx.where_of(fi, c))
    if n < 2:
        raise AnalysisError(f"only {n} future completion sites in rpc.py (2 confirmed by hand)")
    rl = ctx.prog.func("rpc.SocketAsyncRPCClient._recv_loop")
    fin = [s for t in ast.walk(rl.node) if isinstance(t, ast.Try) for s in t.finalbody]
    loops = [l for s in fin for l in ast.walk(s) if isinstance(l, (ast.While, ast.For)) and "self._pending" in ast.unparse(l.test if isinstance(l, ast.While) else l.iter)]
    ok = any(any(isinstance(c.func, ast.Attribute) and c.func.attr == "set_exception" for c in calls_in(l)) for l in loops)
    ctx.check(ok, rl.fq, "when the receive loop ends, every pending call is failed", "pending calls are left unresolved when the connection ends: their callers wait forever", "finally: loop over self._pending with set_exception")
    cl = ctx.prog.func("rpc.SocketAsyncRPCClient.__call__")
    awaited = [ast.unparse(a.value) for a in ast.walk(cl.node) if isinstance(a, ast.Await)]
    ctx.ok(cl.fq, "the caller awaits its future unshielded (cancelling the caller cancels the future)" if "future" in awaited else "the caller does not await the bare future", f"awaits: {awaited}")


def _completes_future(stmts, recv_suffix="future"):
    """Does this statement list complete (cancel / set_result / set_exception) a `<x>.future`?"""
    for s_ in stmts:
        for c in calls_in(s_):
            if isinstance(c.func, ast.Attribute) and c.func.attr in ("cancel", "set_result", "set_exception") and ast.unparse(c.func.value).endswith(recv_suffix):
                return True
    return False


def rule_shared_job_retired(ctx):
    """R-C16-9: a hash job that several requests may wait for is retired however the task running it ends.

    HashQueue.submit hands the job of a path that is already in flight to every later request for that path.
    The receive loop cancels the handlers of a connection that sends garbage (R-C16-6), and such a handler may be
    the one running the job: if the cancellation leaves the future pending, the job stays in flight and every
    other step that needs the file waits for ever, as does the shutdown.
    """
    sub = ctx.prog.func("hash_queue.HashQueue.submit")
    src = ast.unparse(sub.node)
    dedup = "self.in_flight.get(path)" in src
    cb = [c for c in calls_in(sub.node) if isinstance(c.func, ast.Attribute) and c.func.attr == "add_done_callback" and ast.unparse(c.func.value).endswith("future")]
    ctx.check(dedup and len(cb) == 1, sub.fq, "an in-flight job is shared, and retired by a done-callback of its future", "a finished job is not taken out of in_flight (or jobs are no longer shared)", "in_flight.get + add_done_callback")
    names = [callee_name(c) + ":" + ast.unparse(c.func.value) for c in calls_in(sub.node) if isinstance(c.func, ast.Attribute)]
    ctx.check("put_nowait:self.queue" in names and "set:self.wake" in names, sub.fq, "a new job is queued and the job loop is woken", f"calls: {[n for n in names if 'queue' in n or 'wake' in n]}: the job is registered as in flight but nobody will ever run it, so every request for that path waits for ever", "queue.put_nowait(job); wake.set()")
    sh = ctx.prog.func("hash_queue.HashQueue.shutdown")
    ctx.check(any(isinstance(l, ast.For) and any(isinstance(c.func, ast.Attribute) and c.func.attr == "cancel" and ast.unparse(c.func.value).endswith("future") for c in calls_in(l)) for l in ast.walk(sh.node)), sh.fq, "at shutdown the futures of jobs that never started are cancelled", "awaiters of a queued job hang at shutdown", "for job in ...: job.future.cancel()")
    jd = ctx.prog.func("hash_queue.HashQueue._job_done")
    top = [st_ for st_ in jd.node.body if "self.in_flight.pop(path" in ast.unparse(st_) and isinstance(st_, ast.Expr)]
    ctx.check(len(top) == 1, jd.fq, "the callback retires the job unconditionally", "the job is retired only for some outcomes", "in_flight.pop at the top level of the callback")
    # the runner: every await is covered by a finally (or a BaseException/CancelledError handler) that completes the future
    rh = ctx.prog.func("executor.Executor.run_hash_job")
    awaits = [a for a in ast.walk(rh.node) if isinstance(a, ast.Await)]
    if not awaits:
        raise AnalysisError("run_hash_job awaits nothing")

    def covered(node):
        for t in ast.walk(rh.node):
            if isinstance(t, ast.Try) and any(node is x for b in t.body for x in ast.walk(b)):
                if _completes_future(t.finalbody):
                    return True
                for h in t.handlers:
                    names = ast.unparse(h.type) if h.type is not None else "BaseException"
                    if ("BaseException" in names or "CancelledError" in names) and _completes_future(h.body) and any(isinstance(x, ast.Raise) for x in ast.walk(h)):
                        return True
        return False

    for a in awaits:
        in_cleanup = any(a is x for t in ast.walk(rh.node) if isinstance(t, ast.Try) for part in (t.finalbody, [s_ for h in t.handlers for s_ in h.body]) for b in part for x in ast.walk(b))
        if in_cleanup:
            continue
        ctx.check(covered(a), rh.fq, f"`{ast.unparse(a)[:60]}` is covered by a cleanup that completes the job's future", "when the task running a hash job is cancelled (the requesting step's connection broke, or the builder stops), the future stays pending and the job stays in flight: later requests for the same path are handed the dead job and never return", "try/finally completes the future", where=ctx.where_of(rh, a))
    # the normal outcomes are delivered as such: result after the database write, failure as exception
    inner = ctx.prog.func("executor.Executor._run_hash_job")
    n_ok = 0
    for tr, st in flow.paths_of(inner):
        if st not in ("return", "fall"):
            continue
        calls = [e[1] for e in tr if e[0] == "call"]
        done = [c for c in calls if c in ("hash_job.future.set_result", "hash_job.future.set_exception", "hash_job.future.cancel")]
        tests = [(e[1], e[2]) for e in tr if e[0] == "test"]
        already = ("not hash_job.future.done()", False) in tests or ("hash_job.future.done()", True) in tests
        if not done and not already:
            ctx.bad(inner.fq, "every normal exit delivers an outcome to the waiters", f"a path (tests {tests[-3:]}) returns without result, exception or cancellation: waiters are only released by the clean-up of the caller, as cancelled, although the hash was computed", where=ctx.where_of(inner))
            break
        n_ok += 1
    else:
        ctx.check(n_ok >= 3, inner.fq, "every normal exit delivers an outcome to the waiters", f"{n_ok} exits", f"{n_ok} exits")
    # the inner function is only reachable through the covered entry
    callers = [cs.caller.fq for sites in ctx.cg.sites.values() for cs in sites if callee_name(cs.node) == "_run_hash_job"]
    ctx.check(set(callers) == {"executor.Executor.run_hash_job"}, "executor.Executor._run_hash_job", "only run through the covered entry point", f"called from {sorted(set(callers))}", "run_hash_job only")
    # waiters shield the shared future from their own cancellation
    rp = ctx.prog.func("builder.Builder.run_promoted_hash_jobs")
    aw = [ast.unparse(a.value) for a in ast.walk(rp.node) if isinstance(a, ast.Await) and "future" in ast.unparse(a.value)]
    ctx.check(bool(aw) and all("asyncio.shield(" in x for x in aw), rp.fq, "a waiter shields the shared future", f"awaits {aw}: cancelling one waiting request cancels the job for all of them", "asyncio.shield")


def rule_waits_end_at_shutdown(ctx):
    """R-C16-10: a request handler that waits for an event also waits for the stop event.

    A call that is waiting when the director shuts down must still be answered (and its connection closed), else
    the client hangs and SocketRPCServer.serve never returns.  Every blocking wait in DirectorHandler is therefore a
    wait for 'the event or stop'.
    """
    cls = [fi for fi in ctx.prog.module("director").all_funcs.values() if fi.qualname.startswith("DirectorHandler.")]
    n = 0
    for fi in cls:
        for a in ast.walk(fi.node):
            if not isinstance(a, ast.Await) or not isinstance(a.value, ast.Call):
                continue
            c = a.value
            nm = callee_name(c)
            if nm == "wait" and isinstance(c.func, ast.Attribute) and not c.args:
                n += 1
                ctx.bad(fi.fq, f"`{ast.unparse(a)}` also ends when the director stops", "a bare Event.wait() in a request handler: a shutdown during the wait leaves the call unanswered and the server waiting for its connection", where=ctx.where_of(fi, a))
            elif nm == "wait_for_any_event":
                n += 1
                args = [ast.unparse(x) for x in c.args]
                ok = any(x.endswith("stop_event") for x in args)
                if not ok and len(c.args) == 1 and isinstance(c.args[0], ast.Starred) and isinstance(c.args[0].value, ast.Name):
                    lst = c.args[0].value.id
                    inits = [v.value for v in ast.walk(fi.node) if isinstance(v, ast.Assign) and any(isinstance(t, ast.Name) and t.id == lst for t in v.targets)]
                    ok = any(isinstance(i, (ast.List, ast.Tuple)) and any(ast.unparse(e).endswith("stop_event") for e in i.elts) for i in inits)
                ctx.check(ok, fi.fq, f"`{ast.unparse(c)[:70]}` includes the stop event", "the wait does not end at shutdown: the waiting call is never answered and SocketRPCServer.serve never returns", "stop_event among the awaited events", where=ctx.where_of(fi, a))
    if n < 3:
        raise AnalysisError(f"only {n} blocking waits found in DirectorHandler (3 confirmed by hand)")


RULES = [
    Rule("R-C16-1", "exposure gate", rule_exposure, min_instances=25),
    Rule("R-C16-2", "id pairing by data flow", rule_id_pairing, min_instances=11),
    Rule("R-C16-3", "one reply per task", rule_one_reply, min_instances=5),
    Rule("R-C16-4", "framing agreement", rule_framing, min_instances=8),
    Rule("R-C16-5", "failure mapping", rule_failure_mapping, min_instances=5),
    Rule("R-C16-6", "peers cannot wedge the server", rule_peers, min_instances=5),
    Rule("R-C16-8", "replies may be fragmented; connection state is per connection", rule_fragmentation, min_instances=5),
    Rule("R-C16-9", "a shared hash job is retired however its task ends", rule_shared_job_retired, min_instances=8),
    Rule("R-C16-10", "waiting handlers are released at shutdown", rule_waits_end_at_shutdown, min_instances=3),
    Rule("R-C16-7", "pending futures are completed only when not cancelled", rule_future_typestate, min_instances=4),
]

MUTANTS = [
    Mutant("hash-result-not-delivered", "executor.py", in_function("Executor._run_hash_job", replace_once("            hash_job.future.set_result(new_hash)\n", "            pass\n")), ("R-C16-9",)),
    Mutant("hash-failure-not-delivered", "executor.py", in_function("Executor._run_hash_job", replace_once("                hash_job.future.set_exception(exc)\n", "")), ("R-C16-9",)),
    Mutant("end-of-phase-wait-ignores-stop", "director.py", in_function("DirectorHandler._wait_for_end_build_phase", lambda t: t.replace("        events = [self.stop_event]\n        if self.watcher is not None:\n            events.append(self.watcher.busy_watching)\n        await wait_for_any_event(*events)\n", "        event = self.stop_event if self.watcher is None else self.watcher.busy_watching\n        await event.wait()\n", 1) if "events = [self.stop_event]" in t else None), ("R-C16-10",)),
    Mutant("change-wait-ignores-stop", "director.py", in_function("DirectorHandler._wait_for_change", replace_once("await wait_for_any_event(event, self.stop_event)", "await wait_for_any_event(event)")), ("R-C16-10",)),
    Mutant("hash-job-registered-not-queued", "hash_queue.py", in_function("HashQueue.submit", replace_once("        self.queue.put_nowait(job)\n", "")), ("R-C16-9",)),
    Mutant("shutdown-leaves-queued-futures", "hash_queue.py", in_function("HashQueue.shutdown", replace_once("            job.future.cancel()\n", "            pass\n")), ("R-C16-9",)),
    Mutant("cancelled-hash-task-leaves-zombie", "executor.py", in_function("Executor.run_hash_job", replace_once("            if not hash_job.future.done():\n                hash_job.future.cancel()\n", "")), ("R-C16-9",)),
    Mutant("hash-job-never-retired", "hash_queue.py", in_function("HashQueue.submit", replace_once("        job.future.add_done_callback(functools.partial(self._job_done, path))\n", "")), ("R-C16-9",)),
    Mutant("hash-waiter-unshielded", "builder.py", in_function("Builder.run_promoted_hash_jobs", replace_once("await asyncio.shield(job.future)", "await job.future")), ("R-C16-9",)),
    Mutant("cancelled-send-forgets-entry", "rpc.py", in_function("SocketAsyncRPCClient.__call__", lambda s: s.replace("        except asyncio.CancelledError:", "        except asyncio.TimeoutError:", 1) if "        except asyncio.CancelledError:" in s else None), ("R-C16-2",)),
    Mutant("shared-task-set", "rpc.py", replace_once("_tasks: set[asyncio.Task] = attrs.field(init=False, factory=set)", "_tasks: set[asyncio.Task] = attrs.field(init=False, default=set())"), ("R-C16-8",)),
    Mutant("single-recv", "rpc.py", in_function("_SocketReader.readexactly", replace_once("        while len(self._buffer) < size:\n            fragment = self.sock.recv(4096)\n            if len(fragment) == 0:\n", "        if len(self._buffer) < size:\n            fragment = self.sock.recv(max(size, 4096))\n            if len(fragment) < size - len(self._buffer):\n")), ("R-C16-8",)),
    Mutant("no-gate", "rpc.py", in_function("_call_procedure", replace_once("    if not is_rpc_allowed(procedure):\n        raise RPCError(f\"Remote procedure {call.name} exists but is not allowed\")\n", "")), ("R-C16-1",)),
    Mutant("default-allowed", "rpc.py", in_function("is_rpc_allowed", replace_once('getattr(func, "_allow_rpc", False)', 'getattr(func, "_allow_rpc", True)')), ("R-C16-1",)),
    Mutant("undecorated-handler", "director.py", lambda t: t.replace("    @allow_rpc\n    async def hold_dispatch(", "    async def hold_dispatch(", 1) if "    @allow_rpc\n    async def hold_dispatch(" in t else None, ("R-C16-1",)),
    Mutant("reply-fresh-id", "rpc.py", in_function("RPCServerConnection._recv_loop", replace_once("task.add_done_callback(partial(self._queue_reply, call_id))", "task.add_done_callback(partial(self._queue_reply, len(self._tasks)))")), ("R-C16-2",)),
    Mutant("register-after-send", "rpc.py", in_function("SocketAsyncRPCClient.__call__", lambda s: s.replace("        self._pending[call_id] = _PendingCall(call, future)\n        try:\n            await _send_stream_message(self._writer, call_id, request)\n", "        try:\n            await _send_stream_message(self._writer, call_id, request)\n            self._pending[call_id] = _PendingCall(call, future)\n") if "self._pending[call_id] = _PendingCall(call, future)" in s else None), ("R-C16-2",)),
    Mutant("sync-no-id-check", "rpc.py", in_function("SocketSyncRPCClient._recv_response", lambda s: s.replace("        if call_id != expected_call_id:", "        if False:") if "if call_id != expected_call_id:" in s else None), ("R-C16-2",)),
    Mutant("capture-exception-only", "rpc.py", in_function("_call_and_capture_failure", replace_once("except BaseException", "except Exception")), ("R-C16-3",)),
    Mutant("double-enqueue", "rpc.py", in_function("RPCServerConnection._queue_reply", replace_once("        self._completed.put_nowait((call_id, task))\n", "        self._completed.put_nowait((call_id, task))\n        self._completed.put_nowait((call_id, task))\n")), ("R-C16-3",)),
    Mutant("little-endian-decode", "rpc.py", in_function("_decode_header", replace_once('size = int.from_bytes(header[FIELD_SIZE:], "big")', 'size = int.from_bytes(header[FIELD_SIZE:], "little")')), ("R-C16-4",)),
    Mutant("no-size-bound", "rpc.py", in_function("_decode_header", replace_once("    if size > MAX_BODY_SIZE:\n        raise RPCError(f\"RPC body size {size} exceeds the maximum of {MAX_BODY_SIZE} bytes.\")\n", "")), ("R-C16-4",)),
    Mutant("reconstruct-any-class", "rpc.py", in_function("RemoteFailure.to_exception", replace_once("issubclass(cls, UsageError)", "issubclass(cls, BaseException)")), ("R-C16-5",)),
    Mutant("fail-pending-unguarded", "rpc.py", in_function("SocketAsyncRPCClient._recv_loop", replace_once("                if not pending.future.cancelled():\n                    pending.future.set_exception(\n                        ConnectionResetError(f\"RPC connection lost while calling {pending.call}\")\n                    )\n", "                pending.future.set_exception(\n                    ConnectionResetError(f\"RPC connection lost while calling {pending.call}\")\n                )\n")), ("R-C16-7",)),
    Mutant("resolve-pending-unguarded", "rpc.py", in_function("SocketAsyncRPCClient._recv_loop", replace_once("                    if not pending.future.cancelled():\n                        pending.future.set_result(response)\n", "                    pending.future.set_result(response)\n")), ("R-C16-7",)),
    Mutant("pending-not-failed", "rpc.py", in_function("SocketAsyncRPCClient._recv_loop", replace_once("                _, pending = self._pending.popitem()\n                if not pending.future.cancelled():\n                    pending.future.set_exception(\n                        ConnectionResetError(f\"RPC connection lost while calling {pending.call}\")\n                    )\n", "                self._pending.popitem()\n")), ("R-C16-7",)),
    Mutant("eof-raises", "rpc.py", in_function("_recv_stream_message", replace_once("    except (asyncio.IncompleteReadError, ConnectionError):", "    except asyncio.IncompleteReadError:")), ("R-C16-6",)),
]

VARIANTS = [
    Variant("done-guard-instead-of-cancelled", "rpc.py", in_function("SocketAsyncRPCClient._recv_loop", replace_once("                    if not pending.future.cancelled():\n                        pending.future.set_result(response)\n", "                    if pending.future.done():\n                        continue\n                    pending.future.set_result(response)\n"))),
]
