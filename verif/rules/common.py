"""Helpers shared by the rule modules."""
from __future__ import annotations

import ast

from ..engine.source import AnalysisError, FuncInfo, Program


def calls_in(node, skip_nested=True):
    """All Call nodes inside ``node`` (not descending into nested function definitions)."""
    out = []
    stack = [node]
    first = True
    while stack:
        n = stack.pop()
        if not first and skip_nested and isinstance(n, (ast.FunctionDef, ast.AsyncFunctionDef, ast.Lambda)):
            continue
        first = False
        if isinstance(n, ast.Call):
            out.append(n)
        stack.extend(ast.iter_child_nodes(n))
    return sorted(out, key=lambda c: (c.lineno, c.col_offset))


def callee_name(call: ast.Call) -> str:
    f = call.func
    if isinstance(f, ast.Attribute):
        return f.attr
    if isinstance(f, ast.Name):
        return f.id
    return ""


def callee_src(call: ast.Call) -> str:
    return ast.unparse(call.func)


def is_sep(node) -> bool:
    """``os.sep`` or the literal ``"/"``."""
    if isinstance(node, ast.Constant) and node.value == "/":
        return True
    return isinstance(node, ast.Attribute) and node.attr == "sep" and isinstance(node.value, ast.Name) and node.value.id == "os"


def same(a, b) -> bool:
    return ast.dump(a) == ast.dump(b)


def kwarg(call: ast.Call, name: str):
    for k in call.keywords:
        if k.arg == name:
            return k.value
    return None


def func_src(fi: FuncInfo) -> str:
    return ast.get_source_segment(fi.module.text, fi.node) or ""


def stmts_of(fi: FuncInfo):
    """All statements of a function in source order (not descending into nested defs)."""
    out = []

    def rec(body):
        for s in body:
            out.append(s)
            for fld in ("body", "orelse", "finalbody"):
                sub = getattr(s, fld, None)
                if isinstance(sub, list) and not isinstance(s, (ast.FunctionDef, ast.AsyncFunctionDef, ast.ClassDef)):
                    rec(sub)
            if isinstance(s, ast.Try):
                for h in s.handlers:
                    rec(h.body)
            if isinstance(s, ast.Match):
                for c in s.cases:
                    rec(c.body)

    rec(fi.node.body)
    return out


def names_in(node) -> set[str]:
    return {n.id for n in ast.walk(node) if isinstance(n, ast.Name)}


def const_str(prog: Program, fi: FuncInfo, node):
    """Fold an expression to a constant in the module context of ``fi`` (None if not constant)."""
    from ..engine.source import Evaluator, FoldError, Hole

    try:
        v = Evaluator(prog, fi.module, {}).ev(node)
    except (FoldError, AnalysisError):
        return None
    except Exception:
        return None
    if isinstance(v, Hole):
        return None
    return v


def recording_wrappers(prog: Program) -> dict:
    """Executor methods that are wrappers of Workflow.update_file_hashes.

    A wrapper is synchronous and calls update_file_hashes as a statement of its own body, so every path through it
    records (Min et al.: treat a wrapper as the call it always makes).  A rule that asks "are the hashes recorded
    here" must accept a call of such a wrapper for the call itself, or a repair that moves the call into a helper
    (as Executor._record_written_outputs) raises a false alarm.  Returns name -> (FuncInfo, inner call).
    """
    out = {}
    for f in prog.all_functions():
        if f.module.name != "executor" or f.parent is not None or isinstance(f.node, ast.AsyncFunctionDef):
            continue
        for st in f.node.body:
            if isinstance(st, ast.Expr) and isinstance(st.value, ast.Call) and callee_name(st.value) == "update_file_hashes":
                out[f.name] = (f, st.value)
    return out


def norm_record_events(prog: Program, tr):
    """A path in which a call of a recording wrapper reads as the update_file_hashes call it stands for:
    same mapping argument as the outer call, the cause of the inner call with the wrapper's parameters substituted."""
    wr = recording_wrappers(prog)
    if not wr:
        return tr
    out = []
    for e in tr:
        if e[0] == "call" and isinstance(e[2], ast.Call) and callee_name(e[2]) in wr:
            f, inner = wr[callee_name(e[2])]
            params = [a.arg for a in f.node.args.args if a.arg != "self"]
            bound = {p: a for p, a in zip(params, e[2].args)}
            bound.update({k.arg: k.value for k in e[2].keywords if k.arg})
            cause = kwarg(inner, "cause")
            if isinstance(cause, ast.Name) and cause.id in bound:
                cause = bound[cause.id]
            synth = ast.Call(func=ast.Attribute(value=ast.Attribute(value=ast.Name(id="self", ctx=ast.Load()), attr="workflow", ctx=ast.Load()), attr="update_file_hashes", ctx=ast.Load()),
                             args=list(e[2].args[:1]), keywords=[ast.keyword(arg="cause", value=cause)] if cause is not None else [])
            ast.copy_location(synth, e[2])
            ast.fix_missing_locations(synth)
            out.append(("call", "self.workflow.update_file_hashes", synth) + tuple(e[3:]))
        else:
            out.append(e)
    return type(tr)(out) if isinstance(tr, (list, tuple)) else out
