"""Helpers shared by the rule modules."""
from __future__ import annotations

import ast

from ..engine.source import AnalysisError, FuncInfo, Program


def calls_in(node, skip_nested=True):
    """All Call nodes inside ``node`` (not descending into nested function definitions)."""
    out = []
    stack = [node]
    first = True
    while stack:
        n = stack.pop()
        if not first and skip_nested and isinstance(n, (ast.FunctionDef, ast.AsyncFunctionDef, ast.Lambda)):
            continue
        first = False
        if isinstance(n, ast.Call):
            out.append(n)
        stack.extend(ast.iter_child_nodes(n))
    return sorted(out, key=lambda c: (c.lineno, c.col_offset))


def callee_name(call: ast.Call) -> str:
    f = call.func
    if isinstance(f, ast.Attribute):
        return f.attr
    if isinstance(f, ast.Name):
        return f.id
    return ""


def callee_src(call: ast.Call) -> str:
    return ast.unparse(call.func)


def is_sep(node) -> bool:
    """``os.sep`` or the literal ``"/"``."""
    if isinstance(node, ast.Constant) and node.value == "/":
        return True
    return isinstance(node, ast.Attribute) and node.attr == "sep" and isinstance(node.value, ast.Name) and node.value.id == "os"


def same(a, b) -> bool:
    return ast.dump(a) == ast.dump(b)


def kwarg(call: ast.Call, name: str):
    for k in call.keywords:
        if k.arg == name:
            return k.value
    return None


def func_src(fi: FuncInfo) -> str:
    return ast.get_source_segment(fi.module.text, fi.node) or ""


def stmts_of(fi: FuncInfo):
    """All statements of a function in source order (not descending into nested defs)."""
    out = []

    def rec(body):
        for s in body:
            out.append(s)
            for fld in ("body", "orelse", "finalbody"):
                sub = getattr(s, fld, None)
                if isinstance(sub, list) and not isinstance(s, (ast.FunctionDef, ast.AsyncFunctionDef, ast.ClassDef)):
                    rec(sub)
            if isinstance(s, ast.Try):
                for h in s.handlers:
                    rec(h.body)
            if isinstance(s, ast.Match):
                for c in s.cases:
                    rec(c.body)

    rec(fi.node.body)
    return out


def names_in(node) -> set[str]:
    return {n.id for n in ast.walk(node) if isinstance(n, ast.Name)}


def const_str(prog: Program, fi: FuncInfo, node):
    """Fold an expression to a constant in the module context of ``fi`` (None if not constant)."""
    from ..engine.source import Evaluator, FoldError, Hole

    try:
        v = Evaluator(prog, fi.module, {}).ev(node)
    except (FoldError, AnalysisError):
        return None
    except Exception:
        return None
    if isinstance(v, Hole):
        return None
    return v
