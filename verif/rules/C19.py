"""C19 — exit status and final report tell the truth about the build (structural clauses)."""
from __future__ import annotations

import ast
import itertools
import re

from ..engine import finite, flow
from ..engine.mutate import Mutant, Variant, in_function, replace_once
from ..engine.runner import Rule
from ..engine.source import AnalysisError
from . import C05
from . import shared
from .common import callee_name, calls_in

EXPLANATION = (
    "Static analysis of the exit status and the pending report. Single source of the code: Builder.returncode is "
    "assigned only from report_unbuilt in finalize; serve returns it on every normal path and FAILED on the "
    "invalid-target path; the TUI only ORs INTERRUPTED/INTERNAL. Flag guards: report_unbuilt is interpreted over "
    "(failed count, draining, sub-report codes): FAILED iff attached FAILED steps exist or a glob matches a product, "
    "DRAINED returns before the pending report (so PENDING is never set while draining), PENDING iff the pending "
    "universe is non-empty, WARNING only from missing targets / unjustified matches; the FAILED-step query filters "
    "detached rows. Partition structure: pend_blocker.dst_step is a primary key (one primary blocker per step), the "
    "RUNNABLE insert covers the complement, root kinds are pairwise distinct integers with BLOCK_STEP the largest, "
    "every root kind is consumed by exactly one of the tables/buckets, PendingSummary's PendingOther fields equal the "
    "buckets formatted, and the universe predicate equals dispatch's. Does not decide that the attribution forest "
    "reaches every non-cyclic step for every leftover graph. "
    'Also: the seed statement and the candidate arm of each root kind select the same (step, root) pairs, with the per-request unsatisfiability test for resources; R-C19-5 the invalid-target verdict is taken after the startup rescans.'
    ' R-C19-6 an invalid target is recorded in the GraphError handler, reported and sets the failed bit; R-C19-7 the creator-chain walk ends only at the root; R-C19-8 no transient state survives a restart.'
)
ASSUMPTIONS = ["the pending universe equals dispatch's universe (C10's rule R-C10-3)"]


def _norm(s):
    return re.sub(r"\s+", " ", s).strip()


def rule_single_source(ctx):
    """R-C19-1."""
    writers = []
    for fi in ctx.prog.all_functions():
        for n in ast.walk(fi.node):
            if isinstance(n, (ast.Assign, ast.AugAssign)):
                tg = n.targets if isinstance(n, ast.Assign) else [n.target]
                for t in tg:
                    if isinstance(t, ast.Attribute) and t.attr == "returncode" and ast.unparse(t.value) in ("self", "self.builder", "handler.builder", "builder"):
                        if fi.cls is not None and fi.cls.name in ("Builder", "DirectorHandler") or "builder" in ast.unparse(t.value):
                            writers.append((fi.fq, ast.unparse(n)))
    ok = [w for w in writers if w[0] == "builder.Builder.finalize" and "await report_unbuilt(" in w[1]]
    ctx.check(len(writers) == 1 and len(ok) == 1, "builder.Builder.returncode", "assigned only from report_unbuilt in finalize", f"writers: {writers}", "single source")
    sv = ctx.prog.func("director.serve")
    rets = [n for n in ast.walk(sv.node) if isinstance(n, ast.Return)]
    kinds = [_norm(ast.unparse(r.value)) for r in rets]
    ok = len(rets) == 2 and any("returncode=handler.builder.returncode" in k for k in kinds) and any("returncode=ReturnCode.FAILED" in k for k in kinds)
    ctx.check(ok, sv.fq, "returns the builder's code, or FAILED for an invalid target", f"returns {kinds}", "two returns")
    for tr, st in flow.paths_of(sv):
        if st == "return" and any(e[0] == "except" and "GraphError" in e[1] for e in tr):
            r = [e for e in tr if e[0] == "return"][-1]
            ctx.check("ReturnCode.FAILED" in r[1], sv.fq, "invalid target -> FAILED", f"invalid target returns {r[1][:60]}", "FAILED")
    am = ctx.prog.func("director.async_main")
    ctx.check("return serve_result.returncode.value" in ast.unparse(am.node), am.fq, "process exit status is the numeric value of the code", "changed", ".value")
    dflt = ctx.prog.cls("builder.Builder")
    ctx.check("returncode" in dflt.fields, "builder.Builder", "returncode field exists", "", "field")
    bsrc = ast.unparse(dflt.node)
    ctx.check("default=ReturnCode.PENDING" in bsrc, "builder.Builder", "before any phase completes the code is PENDING (never 0)", "a build that never finished a phase exits 0", "PENDING default")


def rule_flag_guards(ctx):
    """R-C19-2."""
    RC, SS = ctx.prog.enum("ReturnCode"), ctx.prog.enum("StepState")
    fi = ctx.prog.func("finalize.report_unbuilt")
    subs = {"pend": "await _report_pending_steps(workflow, reporter)", "targ": "await _report_missing_targets(workflow, reporter)", "glob": "await _report_glob_violations(workflow, reporter)"}
    npts = 0
    bad = []
    for nfailed, draining, pend, targ, globv in itertools.product((0, 2), (True, False), (RC(0), RC.PENDING), (RC(0), RC.WARNING), (RC(0), RC.WARNING, RC.FAILED)):
        npts += 1
        ov = {"sum((1 for _ in workflow.steps(StepState.FAILED)))": nfailed, "scheduler.draining": draining, subs["pend"]: pend, subs["targ"]: targ, subs["glob"]: globv}
        fp = finite.feasible_paths(ctx.prog, fi, {}, ov)
        if len(fp) != 1:
            # evaluate with the accumulated returncode: enumerate and keep feasible ones
            pass
        for tr, st in fp:
            code = RC(0)
            called = set()
            for e in tr:
                if e[0] == "assign" and e[1] == "returncode" and "|=" in e[2]:
                    rhs = e[2].split("|=", 1)[1].strip()
                    if rhs == "ReturnCode.FAILED":
                        code |= RC.FAILED
                    elif rhs == "ReturnCode.DRAINED":
                        code |= RC.DRAINED
                    elif rhs == subs["pend"]:
                        code |= pend
                        called.add("pend")
                    elif rhs == subs["targ"]:
                        code |= targ
                        called.add("targ")
                    elif rhs == subs["glob"]:
                        code |= globv
                        called.add("glob")
                    else:
                        bad.append(("unknown assignment", rhs))
            exp = RC(0)
            if nfailed > 0:
                exp |= RC.FAILED
            if draining:
                exp |= RC.DRAINED
            else:
                exp |= pend | targ
                if exp == RC(0):
                    exp |= globv
            # the path must be consistent with the `returncode == ReturnCode(0)` test it took
            tests = [(x[1], x[2]) for x in tr if x[0] == "test"]
            took_glob = "glob" in called
            pre = (RC.FAILED if nfailed else RC(0)) | (RC(0) if draining else pend | targ)
            clean_tests = [v for t, v in tests if t == "returncode == ReturnCode(0)"]
            feasible = draining or not clean_tests or (clean_tests[-1] == (pre == RC(0)))
            if not feasible:
                continue
            if code != exp or (draining and called):
                bad.append((nfailed, draining, str(pend), str(targ), str(globv), str(code), str(exp)))
    ctx.check(not bad, fi.fq, f"code = FAILED?(failed steps) | DRAINED (early return) | PENDING | WARNING | late glob check only when clean ({npts} points)",
              f"exit status differs from its definition at {bad[:3]}", "exact over the sub-report outcomes", where=ctx.where_of(fi), points=npts)
    src = _norm(ast.unparse(fi.node))
    ctx.check("nfailed = sum((1 for _ in workflow.steps(StepState.FAILED)))" in src, fi.fq, "failed count = attached FAILED steps", "failed count has another source", "workflow.steps(FAILED)")
    ws = ctx.prog.func("workflow.Workflow.steps")
    txt = " ".join(s.text for s in ctx.sql.stmts_in(ws.fq))
    src_ws = _norm(ast.unparse(ws.node))
    ctx.check("if not include_detached: sql += ' AND NOT detached'" in src_ws and "include_detached: bool=False" in src_ws.replace(" = ", "="), ws.fq, "only attached steps count (the default of Workflow.steps)", "detached FAILED memories make the build fail", "NOT detached by default")
    rcall = [c for c in calls_in(fi.node) if callee_name(c) == "steps"]
    ctx.check(bool(rcall) and all(not c.keywords for c in rcall), fi.fq, "the failed count uses the attached-only default", "the report counts detached FAILED steps", "no include_detached")
    ps = ctx.prog.func("finalize._report_pending_steps")
    for tr, st in flow.paths_of(ps):
        r = [e for e in tr if e[0] == "return"]
        tests = [(x[1], x[2]) for x in tr if x[0] == "test"]
        if ("summary.ntotal == 0", True) in tests:
            ctx.check(r and r[-1][1] == "ReturnCode(0)", ps.fq, "no pending step -> 0", f"returns {r[-1][1] if r else None}", "0")
        elif ("summary.ntotal == 0", False) in tests:
            ctx.check(r and r[-1][1] == "ReturnCode.PENDING", ps.fq, "pending steps -> PENDING", f"returns {r[-1][1] if r else None}", "PENDING")
    mt = ctx.prog.func("finalize._report_missing_targets")
    flags = {n.attr for n in ast.walk(mt.node) if isinstance(n, ast.Attribute) and isinstance(n.value, ast.Name) and n.value.id == "ReturnCode"}
    ctx.check(flags <= {"WARNING", "FAILED"} and "WARNING" in flags, mt.fq, "missing targets warn; only an invalid target can fail", f"flags {sorted(flags)}", "WARNING (+ FAILED for invalid targets)")
    # a requested target that ended up in a state a target may never have is invalid, and the build says so: the
    # end-of-build report consults the forbidden states itself (the startup check defers to the declaration when a
    # creator is pending, and a declaration that returns through a full recycle is never checked)
    consults = any(callee_name(c) == "_raise_if_forbidden_target" for c in calls_in(mt.node)) or "TARGET_FORBIDDEN_STATES" in ast.unparse(mt.node)
    fails = any(isinstance(n, ast.AugAssign) and isinstance(n.op, ast.BitOr) and "ReturnCode.FAILED" in ast.unparse(n.value) for n in ast.walk(mt.node))
    ctx.check(consults and fails, mt.fq, "a target that ended up static or volatile sets the FAILED bit at the end of the build",
              "the end-of-build report only asks whether the target is a regular output: a static (or volatile) target whose declaration came back through a recycled nested plan ends the build with a warning ('not produced by any step') and no FAILED bit, while the run before and the run after report 'Invalid build target' and fail", "forbidden states consulted, FAILED or-ed", where=ctx.where_of(mt))
    if fails:
        # FAILED is or-ed only inside the loop over the invalid targets
        guarded = all(any(isinstance(p_, (ast.For, ast.If)) and n in list(ast.walk(p_)) for p_ in ast.walk(mt.node) if p_ is not mt.node) for n in ast.walk(mt.node) if isinstance(n, ast.AugAssign) and "ReturnCode.FAILED" in ast.unparse(n.value))
        ctx.check(guarded, mt.fq, "FAILED is set only for an invalid target", "the missing-target report fails unconditionally", "inside the loop over invalid targets")
    gv = ctx.prog.func("finalize._report_glob_violations")
    src = _norm(ast.unparse(gv.node))
    ctx.check("if len(warnings) > 0: returncode |= ReturnCode.WARNING" in src and "if len(errors) > 0: returncode |= ReturnCode.FAILED" in src, gv.fq, "unjustified match -> WARNING, matched product -> FAILED", "glob violation flags changed", "ok")
    ie = ctx.prog.cls("workflow.GlobViolation").methods["is_error"]
    ctx.check("self.state is not None and FILE_ROLE_BY_STATE[self.state] != FileRole.STATIC" in ast.unparse(ie.node), ie.fq, "error iff the match has a node in a non-static role", "classification changed", "ok")
    sel = _norm(ctx.prog.fold("pending", "_SELECT_NTOTAL"))
    ctx.check(f"step.state = {SS.PENDING.value} AND step._implied_need > ? AND NOT node.detached" in sel, "pending._SELECT_NTOTAL", "universe: pending, needed, attached", "universe changed", "same as dispatch")
    ap = ctx.prog.func("pending._analyze_pending")
    ctx.check("threshold = workflow.need_threshold.value" in ast.unparse(ap.node), ap.fq, "threshold is workflow.need_threshold", "another threshold", "need_threshold")


def rule_invalid_target_verdict(ctx):
    """R-C19-5: the 'invalid target' verdict (FAILED bit) is taken on the states of the resumed database *after* the
    startup rescans."""
    shared.check_targets_reconciled_after_resume(ctx, "a valid target is reported as invalid (exit status FAILED, nothing built) because plan.py, edited since the last run, was not yet marked pending when the target was examined")


def rule_invalid_target_wiring(ctx):
    """R-C19-6: a target found invalid is reported and sets the failed bit (def-use of the local collection)."""
    fi = ctx.prog.func("finalize._report_missing_targets")
    filled, _, detail = shared.wiring(fi, "invalid_targets", "reporter")
    # filled inside the handler of the error that _raise_if_forbidden_target raises
    in_handler = False
    for t in ast.walk(fi.node):
        if isinstance(t, ast.Try) and any(callee_name(c) == "_raise_if_forbidden_target" for st_ in t.body for c in calls_in(st_)):
            for h in t.handlers:
                if h.type is not None and "GraphError" in ast.unparse(h.type) and any(isinstance(c.func, ast.Attribute) and c.func.attr == "append" and ast.unparse(c.func.value) == "invalid_targets" for st_ in h.body for c in calls_in(st_)):
                    in_handler = True
    ctx.check(filled and in_handler, fi.fq, "a target in a forbidden state is recorded as invalid", f"{detail}; recorded in the GraphError handler: {in_handler}: an invalid target is silently dropped, the build reports nothing and exits 0", "except GraphError: invalid_targets.append(...)", where=ctx.where_of(fi))
    loops = [l for l in ast.walk(fi.node) if isinstance(l, ast.For) and "invalid_targets" in ast.unparse(l.iter)]
    ok = any(any(isinstance(a, ast.AugAssign) and "ReturnCode.FAILED" in ast.unparse(a.value) for a in ast.walk(l)) and any(callee_name(c) == "reporter" for c in calls_in(l)) for l in loops)
    ctx.check(ok, fi.fq, "every invalid target is reported as an error and sets the failed bit", "invalid targets do not reach the exit status", "for ... in invalid_targets: reporter(ERROR); returncode |= FAILED")


def rule_creator_chain_walk(ctx):
    """R-C19-7: 'is a pending step among the creators of this node' walks the whole chain, through trees as well.

    The invalid-target verdict spares a target whose stale row will be re-declared by a pending plan.  A file inside a
    static tree has the tree as creator and the plan above it: a walk that stops at the first node that is not a step
    reports a valid target as invalid (exit status FAILED, nothing built).
    """
    fi = ctx.prog.func("workflow.Workflow._creator_chain_pending")
    loops = [l for l in ast.walk(fi.node) if isinstance(l, ast.While)]
    ctx.check(len(loops) == 1, fi.fq, "one loop walks the chain", f"{len(loops)} loops", "one loop")
    if len(loops) != 1:
        return
    l = loops[0]
    climbs = any(isinstance(a, ast.Assign) and isinstance(a.value, ast.Call) and callee_name(a.value) == "creator" for a in ast.walk(l))
    cond = ast.unparse(l.test)
    # where the walk gives up: only at the root or at a node without creator
    stops = []
    if cond != "True":
        stops.append(cond)
    for n in ast.walk(l):
        if isinstance(n, ast.If) and any(isinstance(r, ast.Return) and isinstance(r.value, ast.Constant) and r.value.value is False for r in ast.walk(n)):
            stops.append(ast.unparse(n.test))
    tail_false = [r for r in fi.node.body if isinstance(r, ast.Return) and isinstance(r.value, ast.Constant) and r.value.value is False]
    narrow = [c for c in stops if "Step" in c and "Root" not in c] + (["loop condition ends at the first non-step"] if tail_false and "Step" in cond else [])
    ok = climbs and bool(stops) and all(("Root" in c or "None" in c) for c in stops) and not narrow
    ctx.check(ok, fi.fq, "the walk ends only at the root (or a node without creator)", f"stop conditions {stops}: a static tree (or any creator that is not a step) ends the walk, so a file inside a tree declared by a pending plan is judged on its stale row", "ends at Root/None only", where=ctx.where_of(fi))
    found = [n for n in ast.walk(l) if isinstance(n, ast.If) and "StepState.PENDING" in ast.unparse(n.test) and any(isinstance(r, ast.Return) and isinstance(r.value, ast.Constant) and r.value.value is True for r in ast.walk(n))]
    ctx.check(bool(found), fi.fq, "a PENDING step on the chain answers True", "no such answer", "return True")


def rule_partition(ctx):
    """R-C19-3."""
    t = ctx.cat.tables.get("pend_blocker")
    if t is None:
        raise AnalysisError("pend_blocker table not compiled")
    ctx.check(t.columns.get("dst_step", {}).get("pk", 0) == 1, "pending._CREATE_PEND_TABLES", "pend_blocker.dst_step is the primary key", "a step can have two primary blockers: it is counted twice", "PRIMARY KEY")
    t2 = ctx.cat.tables.get("pend_attributed")
    ctx.check(t2 is not None and t2.columns.get("dst_step", {}).get("pk", 0) == 1, "pending._CREATE_PEND_TABLES", "pend_attributed.dst_step is the primary key", "a step can be attributed twice", "PRIMARY KEY")
    kinds = {k: ctx.prog.fold("pending", k) for k in ("ROOT_FILE", "ROOT_RESOURCE", "ROOT_FAILED", "ROOT_DEFERRED", "ROOT_OTHER", "ROOT_RUNNABLE", "BLOCK_STEP")}
    vals = list(kinds.values())
    ctx.check(len(set(vals)) == len(vals) and all(isinstance(v, int) for v in vals) and kinds["BLOCK_STEP"] == max(vals), "pending.ROOT_*", "root kinds are distinct integers and BLOCK_STEP is the largest", f"{kinds}", f"{kinds}")
    run = _norm(ctx.prog.fold("pending", "_INSERT_PEND_BLOCKER_RUNNABLE"))
    ctx.check(f"SELECT i, {kinds['ROOT_RUNNABLE']}, i FROM pend_step WHERE i NOT IN (SELECT dst_step FROM pend_blocker)" in run, "pending._INSERT_PEND_BLOCKER_RUNNABLE", "covers exactly the steps without a blocker", "the complement arm changed: a step can fall through all arms", "complement")
    blk = _norm(ctx.prog.fold("pending", "_INSERT_PEND_BLOCKER"))
    ctx.check("ROW_NUMBER() OVER ( PARTITION BY dst_step ORDER BY kind, src_label, src ) AS rn" in blk and blk.endswith("WHERE rn = 1"), "pending._INSERT_PEND_BLOCKER", "one top-ranked candidate per step, deterministic tie-break", "primary blocker selection changed", "rn = 1")
    arms = set(int(x) for x in re.findall(r"AS dst_step, (\d+) AS kind", blk))
    exp_arms = {kinds[k] for k in ("ROOT_FILE", "ROOT_RESOURCE", "ROOT_FAILED", "ROOT_DEFERRED", "ROOT_OTHER", "BLOCK_STEP")}
    ctx.check(arms == exp_arms, "pending._INSERT_PEND_BLOCKER", "one candidate arm per kind except RUNNABLE", f"arms {sorted(arms)} expected {sorted(exp_arms)}", "all kinds")
    # sibling agreement: the seed statement of a root kind and the candidate arm of that kind select the same
    # (step, root) pairs -- a step seeded under a root it is not primarily blocked by (or the reverse) is shown
    # under one cause and counted under another
    blk_nc = _norm(re.sub(r"--[^\n]*", "", ctx.prog.fold("pending", "_INSERT_PEND_BLOCKER")))
    m0 = re.search(r"AS rn FROM \( (?=SELECT)", blk_nc)
    if not m0:
        raise AnalysisError("_INSERT_PEND_BLOCKER: candidate arms not found")
    inner = blk_nc[m0.end():]
    arm_texts = [a.strip() for a in re.split(r"\bUNION ALL\b", inner)]
    arm_tail = {}
    for a in arm_texts:
        m = re.search(r"AS dst_step, (\d+) AS kind", a)
        if m and " FROM " in a:
            tail = a[a.index(" FROM ") + 1:]
            tail = re.sub(r"\)\s*\)\s*WHERE rn = 1$", "", tail).strip()
            arm_tail.setdefault(int(m.group(1)), []).append(tail)
    for kname, seed_name in (("ROOT_FILE", "_INSERT_PEND_SEED_FILE"), ("ROOT_RESOURCE", "_INSERT_PEND_SEED_RESOURCE")):
        seed = _norm(re.sub(r"--[^\n]*", "", ctx.prog.fold("pending", seed_name)))
        if " FROM " not in seed:
            raise AnalysisError(f"{seed_name}: no FROM clause")
        seed_tail = seed[seed.index(" FROM ") + 1:].strip()
        tails = arm_tail.get(kinds[kname], [])
        ctx.check(tails == [seed_tail], f"pending.{seed_name}", f"{kname}: seed rows and candidate arm select the same (step, root) pairs",
                  f"the {kname} arm of _INSERT_PEND_BLOCKER selects [{'; '.join(tails)[:300]}] but the seed selects [{seed_tail[:300]}]: a step is attributed to a cause that does not block it", "same FROM/JOIN/WHERE")
    unsat = "avail.name IS NULL OR avail.units < req.units"
    for name in ("_INSERT_PEND_RESOURCE", "_INSERT_PEND_SEED_RESOURCE"):
        txt = _norm(ctx.prog.fold("pending", name))
        ctx.check(unsat in txt and "LEFT JOIN available_resource AS avail ON avail.name = req.name" in txt, f"pending.{name}", "a resource blocks a step only when that step's own request is undefined or exceeds the limit",
                  "the per-request unsatisfiability test is gone: a step whose request fits is reported as blocked by the resource", "per-request test")
    att = _norm(ctx.prog.fold("pending", "_INSERT_PEND_ATTRIBUTED"))
    ctx.check(f"FROM pend_blocker WHERE kind != {kinds['BLOCK_STEP']}" in att and f"pend_blocker.kind = {kinds['BLOCK_STEP']} AND pend_blocker.src = walk.i" in att, "pending._INSERT_PEND_ATTRIBUTED", "walk seeds at root kinds and follows BLOCK_STEP edges", "attribution walk changed", "ok")
    # every root kind consumed exactly once
    ap = ctx.prog.func("pending._analyze_pending")
    src = _norm(ast.unparse(ap.node))
    consumed = {}
    for k in ("ROOT_FAILED", "ROOT_DEFERRED", "ROOT_OTHER", "ROOT_RUNNABLE"):
        consumed[k] = src.count(f"_bucket(db, {k})")
    bi = _norm(ast.unparse(ctx.prog.func("pending._build_inputs").node))
    br = _norm(ast.unparse(ctx.prog.func("pending._build_resources").node))
    consumed["ROOT_FILE"] = bi.count("_rank_display(db, ROOT_FILE")
    consumed["ROOT_RESOURCE"] = br.count("_rank_display(db, ROOT_RESOURCE")
    ctx.check(all(v == 1 for v in consumed.values()), ap.fq, "every root kind is consumed by exactly one table or bucket", f"{consumed}", "1 each")
    ctx.check("cyclic=_cyclic_bucket(db)" in src, ap.fq, "steps reached by no root are the cyclic bucket", "cyclic bucket missing", "present")
    cy = _norm(ast.unparse(ctx.prog.func("pending._cyclic_bucket").node))
    ctx.check("FROM pend_step WHERE i NOT IN (SELECT dst_step FROM pend_attributed)" in cy, "pending._cyclic_bucket", "cyclic = universe minus attributed", "changed", "complement")
    ps = ctx.prog.cls("pending.PendingSummary")
    others = sorted(k for k, v in ps.fields.items() if v == "PendingOther")
    fo = ctx.prog.func("finalize._format_other_lines")
    shown = sorted(set(re.findall(r"summary\.(\w+),", _norm(ast.unparse(fo.node)))))
    ctx.check(others == shown, fo.fq, "every PendingOther bucket of the summary is formatted", f"summary has {others}, report formats {shown}: a bucket is counted but never shown (or shown twice)", f"{others}")
    order = [callee_name(c) for c in calls_in(ap.node) if callee_name(c) == "execute" and c.args and ast.unparse(c.args[0]).startswith("_INSERT_PEND")]
    seq = [ast.unparse(c.args[0]) for c in calls_in(ap.node) if callee_name(c) == "execute" and c.args and ast.unparse(c.args[0]).startswith("_INSERT_PEND")]
    need = ["_INSERT_PEND_STEP", "_INSERT_PEND_FILE_BLOCK", "_INSERT_PEND_DEAD_FILE", "_INSERT_PEND_UNSAFE_ANC", "_INSERT_PEND_RESOURCE", "_INSERT_PEND_STEP_BLOCK", "_INSERT_PEND_SEED_FILE", "_INSERT_PEND_SEED_RESOURCE", "_INSERT_PEND_BLOCKER", "_INSERT_PEND_BLOCKER_RUNNABLE", "_INSERT_PEND_ATTRIBUTED"]
    ctx.check(seq == need, ap.fq, "scratch tables are filled in dependency order", f"order {seq}", "order kept")
    for name in need:
        text = ctx.prog.fold("pending", name)
        err = ctx.cat.compiles(text)
        ctx.check(err is None, f"pending.{name}", "compiles against the scratch schema", f"{err}", "compiles")


def rule_scratch(ctx):
    """R-C19-4."""
    ap = ctx.prog.func("pending._analyze_pending")
    tries = [n for n in ast.walk(ap.node) if isinstance(n, ast.Try)]
    ok = any("_drop_pend_tables(db)" in " ".join(ast.unparse(s) for s in t.finalbody) for t in tries)
    ctx.check(ok, ap.fq, "scratch tables are dropped in finally", "a failing analysis leaves scratch tables behind", "finally")
    rp = ctx.prog.func("finalize._report_pending_steps")
    ok = all(flow.region_of(tr, k, lambda s: s.split(".")[-1] == "db") is not None for tr, st in flow.paths_of(rp) for k, e in enumerate(tr) if e[0] == "call" and e[1] == "analyze_pending")
    ctx.check(ok, rp.fq, "the analysis runs inside the caller's transaction", "analysis outside a region", "in region")
    names = ctx.prog.fold("pending", "_PEND_TABLE_NAMES")
    created = {t for t in ctx.cat.tables if t.startswith("pend_")}
    ctx.check(set(names) == created, "pending._PEND_TABLE_NAMES", "every created scratch table is dropped", f"created {sorted(created)} vs dropped {sorted(names)}", "same set")


RULES = [
    Rule("R-C19-1", "single source of the exit code", rule_single_source, min_instances=6),
    Rule("R-C19-2", "flag guards", rule_flag_guards, min_instances=10),
    Rule("R-C19-3", "partition structure of the pending report", rule_partition, min_instances=22),
    Rule("R-C19-4", "scratch tables", rule_scratch, min_instances=3),
    Rule("R-C19-6", "invalid targets reach the report and the exit status", rule_invalid_target_wiring, min_instances=2),
    Rule("R-C19-7", "the creator chain is walked to the root", rule_creator_chain_walk, min_instances=3),
    Rule("R-C19-8", "no step is left in a transient state by a restart (such a step is counted neither as failed nor as pending)", C05.rule_recovery, min_instances=10),
    Rule("R-C19-5", "invalid-target verdict is taken after the startup rescans", rule_invalid_target_verdict, min_instances=1),
]

def _resource_arm_drop(s):
    old = """        JOIN pend_resource AS pr ON pr.name = req.name
        LEFT JOIN available_resource AS avail ON avail.name = req.name
        WHERE req.node IN (SELECT i FROM pend_step)
          AND (avail.name IS NULL OR avail.units < req.units)
"""
    new = """        JOIN pend_resource AS pr ON pr.name = req.name
        WHERE req.node IN (SELECT i FROM pend_step)
"""
    return s.replace(old, new, 1) if old in s else None


def _resource_seed_drop(s):
    old = """JOIN pend_resource AS pr ON pr.name = req.name
LEFT JOIN available_resource AS avail ON avail.name = req.name
WHERE req.node IN (SELECT i FROM pend_step)
  AND (avail.name IS NULL OR avail.units < req.units)
"""
    new = """JOIN pend_resource AS pr ON pr.name = req.name
WHERE req.node IN (SELECT i FROM pend_step)
"""
    return s.replace(old, new, 1) if old in s else None


MUTANTS = [
    Mutant("creator-walk-stops-at-tree", "workflow.py", in_function("Workflow._creator_chain_pending", lambda t: t.replace("        while True:\n            node = node.creator()\n            if node is None or isinstance(node, Root):\n                # Root.creator() returns Root itself, so this also terminates the walk.\n                return False\n            if isinstance(node, Step) and node.get_state() == StepState.PENDING:\n                return True\n", "        node = node.creator()\n        while isinstance(node, Step):\n            if node.get_state() == StepState.PENDING:\n                return True\n            node = node.creator()\n        return False\n", 1) if "        while True:\n            node = node.creator()\n" in t else None), ("R-C19-7",)),
    Mutant("invalid-target-dropped", "finalize.py", in_function("_report_missing_targets", replace_once("                    invalid_targets.append((target, str(exc)))\n", "                    pass\n")), ("R-C19-6",)),
    Mutant("invalid-target-without-failed-bit", "finalize.py", in_function("_report_missing_targets", replace_once('        await reporter("ERROR", f"Invalid build target: {message}")\n        returncode |= ReturnCode.FAILED\n', '        await reporter("ERROR", f"Invalid build target: {message}")\n')), ("R-C19-6",)),
    Mutant("invalid-target-only-warns", "finalize.py", in_function("_report_missing_targets", replace_once("        returncode |= ReturnCode.FAILED\n", "        returncode |= ReturnCode.WARNING\n")), ("R-C19-2",)),
    Mutant("resource-arm-any-request", "pending.py", _resource_arm_drop, ("R-C19-3",)),
    Mutant("resource-seed-any-request", "pending.py", _resource_seed_drop, ("R-C19-3",)),
    Mutant("serve-invalid-target-zero", "director.py", in_function("serve", replace_once("return ServeResult(returncode=ReturnCode.FAILED, usage_report=\"\", usage_summary=\"\")", "return ServeResult(returncode=ReturnCode(0), usage_report=\"\", usage_summary=\"\")")), ("R-C19-1",)),
    Mutant("default-zero", "builder.py", replace_once("returncode: ReturnCode = attrs.field(init=False, default=ReturnCode.PENDING)", "returncode: ReturnCode = attrs.field(init=False, default=ReturnCode(0))"), ("R-C19-1",)),
    Mutant("pending-before-drain", "finalize.py", in_function("report_unbuilt", lambda s: s.replace("    returncode |= await _report_pending_steps(workflow, reporter)\n", "", 1).replace("    if scheduler.draining:\n", "    returncode |= await _report_pending_steps(workflow, reporter)\n    if scheduler.draining:\n", 1) if "    if scheduler.draining:\n" in s else None), ("R-C19-2",)),
    Mutant("failed-counts-detached", "finalize.py", in_function("report_unbuilt", replace_once("workflow.steps(StepState.FAILED)", "workflow.steps(StepState.FAILED, include_detached=True)")), ("R-C19-2",)),
    Mutant("glob-check-always", "finalize.py", in_function("report_unbuilt", replace_once("    if returncode == ReturnCode(0):\n        returncode |= await _report_glob_violations(workflow, reporter)\n", "    returncode |= await _report_glob_violations(workflow, reporter)\n")), ("R-C19-2",)),
    Mutant("no-failed-flag", "finalize.py", in_function("report_unbuilt", replace_once("        returncode |= ReturnCode.FAILED\n", "        returncode |= ReturnCode.WARNING\n")), ("R-C19-2",)),
    Mutant("blocker-no-pk", "pending.py", replace_once("    CREATE TEMP TABLE pend_blocker (\n        dst_step INTEGER PRIMARY KEY,", "    CREATE TEMP TABLE pend_blocker (\n        dst_step INTEGER NOT NULL,"), ("R-C19-3",)),
    Mutant("bucket-not-shown", "finalize.py", in_function("_format_other_lines", lambda s: s.replace('        (\n            summary.other,\n            "{n} step(s) are blocked by a step that is not reported here, e.g. {example}.",\n        ),\n', "") if "summary.other," in s else None), ("R-C19-3",)),
    Mutant("same-kind-values", "pending.py", replace_once("ROOT_DEFERRED, ROOT_OTHER, ROOT_RUNNABLE = 3, 4, 5", "ROOT_DEFERRED, ROOT_OTHER, ROOT_RUNNABLE = 3, 3, 5"), ("R-C19-3",)),
    Mutant("runnable-not-complement", "pending.py", replace_once("WHERE i NOT IN (SELECT dst_step FROM pend_blocker)\n", "WHERE NOT pend_step.unsafe AND i NOT IN (SELECT dst_step FROM pend_blocker)\n"), ("R-C19-3",)),
    Mutant("no-drop-in-finally", "pending.py", in_function("_analyze_pending", lambda s: s.replace("    finally:\n        _drop_pend_tables(db)\n", "    finally:\n        pass\n") if "    finally:\n        _drop_pend_tables(db)\n" in s else None), ("R-C19-4",)),
]

VARIANTS = []
