"""C08 — every path has one owner and conflicts are rejected in either order (structural clauses)."""
from __future__ import annotations

import ast
import itertools
import re

from ..engine import finite, flow
from ..engine.mutate import Mutant, Variant, in_function, replace_once
from ..engine.runner import Rule
from ..engine.source import AnalysisError
from . import shared
from .common import callee_name, calls_in, kwarg

EXPLANATION = (
    "Static analysis of the claim checks. The claim on a path is a database fact (unique (kind, label) index with "
    "BINARY collation, UNDECLARED must be detached). Each symmetric conflict relation has a guard on both arrival "
    "orders, and each guard precedes the mutation it protects on every path: tree lookup before a file is created; "
    "attached-label scan (both roles) before a tree is created, with the adoption sweep taking every detached row "
    "under the tree; the glob check before the recycle short-circuit and before amended outputs; the product query "
    "of register_nglob as a truth table over FileState; duplicate-step check before create; out/vol overlap in both "
    "define and amend; forbidden targets at all three sites. Every _declare_file call is dominated by "
    "_check_declaration for the same path; the no-op redeclaration requires equal role and equal creator "
    "(finite-domain table). Does not decide all path spellings: the director trusts the client to normalise (C20). "
    "Also: R-C08-5 a claim taken from a detached owner invalidates the owner's whole detached creator chain; R-C08-6 a declaration that lands under a detached static tree, or is matched by a detached step's pattern, invalidates that owner (otherwise the tree/pattern is revived unchecked by a full recycle)."
    ' R-C08-6b the invalidation covers every role of the declared file; R-C08-9 a volatile declaration invalidates detached consumers, and a step with an attached volatile input is not fully recycled.'
)
ASSUMPTIONS = ["labels arrive normalised from the client (C20)", "prefix selections are exact (C18)"]


def _norm(s):
    return re.sub(r"\s+", " ", s).strip()


def _order(fi, names):
    """Line numbers of the first call to each name in source order."""
    out = {}
    for c in calls_in(fi.node):
        nm = callee_name(c)
        if nm in names and nm not in out:
            out[nm] = c.lineno
    return out


def rule_claim_is_db_fact(ctx):
    """R-C08-1."""
    cat = ctx.cat
    uniq = [i for i in cat.indexes.values() if i.table == "node" and i.unique and [c[0] for c in i.columns] == ["kind", "label"]]
    ctx.check(bool(uniq) and all(c[1].upper() == "BINARY" for c in uniq[0].columns), "trellis.TRELLIS_SCHEMA", "UNIQUE (kind, label), BINARY collation", "the claim on a label is no longer a unique, byte-exact database fact", "unique binary index")
    ec = ctx.prog.func("workflow.Workflow._existing_claim")
    txt = " ".join(s.text for s in ctx.sql.stmts_in(ec.fq))
    ok = re.search(r"NOT node \. detached", txt) and re.search(r"node \. label = \?", txt) and re.search(r"node \. kind = 'file'", txt)
    ctx.check(bool(ok), ec.fq, "claim lookup: attached file node with exactly this label", "the claim lookup ignores attachedness or compares labels inexactly", "attached, exact label")
    ctx.check("role = FILE_ROLE_BY_STATE[FileState(state)]" in _norm(ast.unparse(ec.node)), ec.fq, "role derived from the stored state", "role provenance changed", "FILE_ROLE_BY_STATE")
    fa = ctx.prog.func("trellis.Trellis.find_attached")
    txt = " ".join(s.text for s in ctx.sql.stmts_in(fa.fq))
    ctx.check("NOT detached" in txt, fa.fq, "find_attached filters detached rows", "detached memories count as claims", "NOT detached")
    tc = ctx.prog.func("trellis.Trellis.create")
    ctx.check("if not detached: raise ConsistencyError" in _norm(ast.unparse(tc.node)), tc.fq, "creating over an attached node is refused", "an attached node can be overwritten", "last-resort guard")


def rule_guard_pairs(ctx):
    """R-C08-2."""
    FS = ctx.prog.enum("FileState")
    roles = ctx.prog.fold("enums", "FILE_STATES_BY_ROLE")
    # tree-then-file
    df = ctx.prog.func("workflow.Workflow._declare_file")
    o = _order(df, {"_find_owning_static_tree", "create", "_raise_if_forbidden_target"})
    ok = "_find_owning_static_tree" in o and "create" in o and o["_find_owning_static_tree"] < o["create"]
    ctx.check(ok, df.fq, "tree lookup precedes the creation of a file", "a file can be declared inside another creator's static tree", "before create")
    src = _norm(ast.unparse(df.node))
    ctx.check("if not isinstance(creator, StaticTree): static_tree = self._find_owning_static_tree(path) if static_tree is not None: if file_state == FileState.UNCONFIRMED: raise GraphError(_static_tree_file_message(static_tree.label, path)) raise GraphError(_static_tree_product_message(static_tree.label, path))" in src, df.fq, "any file under a foreign tree is refused, whatever its role", "the tree-ownership guard in _declare_file was weakened", "both roles raise")
    ctx.check("_raise_if_forbidden_target" in o and o["_raise_if_forbidden_target"] < o["create"], df.fq, "forbidden-target check precedes creation", "target check after creation", "before create")
    # file-then-tree
    rt = ctx.prog.func("workflow.Workflow.register_static_tree")
    stm = ctx.sql.stmts_in(rt.fq)
    scan = [s for s in stm if re.search(r"SELECT node \. i , node \. label , node \. creator , file \. state", s.text)]
    ok = bool(scan) and all(re.search(r"WHERE NOT node \. detached AND substr", s.text) and "state" not in s.text.split("WHERE")[1] for s in scan)
    ctx.check(ok, rt.fq, "scan covers every attached file under the tree, whatever its state", "the file-then-tree scan skips some attached files under the new tree", "all attached rows")
    src = _norm(ast.unparse(rt.node))
    ctx.check("if existing_state not in FILE_STATES_BY_ROLE[FileRole.STATIC]: raise GraphError(_static_tree_product_message(path, existing_path)) if existing_creator != creator.i: raise GraphError(_static_tree_file_message(path, existing_path))" in src, rt.fq, "products and foreign static files under the tree raise", "scan no longer rejects both kinds of conflicting rows", "both raise")
    lines = {nm: ln for nm, ln in _order(rt, {"_find_owning_static_tree", "create", "declare_static_files"}).items()}
    scan_line = min((s.site.lineno for s in scan), default=10 ** 9)
    ctx.check(lines.get("_find_owning_static_tree", 10 ** 9) < lines.get("create", 0) and scan_line < lines.get("create", 0), rt.fq, "owner lookup and scan precede the creation of the tree", "the tree is created before the conflicts are checked", "before create")
    shared.check_tree_adopts_all_detached(ctx, "some detached leftovers under a new tree stay with their old creator: a recycled step gets an output inside the tree")
    # glob-then-product
    ds = ctx.prog.func("workflow.Workflow.define_step")
    o = _order(ds, {"_raise_if_glob_match", "try_recycle", "create", "_raise_if_step_exists", "_check_declaration", "_raise_if_out_and_vol_overlap", "_raise_if_forbidden_target", "_raise_if_dir_inputs"})
    ctx.check(o.get("_raise_if_glob_match", 10 ** 9) < o.get("try_recycle", 0), ds.fq, "glob check precedes the recycle short-circuit", "a recycled step is not checked against patterns registered while it was detached", "before try_recycle", where=ctx.where_of(ds))
    ctx.check("self._raise_if_glob_match(step_label, out_paths + vol_paths)" in _norm(ast.unparse(ds.node)), ds.fq, "glob check covers outputs and volatile outputs", "glob check covers only part of the products", "out + vol")
    for nm in ("_raise_if_step_exists", "_check_declaration", "_raise_if_out_and_vol_overlap"):
        ctx.check(o.get(nm, 10 ** 9) < o.get("create", 0), ds.fq, f"{nm} precedes the creation of the step", f"{nm} runs after the step exists (or not at all)", "before create")
    ctx.check(o.get("_raise_if_forbidden_target", 10 ** 9) < o.get("try_recycle", 0), ds.fq, "volatile forbidden-target check precedes the recycle short-circuit", "a recycled step with a volatile target is not checked", "before try_recycle")
    am = ctx.prog.func("workflow.Workflow.amend_step")
    o = _order(am, {"_raise_if_glob_match", "_declare_file", "_raise_if_out_and_vol_overlap", "_check_declaration"})
    ctx.check(o.get("_raise_if_glob_match", 10 ** 9) < o.get("_declare_file", 0) and o.get("_raise_if_out_and_vol_overlap", 10 ** 9) < o.get("_declare_file", 0), am.fq, "glob and overlap checks precede amended declarations", "amended outputs are declared before they are checked", "before _declare_file")
    gm = ctx.prog.func("workflow.Workflow._raise_if_glob_match")
    txt = " ".join(s.text for s in ctx.sql.stmts_in(gm.fq))
    ctx.check("NOT node . detached" in txt and "nglob . regex" in txt, gm.fq, "checks every attached pattern's stored regex", "pattern selection changed", "attached patterns")
    # product-then-glob
    rn = ctx.prog.func("workflow.Workflow.register_nglob")
    q = [s.text for s in ctx.sql.stmts_in(rn.fq) if s.kind == "SELECT"]
    m = re.search(r"file \. state IN \(([^)]*)\)", " ".join(q))
    if not m:
        raise AnalysisError("state filter of register_nglob not found")
    sel = {int(x) for x in re.findall(r"\d+", m.group(1))}
    exp = {s.value for s in roles[ctx.prog.enum("FileRole").OUTPUT]} | {s.value for s in roles[ctx.prog.enum("FileRole").VOLATILE]}
    ctx.check(sel == exp and "NOT node . detached" in " ".join(q), rn.fq, "a match may not be an attached product (OUTPUT or VOLATILE role)", f"product query selects states {sorted(sel)}, expected {sorted(exp)}", "OUTPUT ∪ VOLATILE, attached")
    o = _order(rn, {"add_nglob", "execute"})
    ctx.check(o.get("execute", 10 ** 9) < o.get("add_nglob", 0), rn.fq, "product query precedes the registration", "pattern registered before its matches are validated", "before add_nglob")
    # step/step
    se = ctx.prog.func("workflow.Workflow._raise_if_step_exists")
    txt = " ".join(s.text for s in ctx.sql.stmts_in(se.fq))
    ctx.check("node . kind = 'step' AND NOT node . detached AND node . label = ?" in txt, se.fq, "duplicate = attached step with exactly this label", "duplicate-step lookup changed", "exact")
    # forbidden targets in _resolve_supply_file
    rs = ctx.prog.func("workflow.Workflow._resolve_supply_file")
    n = sum(1 for c in calls_in(rs.node) if callee_name(c) == "_raise_if_forbidden_target")
    ctx.check(n >= 2, rs.fq, "forbidden-target check on both supply paths (adopted by a tree, existing node)", f"{n} call(s)", "2 calls")
    ft = ctx.prog.func("workflow.Workflow._raise_if_forbidden_target")
    forb = ctx.prog.fold("enums", "TARGET_FORBIDDEN_STATES")
    ctx.check({s.name for s in forb} == {"UNCONFIRMED", "MISSING", "CONFIRMED", "VOLATILE"} and "path in self.targets and state in TARGET_FORBIDDEN_STATES" in ast.unparse(ft.node), ft.fq, "targets may not be static or volatile", "forbidden target states changed", "STATIC ∪ VOLATILE")
    ov = ctx.prog.func("workflow._raise_if_out_and_vol_overlap")
    ctx.check("overlap = set(out_paths) & set(vol_paths)" in ast.unparse(ov.node), ov.fq, "overlap = intersection of the two lists", "changed", "ok")


def rule_declare_after_check(ctx):
    """R-C08-3."""
    for fq in ("workflow.Workflow.define_step", "workflow.Workflow.amend_step"):
        fi = ctx.prog.func(fq)
        for c in calls_in(fi.node):
            if callee_name(c) == "_declare_file":
                p = ast.unparse(c.args[1])
                role = {"FileState.PLANNED": "FileRole.OUTPUT", "FileState.VOLATILE": "FileRole.VOLATILE"}.get(ast.unparse(c.args[2]))
                lst = {"out_path": "out_paths", "vol_path": "vol_paths"}.get(p)
                checked = False
                for c2 in calls_in(fi.node):
                    if callee_name(c2) == "_check_declaration" and c2.lineno < c.lineno and ast.unparse(c2.args[2]) == role:
                        a1 = ast.unparse(c2.args[1])
                        if a1 in (p, "path"):
                            checked = True
                ctx.check(checked and lst is not None, fq, f"_declare_file(..., {p}, {ast.unparse(c.args[2])}) after _check_declaration(..., {role})", "a product is declared without the claim check for its role", "checked first", where=ctx.where_of(fi, c))
    dsf = ctx.prog.func("workflow.Workflow.declare_static_files")
    src = _norm(ast.unparse(dsf.node))
    ctx.check("if self._check_declaration(declarer, path, FileRole.STATIC): to_declare.append((declarer, path))" in src and "self._declare_file(declarer, path, FileState.UNCONFIRMED) for declarer, path in to_declare" in src, dsf.fq, "static files are declared only when the claim check says 'new'", "static declaration bypasses the claim check", "via to_declare")
    callers = {c.split(".<locals>.")[0] for c in ctx.cg.callers_of("workflow.Workflow._declare_file", include_by_name=True)}
    ctx.check(callers == {"workflow.Workflow.define_step", "workflow.Workflow.amend_step", "workflow.Workflow.declare_static_files"}, "workflow.Workflow._declare_file", "called from the three declaration functions only", f"callers {sorted(callers)}", "three callers")
    # create(File, non-None, ...) sites
    n = 0
    for fi in ctx.prog.module("workflow").all_funcs.values():
        for c in calls_in(fi.node):
            if callee_name(c) == "create" and c.args and ast.unparse(c.args[0]) == "File":
                n += 1
                who = ast.unparse(c.args[1])
                ok = fi.fq in ("workflow.Workflow._declare_file", "workflow.Workflow._resolve_supply_file")
                ctx.check(ok, fi.fq, f"create(File, {who}, ...)", "a file node is created outside _declare_file / _resolve_supply_file", "allowed site")
    if n < 3:
        raise AnalysisError("create(File, ...) sites not found")


def rule_idempotent(ctx):
    """R-C08-4."""
    fi = ctx.prog.func("workflow.Workflow._check_declaration")
    FR = ctx.prog.enum("FileRole")

    class _C:
        def __init__(self, i):
            self.i = i

    class _Claim:
        def __init__(self, role, ci):
            self.role, self.creator = role, _C(ci)

    for same_role, same_creator in itertools.product((True, False), (True, False)):
        ov = {"claim.role == role": same_role, "claim.creator.i == creator.i": same_creator, "claim is None": False, "isinstance(creator, Node)": True}
        fp = finite.feasible_paths(ctx.prog, fi, {}, ov)
        outs = {("return " + e[1]) if e[0] == "return" else "raise" for tr, st in fp for e in tr if e[0] in ("return", "raise")}
        exp = {"return False"} if (same_role and same_creator) else {"raise"}
        ctx.check(outs == exp, fi.fq, f"existing claim: same role={same_role}, same creator={same_creator}", f"outcome {sorted(outs)}, expected {sorted(exp)}: a conflicting redeclaration is treated as a no-op (or a repeated one is rejected)", "no-op only for the same creator in the same role")
    fp = finite.feasible_paths(ctx.prog, fi, {}, {"claim is None": True})
    outs = {e[1] for tr, st in fp for e in tr if e[0] == "return"}
    ctx.check(outs == {"True"}, fi.fq, "no claim -> new", f"{outs}", "True")
    fp = finite.feasible_paths(ctx.prog, fi, {}, {"claim is None": False, "isinstance(creator, Node)": False})
    ctx.check(all(st == "raise" for tr, st in fp) and fp, fi.fq, "a creator that does not exist yet never holds the claim", "a phrase-only creator can get a no-op", "raises")


def rule_detached_counterparts(ctx):
    """R-C08-6: a detached static tree or glob pattern owns nothing, so a declaration that would conflict with it is
    accepted; it comes back unchecked when its step is recycled and skipped.  The declaration therefore has to take
    away the hash of the detached owner (the lost-product mechanism), so that the owner runs again and its own
    registration reports the conflict, as in a build from scratch."""
    def positive_detached(text, kind_pred):
        t = re.sub(r"\s+", " ", text)
        return re.search(r"(?<!NOT )\bnode \. detached\b", t) is not None and re.search(kind_pred, t) is not None

    def reach_with_helpers(fq):
        out, todo = [], [ctx.prog.func(fq)]
        seen = set()
        while todo:
            fi = todo.pop()
            if fi.fq in seen:
                continue
            seen.add(fi.fq)
            out.append(fi)
            for c in calls_in(fi.node):
                if isinstance(c.func, ast.Attribute) and isinstance(c.func.value, ast.Name) and c.func.value.id == "self" and c.func.attr.startswith("_") and len(seen) < 6:
                    try:
                        todo.append(ctx.prog.func(f"workflow.Workflow.{c.func.attr}"))
                    except AnalysisError:
                        pass
        return out

    for fq, kind_pred, what in (("workflow.Workflow._declare_file", r"kind = 'st'", "a detached static tree over the declared path"),
                                ("workflow.Workflow._raise_if_glob_match", r"\bnglob\b", "a pattern of a detached step that matches the declared product")):
        ok = False
        for fi in reach_with_helpers(fq):
            if fi.fq not in (fq,) and fi.fq in ("workflow.Workflow._find_owning_static_tree", "workflow.Workflow._raise_if_forbidden_target", "workflow.Workflow.create"):
                continue
            has_sql = any(positive_detached(st.text, kind_pred) for st in ctx.sql.stmts_in(fi.fq))
            has_inv = any(callee_name(c) == "after_lost_product" for c in calls_in(fi.node))
            ok = ok or (has_sql and has_inv)
        ctx.check(ok, fq, f"{what} has its owner invalidated", f"nothing looks for {what}: the owner is recycled and skipped later, the tree/pattern is attached again next to the conflicting declaration, and the plan that a build from scratch rejects is accepted", "detached lookup + after_lost_product", where=ctx.where_of(ctx.prog.func(fq)))


def rule_invalidation_for_every_role(ctx):
    """R-C08-6 (second part): the invalidation of detached tree owners happens for every role of the declared file."""
    df = ctx.prog.func("workflow.Workflow._declare_file")
    n = 0
    for tr, st in flow.paths_of(df):
        created = [k for k, e in enumerate(tr) if e[0] == "call" and e[1] == "self.create"]
        if not created:
            continue
        tests = [(e[1], e[2]) for e in tr[:created[0]] if e[0] == "test"]
        foreign = ("not isinstance(creator, StaticTree)", True) in tests or ("isinstance(creator, StaticTree)", False) in tests
        if not foreign:
            continue
        n += 1
        inv = any(e[0] == "call" and e[1] == "self._invalidate_detached_tree_creators" for e in tr[:created[0]])
        if not inv:
            ctx.bad(df.fq, "every declaration by a creator that is not a tree invalidates detached tree owners over the path", f"a path through {[t for t in tests if 'file_state' in t[0]][:3]} creates the file without looking for a detached tree above it: a static file (or product) declared below the tree of a dropped step is accepted, the step is later recycled and skipped, and tree and file end up attached side by side", where=ctx.where_of(df))
            return
    ctx.check(n > 0, df.fq, "every declaration by a creator that is not a tree invalidates detached tree owners over the path", "no creating path found", f"{n} paths")


def rule_glob_vs_declared_products(ctx):
    """R-C08-8: the rule 'a glob pattern may only match static files' is enforced in both arrival orders for every
    declared product, on disk or not: define_step/amend_step test the regex of every registered pattern against the
    declared paths, so register_nglob has to test the new pattern's regex against the products that are declared
    already (not only the matches the client found on disk against the product nodes)."""
    rn = ctx.prog.func("workflow.Workflow.register_nglob")
    uses_regex = any(isinstance(c.func, ast.Attribute) and c.func.attr in ("fullmatch", "match", "search") for c in calls_in(rn.node)) or any(callee_name(c) in ("_match_values", "matches") for c in calls_in(rn.node))
    ctx.check(uses_regex, rn.fq, "a new pattern is tested against the products that are declared already",
              "register_nglob only compares the on-disk matches sent by the client with the product nodes: an output that is declared but not built yet is not among them, so `step(out=o.txt)` followed by `glob(*.txt)` is accepted while the opposite order is rejected (and the accepted plan fails at the next restart, when the rescan finds o.txt)", "regex applied to declared product labels", where=ctx.where_of(rn))


def rule_detached_counterparts_more(ctx):
    """R-C08-7: the other declaration sites that can collide with something detached."""
    rt = ctx.prog.func("workflow.Workflow.register_static_tree")
    calls = [c for c in calls_in(rt.node) if callee_name(c) == "_invalidate_detached_tree_creators"]
    ok = any(any(k.arg == "nested" and ast.unparse(k.value) == "True" for k in c.keywords) for c in calls)
    ctx.check(ok, rt.fq, "a new static tree invalidates the owners of detached trees above and below it", "a detached tree that encloses, or lies inside, the new tree comes back unchecked when its step is recycled and skipped: two nested static trees end up attached, which a build from scratch rejects in either order", "_invalidate_detached_tree_creators(..., nested=True)", where=ctx.where_of(rt))
    hp = ctx.prog.func("workflow.Workflow._invalidate_detached_tree_creators")
    texts = [re.sub(r"\s+", " ", st.text) for st in ctx.sql.stmts_in(hp.fq)]
    up = any("node . label = substr" in t and re.search(r"(?<!NOT )node \. detached", t) for t in texts)
    down = any("substr ( node . label" in t and re.search(r"(?<!NOT )node \. detached", t) for t in texts)
    ctx.check(up and down, hp.fq, "the helper looks for detached trees over the path and, for a new tree, below it", f"directions found: enclosing={up} enclosed={down}", "both directions")
    rs = ctx.prog.func("workflow.Workflow._resolve_supply_file")
    n_und = 0
    for tr, st in flow.paths_of(rs):
        creates = [k for k, e in enumerate(tr) if e[0] == "call" and e[1] == "self.create" and "None" in [ast.unparse(a) for a in e[2].args[:2]]]
        if not creates:
            continue
        n_und += 1
        inv = any(e[0] == "call" and e[1] == "self._invalidate_detached_tree_creators" for e in tr[creates[0]:])
        ctx.check(inv, rs.fq, "an undeclared input under a detached static tree invalidates the tree's owner", "the tree's step is recycled and skipped later, so the revived tree never adopts the file: the consumer stays blocked on an UNDECLARED input for ever, while a build from scratch succeeds", "invalidation after create(File, None, ...)", where=ctx.where_of(rs, tr[creates[0]][2]))
    if n_und == 0:
        raise AnalysisError("_resolve_supply_file no longer creates undeclared nodes")
    n_vol = 0
    for tr, st in flow.paths_of(rs):
        tests = [(e[1], e[2]) for e in tr if e[0] == "test"]
        if ("state == FileState.VOLATILE", True) not in tests:
            continue
        n_vol += 1
        det = dict((t, v) for t, v in tests if t in ("not detached", "detached"))
        attached = det.get("not detached") is True or det.get("detached") is False
        rejected = any(e[0] == "call" and e[1] == "_volatile_input_message" for e in tr)
        if attached:
            ctx.check(st == "raise" and rejected, rs.fq, "an attached volatile output cannot be an input", "accepted", "raises")
        else:
            inv = any(e[0] == "call" and e[1].endswith("after_lost_product") for e in tr) or ("isinstance(old_creator, Step)", False) in tests
            ctx.check(not rejected and inv, rs.fq, "a detached VOLATILE memory does not reject an input; its creator is invalidated instead", "the VOLATILE state of a detached node (a memory of a dropped step) rejects a valid input for ever, or the volatile producer comes back unchecked next to a consumer", "no raise + after_lost_product")
    if n_vol == 0:
        raise AnalysisError("_resolve_supply_file: VOLATILE branch not found")


def rule_volatile_vs_detached_consumer(ctx):
    """R-C08-9: 'a volatile output cannot be an input' when the consumer is the detached side.

    R-C08-7 covers a detached volatile producer meeting a new consumer.  Here the consumer is
    detached when the volatile output is declared: the declaration cannot raise (a detached edge is
    a memory), so it must make sure the consumer cannot come back without being looked at, and the
    recycle short-circuit must refuse a step whose input became volatile.
    """
    df = ctx.prog.func("workflow.Workflow._declare_file")
    n_vol = 0
    for tr, st in flow.paths_of(df):
        created = [k for k, e in enumerate(tr) if e[0] == "call" and e[1] == "self.create"]
        if not created:
            continue
        after = tr[created[0]:]
        if ("file_state == FileState.VOLATILE", True) not in [(e[1], e[2]) for e in after if e[0] == "test"]:
            continue
        n_vol += 1
        attached_test = [(e[1], e[2]) for e in after if e[0] == "test" and "sinks()" in e[1]]
        if any(v for _, v in attached_test):
            ctx.check(st == "raise", df.fq, "an attached consumer rejects the volatile declaration", "accepted", "raises")
            continue
        loops = [e for e in after if e[0] == "loop" and "sinks(" in str(e[1]) and "include_detached=True" in str(e[1])]
        ok = bool(loops) and _loop_invalidates(loops[0][3])
        ctx.check(ok, df.fq, "a volatile declaration invalidates its detached consumers and their detached creators", "a detached consumer of the path comes back unseen when its creator is recycled and skipped: an attached volatile file ends up with an attached consumer, which a build from scratch rejects in either order", "after_lost_product() for every sink, detached ones included", where=ctx.where_of(df))
    if n_vol == 0:
        raise AnalysisError("_declare_file: VOLATILE branch not found")
    # Step.can_recycle refuses a full recycle when an input (initial or amended) is an attached volatile output now
    cr = ctx.prog.func("step.Step.can_recycle")
    guards = []
    for n in ast.walk(cr.node):
        if isinstance(n, ast.Return) and isinstance(n.value, ast.Constant) and n.value.value is False:
            chain = _enclosing_conditions(cr.node, n)
            guards.append(" && ".join(chain))
    hit = [g for g in guards if "FileState.VOLATILE" in g and "inp_paths(" in g]
    ctx.check(bool(hit), cr.fq, "a step with an attached volatile input is not fully recycled", "the recycle short-circuit of define_step brings the edge from a volatile output back without the check that a fresh definition gets (_resolve_supply_file): the plan is accepted in one order and rejected in the other", "return False on a VOLATILE input", where=ctx.where_of(cr))
    if hit:
        m = re.search(r"inp_paths\(([^)]*)\)", hit[0])
        ctx.check(m is not None and "dynamic=False" not in m.group(1) and "dynamic=True" not in m.group(1), cr.fq, "amended inputs are looked at as well", f"only inp_paths({m.group(1) if m else '?'}) is examined", "inp_paths() without a dynamic filter")
        ctx.check("states=" not in (m.group(1) if m else ""), cr.fq, "no state filter hides the volatile rows", "state filter present", "none")


def _loop_invalidates(loop):
    return isinstance(loop, (ast.For, ast.AsyncFor)) and any(callee_name(c) == "after_lost_product" for c in calls_in(loop))


def _enclosing_conditions(root, node):
    """Source text of the if-tests and for-iterables (and comprehension sources) that enclose ``node``."""
    out = []

    def walk(n, acc):
        if n is node:
            out.extend(acc)
            return True
        for child in ast.iter_child_nodes(n):
            extra = []
            if isinstance(n, ast.If) and child in n.body:
                extra = [ast.unparse(n.test)]
            elif isinstance(n, (ast.For, ast.AsyncFor)) and child in n.body:
                extra = [ast.unparse(n.iter)]
            if walk(child, acc + extra):
                return True
        return False

    walk(root, [])
    return out


def rule_lost_claim_is_rechecked(ctx):
    """R-C08-5: when a new declaration takes a path from a detached owner, every plan that would declare the old owner
    again has to run again, so that the conflict is reported in that order too."""
    shared.check_lost_product_chain(ctx, "only the immediate creator of the old owner is invalidated: a plan two levels up is recycled and skipped, so the two conflicting declarations are both accepted when the new one arrives first")
    for fq in ("trellis.Trellis.create", "trellis.Node.reattach"):
        fi = ctx.prog.func(fq)
        ctx.check(any(callee_name(c) == "after_lost_product" for c in calls_in(fi.node)), fq, "a take-over notifies the old creator", "a path is taken from its detached owner silently", "after_lost_product")


RULES = [
    Rule("R-C08-1", "the claim is a database fact", rule_claim_is_db_fact, min_instances=5),
    Rule("R-C08-2", "every conflict relation is guarded in both directions, before the mutation", rule_guard_pairs, min_instances=20),
    Rule("R-C08-3", "declare only after the claim check", rule_declare_after_check, min_instances=9),
    Rule("R-C08-8", "a new glob pattern is tested against declared products", rule_glob_vs_declared_products, min_instances=1),
    Rule("R-C08-9", "volatile outputs against detached consumers and the recycle short-circuit", rule_volatile_vs_detached_consumer, min_instances=4),
    Rule("R-C08-7", "nested trees, undeclared inputs and volatile memories against detached declarations", rule_detached_counterparts_more, min_instances=3),
    Rule("R-C08-6", "declarations that conflict with a detached tree or pattern invalidate its owner", rule_detached_counterparts, min_instances=2),
    Rule("R-C08-6b", "the invalidation covers every role of the declared file", rule_invalidation_for_every_role, min_instances=1),
    Rule("R-C08-5", "a claim taken from a detached owner is re-examined when the owner's plans run again", rule_lost_claim_is_rechecked, min_instances=4),
    Rule("R-C08-4", "idempotent redeclaration", rule_idempotent, min_instances=6),
]

MUTANTS = [
    Mutant("tree-owner-invalidated-for-products-only", "workflow.py", in_function("Workflow._declare_file", replace_once("            self._invalidate_detached_tree_creators(creator, path)\n", "            if file_state != FileState.UNCONFIRMED:\n                self._invalidate_detached_tree_creators(creator, path)\n")), ("R-C08-6b",)),
    Mutant("volatile-ignores-detached-consumers", "workflow.py", in_function("Workflow._declare_file", replace_once("            for sink in file.sinks(Step, include_detached=True):\n                sink.after_lost_product()\n", "")), ("R-C08-9",)),
    Mutant("volatile-invalidates-attached-only", "workflow.py", in_function("Workflow._declare_file", replace_once("            for sink in file.sinks(Step, include_detached=True):\n", "            for sink in file.sinks(Step):\n")), ("R-C08-9",)),
    Mutant("recycle-keeps-volatile-input", "step.py", in_function("Step.can_recycle", replace_once("        if any(r.state == FileState.VOLATILE and not r.detached for r in self.inp_paths()):\n            return False\n", "")), ("R-C08-9",)),
    Mutant("recycle-checks-initial-inputs-only", "step.py", in_function("Step.can_recycle", replace_once("not r.detached for r in self.inp_paths()):", "not r.detached for r in self.inp_paths(dynamic=False)):")), ("R-C08-9",)),
    Mutant("new-tree-ignores-detached-trees", "workflow.py", in_function("Workflow.register_static_tree", replace_once("        self._invalidate_detached_tree_creators(creator, path, nested=True)\n", "")), ("R-C08-7",)),
    Mutant("undeclared-under-detached-tree", "workflow.py", in_function("Workflow._resolve_supply_file", replace_once("            self._invalidate_detached_tree_creators(step, path)\n", "")), ("R-C08-7",)),
    Mutant("volatile-memory-rejects", "workflow.py", in_function("Workflow._resolve_supply_file", replace_once("                if not detached:\n                    raise GraphError(_volatile_input_message(path))\n", "                raise GraphError(_volatile_input_message(path))\n")), ("R-C08-7",)),
    Mutant("detached-tree-not-invalidated", "workflow.py", in_function("Workflow._declare_file", replace_once("            self._invalidate_detached_tree_creators(creator, path)\n", "")), ("R-C08-6",)),
    Mutant("detached-pattern-not-invalidated", "workflow.py", in_function("Workflow._raise_if_glob_match", replace_once("                Step(self, i, label).after_lost_product()\n", "                pass\n")), ("R-C08-6",)),
    Mutant("lost-product-one-level", "step.py", in_function("Step.after_lost_product", replace_once("creator.after_lost_product()", "creator.delete_hash()")), ("R-C08-5",)),
    Mutant("nonunique-index", "trellis.py", replace_once("CREATE UNIQUE INDEX IF NOT EXISTS node_kind_label ON node (kind, label);", "CREATE INDEX IF NOT EXISTS node_kind_label ON node (kind, label);"), ("R-C08-1",)),
    Mutant("no-tree-lookup", "workflow.py", in_function("Workflow._declare_file", lambda s: s.replace("        if not isinstance(creator, StaticTree):\n            static_tree = self._find_owning_static_tree(path)\n", "        if False:\n            static_tree = self._find_owning_static_tree(path)\n") if "static_tree = self._find_owning_static_tree(path)" in s else None), ("R-C08-2",)),
    Mutant("glob-check-after-recycle", "workflow.py", in_function("Workflow.define_step", lambda s: s.replace("        self._raise_if_glob_match(step_label, out_paths + vol_paths)\n", "", 1).replace("        self._raise_if_step_exists(creator, step_label)\n", "        self._raise_if_glob_match(step_label, out_paths + vol_paths)\n        self._raise_if_step_exists(creator, step_label)\n", 1) if "self._raise_if_glob_match(step_label, out_paths + vol_paths)" in s else None), ("R-C08-2",)),
    Mutant("adoption-skips-planned", "workflow.py", in_function("Workflow.register_static_tree", replace_once('            f"WHERE node.detached AND {clause}"\n', '            f"WHERE node.detached AND {clause} AND file.state NOT IN ({FileState.PLANNED.value}, {FileState.VOLATILE.value})"\n')), ("R-C08-2",)),
    Mutant("scan-static-only", "workflow.py", in_function("Workflow.register_static_tree", replace_once('            f"WHERE NOT node.detached AND {clause} "\n            "ORDER BY node.label"', '            f"WHERE NOT node.detached AND {clause} AND file.state IN (12, 13, 14) "\n            "ORDER BY node.label"')), ("R-C08-2",)),
    Mutant("glob-query-output-only", "workflow.py", in_function("Workflow.register_nglob", lambda s: s.replace("                for state in FILE_STATES_BY_ROLE[FileRole.OUTPUT]\n                | FILE_STATES_BY_ROLE[FileRole.VOLATILE]\n", "                for state in FILE_STATES_BY_ROLE[FileRole.OUTPUT]\n") if "| FILE_STATES_BY_ROLE[FileRole.VOLATILE]" in s else None), ("R-C08-2",)),
    Mutant("amend-no-overlap-check", "workflow.py", in_function("Workflow.amend_step", lambda s: s.replace("        _raise_if_out_and_vol_overlap(\n            _creator_phrase(Step.kind(), step.label), out_paths, vol_paths\n        )\n", "") if "_raise_if_out_and_vol_overlap(" in s else None), ("R-C08-2",)),
    Mutant("declare-without-check", "workflow.py", in_function("Workflow.define_step", lambda s: s.replace("        for vol_path in vol_paths:\n            self._check_declaration(step_phrase, vol_path, FileRole.VOLATILE)\n", "") if "self._check_declaration(step_phrase, vol_path, FileRole.VOLATILE)" in s else None), ("R-C08-3", "R-C08-2")),
    Mutant("noop-ignores-role", "workflow.py", in_function("Workflow._check_declaration", replace_once("            if claim.role == role and claim.creator.i == creator.i:", "            if claim.creator.i == creator.i:")), ("R-C08-4",)),
    Mutant("noop-ignores-creator", "workflow.py", in_function("Workflow._check_declaration", replace_once("            if claim.role == role and claim.creator.i == creator.i:", "            if claim.role == role:")), ("R-C08-4",)),
    Mutant("claim-includes-detached", "workflow.py", in_function("Workflow._existing_claim", replace_once("\"WHERE node.kind = 'file' AND NOT node.detached AND node.label = ?\"", "\"WHERE node.kind = 'file' AND node.label = ?\"")), ("R-C08-1",)),
]

VARIANTS = []
