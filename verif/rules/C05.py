"""C05 — a build killed at any point is completed correctly after restart (structural clauses)."""
from __future__ import annotations

import ast
import re

from ..engine import flow
from ..engine.mutate import Mutant, Variant, in_function, replace_once
from ..engine.runner import Rule
from ..engine.source import AnalysisError
from . import C07
from . import shared
from .common import callee_name, calls_in, norm_record_events

EXPLANATION = (
    "Static analysis of crash consistency. Transaction regions: every function that executes SQL through the "
    "DBSession is classified needs-transaction / opens-transaction by a fixed point over the call graph; every task "
    "entry point (RPC handlers, job coroutines, job_loop, finalize, watcher, startup, serve) must not need a "
    "transaction from its caller, and no opens-transaction function is reachable from inside a region (nesting would "
    "raise or split atomicity). Completion of a job, a skip and a dispatch are each one region. Every transient state "
    "has a recovery: the states written by dispatch are the states reset at startup (folded bound parameters), failed "
    "steps go through the ordinary invalidation, stray UNCONFIRMED files are resolved by rescan_files, holds are reset "
    "by trigger. The deletion queue must be consumed or persisted before the deleting transaction commits (known "
    "finding F5). Connection pragmas and the open-time consistency check are unconditional. Decides these clauses, "
    "not equality with the uninterrupted build for every crash point. "
    'Also: a step interrupted while detached is retried by after_recycle (state table shared with C04); the cleanup sequence of a completed build is not conditional on what this session executed (shared with C07).'
    " R-C05-8 what the startup rescans select reaches its reaction (def-use), and re-pending steps and storing a changed variable's value are one transaction."
)
ASSUMPTIONS = ["SQLite WAL transactions are atomic and durable up to the last commit (synchronous=OFF may lose the tail, never corrupt)"]

DBCTX = lambda s: s.split(".")[-1] == "db"  # noqa: E731


def _norm(s):
    return re.sub(r"\s+", " ", s).strip()


class TxModel:
    def __init__(self, ctx):
        self.ctx = ctx
        prog, cg = ctx.prog, ctx.cg
        self.regions = {}  # fq -> [(start, end)]
        self.sql_out = {}  # fq -> [lineno] of DBSession SQL outside a region
        for fi in prog.all_functions():
            regs = []
            for n in ast.walk(fi.node):
                if isinstance(n, ast.AsyncWith) and any(DBCTX(ast.unparse(it.context_expr)) for it in n.items):
                    regs.append((n.lineno, n.end_lineno))
            self.regions[fi.fq] = regs
        for site in ctx.sql.census.sites:
            recv = site.receiver.split(".")[-1]
            if recv not in ("db",):
                continue  # raw sqlite3 connections (clean, browse, DBSession internals) are not the session
            fq = site.func.fq
            if not self._inside(fq, site.lineno):
                self.sql_out.setdefault(fq, []).append(site.lineno)
        # fixed point: needs-transaction
        self.needs = {fq: bool(v) for fq, v in self.sql_out.items()}
        self.why = {fq: f"SQL at line {v[0]}" for fq, v in self.sql_out.items()}
        changed = True
        while changed:
            changed = False
            for fq, sites in cg.sites.items():
                if self.needs.get(fq):
                    continue
                for cs in sites:
                    if cs.by_name:
                        continue
                    if self._inside(fq, cs.node.lineno):
                        continue
                    for t in cs.targets:
                        if self.needs.get(t.fq) and t.fq != fq:
                            self.needs[fq] = True
                            self.why[fq] = f"calls {t.fq} at line {cs.node.lineno} ({self.why[t.fq]})"
                            changed = True
                            break
                    if self.needs.get(fq):
                        break
        # opens-transaction (transitively, through resolved calls)
        self.opens = {fq: bool(r) for fq, r in self.regions.items()}
        changed = True
        while changed:
            changed = False
            for fq, sites in cg.sites.items():
                if self.opens.get(fq):
                    continue
                for cs in sites:
                    if cs.by_name:
                        continue
                    if any(self.opens.get(t.fq) and t.is_async for t in cs.targets):
                        self.opens[fq] = True
                        changed = True
                        break

    def _inside(self, fq, lineno):
        base = fq
        while True:
            if any(a <= lineno <= b for a, b in self.regions.get(base, [])):
                return True
            if ".<locals>." in base:
                base = base.rsplit(".<locals>.", 1)[0]
                continue
            return False


ENTRY_POINTS = [
    "builder.Builder.job_loop", "builder.Builder.finalize", "builder.Builder.run_once", "builder.Builder.handle_done_tasks", "builder.Builder.run_promoted_hash_jobs",
    "builder.Builder.stop", "executor.Executor.execute_job", "executor.Executor.try_skip_job", "executor.Executor.validate_dynamic_job", "executor.Executor.run_hash_job",
    "watcher.Watcher.run_once", "startup.resume_from_db", "director.serve", "director._wire_director", "scheduler.Scheduler.build_completed", "scheduler.Scheduler.initialize",
    "scheduler.Scheduler.pop_next_job", "finalize.report_unbuilt", "finalize.revert_optional_steps", "finalize.remove_deletable_files", "trellis.Trellis.initialize",
]


def rule_transactions(ctx):
    """R-C05-1."""
    tm = TxModel(ctx)
    roots = list(ENTRY_POINTS)
    cls = ctx.prog.cls("director.DirectorHandler")
    roots += [fi.fq for fi in cls.methods.values() if "allow_rpc" in fi.decorators()]
    for fq in roots:
        ctx.prog.func(fq)
        ctx.check(not tm.needs.get(fq, False), fq, "all SQL reachable from this entry point runs inside an `async with db` region",
                  f"SQL is executed outside any transaction: {tm.why.get(fq, '')}", "protected", where=ctx.where_of(ctx.prog.func(fq)))
    # nesting
    n = 0
    for fq, regs in tm.regions.items():
        if not regs:
            continue
        for cs in ctx.cg.sites.get(fq, []):
            if cs.by_name or not tm._inside(fq, cs.node.lineno):
                continue
            for t in cs.targets:
                n += 1
                if tm.opens.get(t.fq) and t.is_async:
                    ctx.bad(fq, f"{cs.src}(...) inside a region", f"{t.fq} opens a transaction itself and is called inside a region of the same task: DBSession raises on nested use (or atomicity is split)", where=ctx.where_of(cs.caller, cs.node))
    ctx.ok("all regions", f"{sum(len(r) for r in tm.regions.values())} regions, {n} resolved calls inside regions", "no opens-transaction callee inside a region")
    ctx.stats["regions"] = sum(len(r) for r in tm.regions.values())
    if sum(len(r) for r in tm.regions.values()) < 30:
        raise AnalysisError("fewer than 30 `async with db` regions found")


def rule_atomic_units(ctx):
    """R-C05-2."""
    ts = ctx.prog.func("executor.Executor.try_skip_job")
    for tr, st in flow.paths_of(ts):
        tr = norm_record_events(ctx.prog, tr)
        mc = [k for k, e in enumerate(tr) if e[0] == "call" and e[1] == "step.mark_completed"]
        for k in mc:
            reg = flow.region_of(tr, k, DBCTX)
            upd = [j for j, e in enumerate(tr) if e[0] == "call" and e[1].endswith("update_file_hashes")]
            ok = reg is not None and upd and reg[0] < upd[-1] < k and not [a for a in flow.awaits_between(tr, reg[0] + 1, k) if not a[1].startswith("<a")]
            ctx.check(ok, ts.fq, "skip: output hashes and completion in one region", "skip completion is split over transactions: a crash between them leaves a PLANNED output under a SUCCEEDED step or the reverse", "one region", where=ctx.where_of(ts))
    ex = ctx.prog.func("executor.Executor.execute_job")
    for tr, st in flow.paths_of(ex):
        tr = norm_record_events(ctx.prog, tr)
        so = [k for k, e in enumerate(tr) if e[0] == "call" and e[1] == "step.set_outcome"]
        mc = [k for k, e in enumerate(tr) if e[0] == "call" and e[1] == "step.mark_completed"]
        for k in so:
            ok = bool(mc) and flow.region_of(tr, k, DBCTX) == flow.region_of(tr, mc[0], DBCTX) and flow.region_of(tr, k, DBCTX) is not None
            ctx.check(ok, ex.fq, "captured output is stored in the completion transaction", "outcome stored in another transaction than the completion", "same region")
        for k in mc:
            upd = [j for j, e in enumerate(tr) if e[0] == "call" and e[1].endswith("update_file_hashes") and "new_out_hashes" in ast.unparse(e[2])]
            ok = bool(upd) and flow.region_of(tr, k, DBCTX) is not None and flow.region_of(tr, k, DBCTX) == flow.region_of(tr, upd[0], DBCTX)
            ctx.check(ok, ex.fq, "run: output hashes and completion in one region", "completion of a run is split over transactions", "one region")
    ff = ctx.prog.func("executor.Executor._finalize_failed_run")
    ok = all(flow.region_of(tr, k, DBCTX) is not None for tr, st in flow.paths_of(ff) for k, e in enumerate(tr) if e[0] == "call" and e[1].endswith("mark_completed"))
    ctx.check(ok, ff.fq, "failure completion inside a region", "outside a region", "in region")


def rule_recovery(ctx):
    """R-C05-3."""
    SS, FS = ctx.prog.enum("StepState"), ctx.prog.enum("FileState")
    g = ctx.prog.func("scheduler.Scheduler._get_next_step")
    written = {n.attr for n in ast.walk(g.node) if isinstance(n, ast.Attribute) and isinstance(n.value, ast.Name) and n.value.id == "StepState"}
    pairs = set()
    for s in ctx.sql.census.sites_in("startup.reset_interrupted_steps"):
        for p in s.params:
            if isinstance(p, tuple) and len(p) == 2:
                pairs.add(p)
    reset_from = {SS(b).name for a, b in pairs if isinstance(b, int)}
    ctx.check(written <= reset_from and written, "startup.reset_interrupted_steps", f"every state written by dispatch ({sorted(written)}) is reset at startup",
              f"dispatch writes {sorted(written)} but startup resets only {sorted(reset_from)}: an interrupted step stays in a transient state for ever", f"resets {sorted(reset_from)}")
    to = {SS(b).name: SS(a).name for a, b in pairs if isinstance(a, int) and isinstance(b, int)}
    ctx.check(to.get("RUNNING") == "FAILED", "startup.reset_interrupted_steps", "interrupted RUNNING -> FAILED (then through mark_step_pending)", f"RUNNING is reset to {to.get('RUNNING')}: the outputs of the interrupted run are not outdated", "FAILED")
    ctx.check(to.get("CHECKING") in ("PENDING",), "startup.reset_interrupted_steps", "interrupted CHECKING -> PENDING", f"CHECKING -> {to.get('CHECKING')}", "PENDING")
    ri = ctx.prog.func("startup.reset_interrupted_steps")
    src = _norm(ast.unparse(ri.node))
    shared.check_failed_steps_retried(ctx, "a step that was RUNNING and detached at the kill is reset to FAILED by the raw update but not re-pended: after the restart it is reattached FAILED when an ancestor is recycled and skipped, and the build fails where the uninterrupted build succeeds")
    # both resets run at every start: not under a condition (e.g. 'only when a step had failed')
    parents = {}
    for n in ast.walk(ri.node):
        for c in ast.iter_child_nodes(n):
            parents[c] = n
    for st in ctx.sql.stmts_in(ri.fq):
        if st.kind == "UPDATE" and any(w[0] == "UPDATE" and w[1] == "step" and w[2] == "state" for w in st.writes):
            node, guard = st.site.call, None
            while node in parents:
                node = parents[node]
                if isinstance(node, (ast.If, ast.For, ast.While, ast.Try)):
                    guard = ast.unparse(node.test)[:60] if isinstance(node, (ast.If, ast.While)) else type(node).__name__
                    break
            ctx.check(guard is None, ri.fq, "the raw reset of a transient state runs unconditionally", f"the reset is only executed under `{guard}`: with nothing else to retry, a step that was being checked (or was running) at the kill keeps its transient state for ever and the restarted build ends pending", "top level of the start-up transaction", where=f"stepup/core/startup.py:{st.site.lineno}")
    rf0 = ctx.prog.func("startup.rescan_files")
    for st in ctx.sql.stmts_in(rf0.fq):
        if st.kind == "SELECT":
            flat = re.sub(r"\s+", " ", st.text)
            ctx.check(re.search(r"\bhash\b\s*(IS|=|!=|<>)", flat.split(" FROM ", 1)[-1], re.I) is None, rf0.fq, "the rescan does not leave out rows by their stored hash", "rows without a stored hash are skipped: a file whose first confirmation was interrupted by the kill stays UNCONFIRMED, its consumers stay blocked and the restarted build ends pending", "no condition on hash", where=f"stepup/core/startup.py:{st.site.lineno}")
    for st in ctx.sql.stmts_in(ri.fq):
        if st.kind == "UPDATE":
            ctx.check("detached" not in st.text, ri.fq, "raw reset also covers detached steps", "the reset filters on detached: a detached step that was running stays RUNNING for ever", "no detached filter")
    # the startup reset re-pends attached FAILED steps only; a step that was running *and detached* at the kill stays
    # FAILED until its creator declares it again, and after_recycle is what retries it then
    shared.check_after_recycle_repends(ctx, "a step that was interrupted while detached stays FAILED after the restart and is never retried, although the uninterrupted build would have completed it")
    ms = ctx.prog.func("workflow.Workflow.mark_step_pending")
    ctx.check("if state in (StepState.SUCCEEDED, StepState.FAILED):" in ast.unparse(ms.node), ms.fq, "FAILED steps have their BUILT outputs outdated", "mark_step_pending no longer outdates outputs for FAILED", "outdates")
    rf = ctx.prog.func("startup.rescan_files")
    src = _norm(ast.unparse(rf.node))
    ctx.check("HashUpdateCause.CONFIRMED if FileState(state) == FileState.UNCONFIRMED else HashUpdateCause.EXTERNAL" in src, rf.fq, "stray UNCONFIRMED files are resolved through the CONFIRMED cause", "interrupted confirmations are not resolved at startup", "CONFIRMED cause")
    excl = set()
    for s in ctx.sql.census.sites_in("startup.rescan_files"):
        for p in s.params:
            if isinstance(p, tuple):
                excl |= set(p)
    ctx.check(FS.UNCONFIRMED.value not in excl, rf.fq, "UNCONFIRMED rows are included in the rescan", "UNCONFIRMED rows are excluded from the startup rescan", "included")
    tr = ctx.cat.triggers.get("step_reset_holding")
    ctx.check(tr is not None and tr.op == "UPDATE" and "state" in tr.of_cols, "step.STEP_SCHEMA", "hold counter is reset by trigger on every state change away from RUNNING", "trigger missing", "(truth table in R-C10-4)")
    ex = ctx.prog.func("executor.Executor.execute_job")
    seq = [e for e in [callee_name(c) for c in calls_in(ex.node)] if e in ("reset_for_rerun", "_run_command")]
    ctx.check(seq[:2] == ["reset_for_rerun", "_run_command"], ex.fq, "outputs are outdated (committed) before the command can touch them", "the command may overwrite outputs that the database still calls BUILT", "reset committed first")


def rule_journal(ctx):
    """R-C05-4."""
    wf = ctx.prog.cls("workflow.Workflow")
    persisted = "to_be_deleted" not in wf.fields
    fi = ctx.prog.func("builder.Builder.finalize")
    for tr, st in flow.paths_of(fi):
        dd = [k for k, e in enumerate(tr) if e[0] == "call" and e[1].endswith("delete_detached")]
        rm = [k for k, e in enumerate(tr) if e[0] == "call" and e[1] == "remove_deletable_files"]
        if not dd or not rm:
            continue
        reg = flow.region_of(tr, dd[0], DBCTX)
        consumed_before_commit = reg is not None and reg[0] < rm[0] < reg[1]
        ctx.check(persisted or consumed_before_commit, fi.fq, "deletion queue is persisted or consumed before the deleting transaction commits",
                  "nodes are deleted (committed) before their files are removed, and Workflow.to_be_deleted lives in memory only: a kill between the two leaves orphan files that no later build removes", "journalled", where=ctx.where_of(fi))
    rv = ctx.prog.func("finalize.revert_optional_steps")
    ctx.check("workflow.to_be_deleted.update(to_be_deleted)" in _norm(ast.unparse(rv.node)), rv.fq, "optional revert uses the same queue", "", "same queue (covered by the finding above)")


def rule_connection(ctx):
    """R-C05-5."""
    fi = ctx.prog.func("sqlite3.connect")
    top = []
    cond = []
    for s in fi.node.body:
        for c in calls_in(s):
            if callee_name(c) == "execute" and c.args and isinstance(c.args[0], ast.Constant):
                (cond if isinstance(s, ast.If) else top).append(c.args[0].value)
    ctx.check(any(re.fullmatch(r"PRAGMA foreign_keys\s*=\s*ON", t) for t in top), fi.fq, "foreign keys are enabled on every connection", "foreign key enforcement is conditional or missing: ON DELETE CASCADE cleanup of satellite rows stops working", "unconditional")
    rw = [s for s in fi.node.body if isinstance(s, ast.If) and _norm(ast.unparse(s.test)) == "not read_only"]
    wal = any(re.fullmatch(r"PRAGMA journal_mode\s*=\s*WAL", t) for t in cond)
    ctx.check(bool(rw) and wal, fi.fq, "WAL journal on every read-write connection", "journal mode is not WAL for read-write connections", "WAL")
    ctx.check("con.isolation_level = None" in ast.unparse(fi.node), fi.fq, "autocommit mode: transactions start only at BEGIN IMMEDIATE", "legacy implicit transactions are back", "isolation_level None")
    shared.check_rollback_possible(ctx, "a transaction interrupted by the kill is not rolled back there when the database is opened again")
    ae = ctx.prog.func("sqlite3.DBSession.__aenter__")
    ctx.check("con.execute('BEGIN IMMEDIATE')" in ast.unparse(ae.node), ae.fq, "BEGIN IMMEDIATE", "transactions are not opened with BEGIN IMMEDIATE", "ok")


def rule_open_check(ctx):
    """R-C05-6."""
    ti = ctx.prog.func("trellis.Trellis.initialize")
    for tr, st in flow.paths_of(ti):
        tests = [(e[1], e[2]) for e in tr if e[0] == "test"]
        if ("is_fresh", False) in tests or ("root is None", False) in tests or ("root is not None", True) in tests:
            names = [e[1] for e in tr if e[0] == "call"]
            ok = "self._rebuild_temp_tables" in names and "self._check_consistency" in names
            k = [i for i, e in enumerate(tr) if e[0] == "call" and e[1] == "self._check_consistency"]
            ctx.check(ok and k and flow.region_of(tr, k[0], DBCTX) is not None, ti.fq, "existing database: temp tables rebuilt and consistency checked inside the region", "an existing database is opened without the consistency check", "checked at open")
    wd = ctx.prog.func("director._wire_director")
    seq = [callee_name(c) for c in calls_in(wd.node)]
    ctx.check("initialize" in seq and seq.index("initialize") < seq.index("Scheduler"), wd.fq, "workflow.initialize() precedes every other component", "components are built before the database is checked", "first")


def rule_startup_wiring(ctx):
    """R-C05-8: what the startup rescans find reaches the code that reacts to it."""
    shared.check_startup_rescans_wired(ctx, "the restart looks at the file system but the result goes nowhere: a file, glob match or variable that changed while StepUp was down (or while it was killed) is not acted upon and the resumed build skips steps that an uninterrupted build runs")


def rule_open_without_root(ctx):
    """R-C05-10: a database that has its schema but no root node is completed at the next start, not rejected.

    The schema is applied and committed before the transaction that creates the root.  A kill in between leaves
    tables without a root; a start that takes `find(Root, '')` for granted then dies on every attempt.
    """
    fi = ctx.prog.func("trellis.Trellis.initialize")
    n = 0
    for tr, st in flow.paths_of(fi):
        if st not in ("return", "fall"):
            continue
        n += 1
        calls = [e[1] for e in tr if e[0] == "call"]
        tests = [(e[1], e[2]) for e in tr if e[0] == "test"]
        creates = "self.create" in calls
        found_checked = any(re.search(r"\bis None$", t) and v is False for t, v in tests) or any(re.search(r"\bis not None$", t) and v is True for t, v in tests)
        if not (creates or found_checked):
            ctx.bad(fi.fq, "the root is created or was found", f"a path (tests {tests}) uses the result of the root lookup without having created or found a root: after a kill between the schema and the first transaction every later start fails with AttributeError in _check_consistency", where=ctx.where_of(fi))
            return
    ctx.check(n >= 2, fi.fq, "the root is created or was found", f"{n} paths", f"{n} paths")
    order = [callee_name(c) for c in calls_in(fi.node) if callee_name(c) in ("apply_schema", "create")]
    ctx.check(order[:1] == ["apply_schema"], fi.fq, "the schema is applied before the root is created (the window this rule is about)", f"order {order}", "apply_schema first")


RULES = [
    Rule("R-C05-10", "a schema without root is completed at the next start", rule_open_without_root, min_instances=2),
    Rule("R-C05-8", "startup rescans are wired to their reactions", rule_startup_wiring, min_instances=6),
    Rule("R-C05-1", "all SQL runs inside one transaction region; none nests", rule_transactions, min_instances=30),
    Rule("R-C05-2", "completion units are one transaction", rule_atomic_units, min_instances=4),
    Rule("R-C05-3", "every transient state has a recovery", rule_recovery, min_instances=13),
    Rule("R-C05-4", "journal before effect", rule_journal, min_instances=2),
    Rule("R-C05-5", "connection settings", rule_connection, min_instances=4),
    Rule("R-C05-6", "consistency is checked at every open", rule_open_check, min_instances=2),
    Rule("R-C05-7", "the cleanup of a completed build does not depend on what this session happened to execute", C07.rule_sequence, min_instances=3),
]

MUTANTS = [
    Mutant("root-lookup-taken-for-granted", "trellis.py", in_function("Trellis.initialize", lambda t: t.replace('            root = None if is_fresh else self.find(Root, "")\n            if root is None:\n', '            root = None if is_fresh else self.find(Root, "")\n            if is_fresh:\n', 1) if "if root is None:" in t else None), ("R-C05-10",)),
    Mutant("checking-reset-only-with-failed-steps", "startup.py", in_function("reset_interrupted_steps", lambda t: t.replace('        db.execute(\n            "UPDATE step SET state = ? WHERE state = ?",\n            (StepState.PENDING.value, StepState.CHECKING.value),\n        )\n', "", 1).replace("        async with db:\n            for step in failed_steps:\n", '        async with db:\n            db.execute(\n                "UPDATE step SET state = ? WHERE state = ?",\n                (StepState.PENDING.value, StepState.CHECKING.value),\n            )\n            for step in failed_steps:\n', 1) if "(StepState.PENDING.value, StepState.CHECKING.value)" in t and "            for step in failed_steps:\n" in t else None), ("R-C05-3",)),
    Mutant("env-value-stored-in-own-transaction", "startup.py", in_function("rescan_env_vars", lambda t: t.replace("            for node_i, name in changed_uses:\n                steps_to_rerun[node_i].refresh_env_dep(name)\n", "", 1).replace("        async with workflow.db:\n            for step in steps_to_rerun.values():\n", "        async with workflow.db:\n            for node_i, name in changed_uses:\n                steps_to_rerun[node_i].refresh_env_dep(name)\n        async with workflow.db:\n            for step in steps_to_rerun.values():\n", 1) if "steps_to_rerun[node_i].refresh_env_dep(name)" in t else None), ("R-C05-8",)),
    Mutant("rescan-files-goes-nowhere", "startup.py", in_function("rescan_files", replace_once("        path_hash_causes.append((path, old_file_hash, cause))\n", "        pass\n")), ("R-C05-8",)),
    Mutant("rescan-nglobs-goes-nowhere", "startup.py", in_function("rescan_nglobs", replace_once("            changed_nglobs.append((nglob_i, step, new_ng))\n", "            pass\n")), ("R-C05-8",)),
    Mutant("rescan-env-forgets-value", "startup.py", in_function("rescan_env_vars", replace_once("        changed_uses.append((node_i, name))\n", "")), ("R-C05-8",)),
    Mutant("rescan-files-only-unconfirmed", "startup.py", in_function("rescan_files", replace_once("        path_hash_causes.append((path, old_file_hash, cause))\n", "        if cause == HashUpdateCause.CONFIRMED:\n            path_hash_causes.append((path, old_file_hash, cause))\n")), ("R-C05-8",)),
    Mutant("startup-retries-attached-only", "startup.py", in_function("reset_interrupted_steps", replace_once("workflow.steps(StepState.FAILED, include_detached=True)", "workflow.steps(StepState.FAILED)")), ("R-C05-3",)),
    Mutant("recycled-failed-stays-failed", "step.py", in_function("Step.after_recycle", replace_once("if state == StepState.FAILED or (\n            state == StepState.SUCCEEDED", "if (\n            state == StepState.SUCCEEDED")), ("R-C05-3",)),
    Mutant("delete-detached-only-after-runs", "builder.py", in_function("Builder.finalize", replace_once("            async with self.db:\n                self.workflow.delete_detached()\n", "            if self.scheduler.run_counter > 0:\n                async with self.db:\n                    self.workflow.delete_detached()\n")), ("R-C05-7",)),
    Mutant("sql-outside-region", "director.py", in_function("DirectorHandler.hold_dispatch", lambda s: s.replace("        async with self.db:\n            step = self.scheduler.get_job_step(job_i)\n            step.hold()\n", "        step = self.scheduler.get_job_step(job_i)\n        step.hold()\n") if "step.hold()" in s else None), ("R-C05-1",)),
    Mutant("nested-region", "executor.py", in_function("Executor._finalize_failed_run", replace_once("            run.step.mark_completed(None, False)\n", "            run.step.mark_completed(None, False)\n            await self._flush_step_counts()\n")), ("R-C05-1",)),
    Mutant("split-completion", "executor.py", in_function("Executor.try_skip_job", lambda s: s.replace("            self.workflow.update_file_hashes(new_out_hashes, cause=HashUpdateCause.SUCCEEDED)\n            step.mark_completed(new_hash, False)\n", "            self.workflow.update_file_hashes(new_out_hashes, cause=HashUpdateCause.SUCCEEDED)\n        async with self.db:\n            step.mark_completed(new_hash, False)\n") if "step.mark_completed(new_hash, False)" in s else None), ("R-C05-2",)),
    Mutant("checking-not-reset", "startup.py", replace_once("(StepState.PENDING.value, StepState.CHECKING.value),", "(StepState.PENDING.value, StepState.PENDING.value),"), ("R-C05-3",)),
    Mutant("running-to-pending", "startup.py", replace_once("(StepState.FAILED.value, StepState.RUNNING.value),", "(StepState.PENDING.value, StepState.RUNNING.value),"), ("R-C05-3",)),
    Mutant("reset-attached-only", "startup.py", lambda t: t.replace('"UPDATE step SET state = ? WHERE state = ?",\n            (StepState.FAILED.value, StepState.RUNNING.value),', '"UPDATE step SET state = ? WHERE state = ? AND node IN (SELECT i FROM node WHERE NOT detached)",\n            (StepState.FAILED.value, StepState.RUNNING.value),', 1) if "(StepState.FAILED.value, StepState.RUNNING.value)," in t else None, ("R-C05-3",)),
    Mutant("no-foreign-keys", "sqlite3.py", in_function("connect", replace_once('    con.execute("PRAGMA foreign_keys = ON")\n', "")), ("R-C05-5",)),
    Mutant("no-wal", "sqlite3.py", in_function("connect", replace_once('        con.execute("PRAGMA journal_mode = WAL")\n', '        con.execute("PRAGMA journal_mode = MEMORY")\n')), ("R-C05-5",)),
    Mutant("no-check-at-open", "trellis.py", in_function("Trellis.initialize", replace_once("                self._check_consistency()\n", "")), ("R-C05-6",)),
]

VARIANTS = []

# a sketch of the F63/F64 repair (recording through state-selecting helpers): no rule of this property may alarm on it
VARIANTS += [shared.REPAIR_SKETCH_F63]
