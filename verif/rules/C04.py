"""C04 — nothing changed => nothing runs; edits rerun only their cone (structural clauses)."""
from __future__ import annotations

import ast
import re

from ..engine import finite, flow
from ..engine.mutate import Mutant, Variant, in_function, replace_once
from ..engine.runner import Rule
from ..engine.source import AnalysisError
from .C13 import rule_stat_shortcut
from . import C03
from . import shared
from .common import callee_name, calls_in

EXPLANATION = (
    "Static analysis of what can make a step run. Only PENDING rows satisfy the dispatch predicate (truth table); a "
    "dispatched row with a stored hash is only checked (CHECKING), and a command-running job exists only without a "
    "stored hash. Hash jobs apply unchanged results only for the CONFIRMED cause. The callers of Step.delete_hash and "
    "of Workflow.mark_step_pending are frozen tables (who may invalidate): a new caller is reported with its call "
    "path. Full recycle keeps state and hash: from Step.after_recycle no path reaches delete_hash/set_hash, and "
    "re-pending happens only for FAILED or hash-less SUCCEEDED steps. The stat shortcut of FileHash.refreshed "
    "compares the whole stat signature. Decides who may invalidate, not that no spurious rerun occurs for every "
    "reachable database. "
    'Also (R-C04-6): the two digest computations pass the same ingredients read from the same environment (base_env, no default), glob registrations keep their substitutions on the director side, and the restart rescan rebuilds the registered matcher, so that neither site sees phantom changes.'
)
ASSUMPTIONS = ["cone minimality for every history is not decided"]


def _norm(s):
    return re.sub(r"\s+", " ", s).strip()


def rule_only_pending_dispatched(ctx):
    """R-C04-1."""
    SS, Need = ctx.prog.enum("StepState"), ctx.prog.enum("Need")
    where = ctx.prog.fold("step", "STEP_DISPATCH_WHERE")
    dom = {"step.state": [s.value for s in SS], "step._safe": [0, 1], "step._has_hash": [0, 1], "step._safe_ignoring_hold": [0, 1], "step.deferred": [0, 1],
           "step._implied_need": [n.value for n in Need], "step._ready": [0, 1]}
    tt = ctx.cat.truth_table(where, dom)
    states = {SS(p[0]).name for p, v in tt.items() if v}
    ctx.check(states == {"PENDING"}, "step.STEP_DISPATCH_WHERE", "only PENDING steps are dispatchable", f"dispatchable states: {sorted(states)}: a finished step can run again without any change", "PENDING only")
    sel = _norm(ctx.prog.fold("scheduler", "SELECT_NEXT_STEP"))
    ctx.check(_norm(where) in sel, "scheduler.SELECT_NEXT_STEP", "embeds STEP_DISPATCH_WHERE", "dispatch query uses its own predicate", "shared")
    g = ctx.prog.func("scheduler.Scheduler._get_next_step")
    ctx.check("state = StepState.CHECKING if has_hash else StepState.RUNNING" in _norm(ast.unparse(g.node)), g.fq, "a row with a stored hash is only checked", "mapping changed", "CHECKING iff has_hash")
    dj = ctx.prog.func("scheduler.Scheduler._derive_job")
    src = _norm(ast.unparse(dj.node))
    ctx.check("if dynamic_inputs_ready or step_hash is None: job = RunJob(step, inp_hashes, env_deps, step_hash, job_i=job_i) else: job = ValidateDynamicJob(" in src, dj.fq, "job kind follows readiness of dynamic inputs and the stored hash", "job derivation changed", "ok")
    rj = ctx.prog.cls("job.RunJob").methods
    ctx.check("return self.step_hash is None" in ast.unparse(rj["runs_command"].node), "job.RunJob.runs_command", "the command runs iff no stored hash", "changed", "ok")
    co = _norm(ast.unparse(rj["coro"].node))
    ctx.check("if self.runs_command: inner = executor.execute_job(" in co and "else: inner = executor.try_skip_job(" in co, "job.RunJob.coro", "execute_job only for hash-less jobs, try_skip_job otherwise", "coroutine selection changed", "ok")


def rule_unchanged_not_applied(ctx):
    """R-C04-2."""
    rj = ctx.prog.func("executor.Executor._run_hash_job")
    n = 0
    for tr, st in flow.paths_of(rj):
        for k, e in enumerate(tr):
            if e[0] == "call" and e[1].endswith("update_file_hashes"):
                n += 1
                tests = [(x[1], x[2]) for x in tr[:k] if x[0] == "test"]
                ok = ("new_hash != hash_job.old_hash", True) in tests or ("hash_job.cause == HashUpdateCause.CONFIRMED", True) in tests
                ctx.check(ok, rj.fq, "a hash result is applied only when it changed or confirms", "unchanged hashes are applied: consumers of an unchanged file are re-pended on every rescan", "guarded", where=ctx.where_of(rj, e[2]))
    if n == 0:
        raise AnalysisError("_run_hash_job no longer applies results")
    ts = ctx.prog.func("executor.Executor._compute_out_step_hash")
    ctx.check("return (step_hash, result.new_hashes)" in _norm(ast.unparse(ts.node)), ts.fq, "skip path applies only output hashes that differ from the recorded ones", "all output hashes are re-applied on a skip", "new_hashes only")


DELETE_HASH_CALLERS = {"step.Step.after_lost_product", "workflow.Workflow.persist_nglob_matches", "step.Step.mark_completed", "executor.Executor._reset_step_to_pending", "executor.Executor._restart_if_declared_again", "executor.Executor._drop_verdict_if_declared_again"}
MARK_PENDING_CALLERS = {
    "workflow.Workflow.mark_consuming_steps_pending": "an input changed / appeared / disappeared / was rebuilt",
    "workflow.Workflow.handle_updated_file": "an output was modified externally",
    "workflow.Workflow.handle_deleted_file": "an output disappeared",
    "workflow.Workflow.persist_nglob_matches": "glob match set changed",
    "workflow.Workflow._check_consistency": "consistency repair at open",
    "startup.rescan_env_vars": "tracked environment variable changed",
    "startup.reset_interrupted_steps": "retry of failed / interrupted steps at startup",
    "director.DirectorHandler.start_build_phase": "retry of failed steps on rebuild",
    "step.Step.after_recycle": "recycled FAILED or hash-less SUCCEEDED step",
    "executor.Executor.execute_job": "the step was declared again with another shell flag or other overrides while its command ran",
}


def rule_who_may_invalidate(ctx):
    """R-C04-3."""
    callers = {c.split(".<locals>.")[0] for c in ctx.cg.callers_of("step.Step.delete_hash", include_by_name=True)}
    for c in sorted(callers):
        ctx.check(c in DELETE_HASH_CALLERS, c, "calls Step.delete_hash", "new caller of delete_hash: a stored hash is dropped for a reason outside the documented five (lost product, glob change, unsuccessful run, digest mismatch, declared again while running)", "documented caller")
    if not callers >= DELETE_HASH_CALLERS:
        raise AnalysisError(f"documented delete_hash callers vanished: {sorted(DELETE_HASH_CALLERS - callers)}")
    callers = {c.split(".<locals>.")[0] for c in ctx.cg.callers_of("workflow.Workflow.mark_step_pending", include_by_name=True)}
    for c in sorted(callers):
        ctx.check(c in MARK_PENDING_CALLERS, c, "calls Workflow.mark_step_pending", "new caller of mark_step_pending: a step is re-pended without one of the documented change reactions", MARK_PENDING_CALLERS.get(c, ""))
    writers = {s.site.func.fq for s in ctx.sql.writers_of("step_hash", op="DELETE")}
    ctx.check(writers == {"step.Step.delete_hash"}, "step_hash", "rows are deleted only by Step.delete_hash", f"writers {sorted(writers)}", "single writer")
    # raw writers of step.state = PENDING outside set_state
    raw = {s.site.func.fq for s in ctx.sql.writers_of("step", "state", op="UPDATE")} - {"step.Step.set_state"}
    ctx.check(raw == {"startup.reset_interrupted_steps", "finalize.revert_optional_steps"}, "step.state", "raw state writers are the startup reset and the optional revert", f"raw writers {sorted(raw)}", "two documented raw writers")


def rule_recycle_keeps(ctx):
    """R-C04-4."""
    ar = ctx.prog.func("step.Step.after_recycle")
    direct = {callee_name(c) for c in calls_in(ar.node)}
    ctx.check(not ({"delete_hash", "set_hash", "set_state", "reset_for_rerun"} & direct), ar.fq, "does not touch hash or state directly", f"after_recycle calls {sorted({'delete_hash', 'set_hash', 'set_state', 'reset_for_rerun'} & direct)}: a recycled step loses what lets it be skipped", "keeps hash and state")
    shared.check_after_recycle_repends(ctx, "a recycled step is re-run needlessly (or a failed / incomplete one is trusted)")
    tr_ = ctx.prog.func("trellis.Trellis.try_recycle")
    names = [callee_name(c) for c in calls_in(tr_.node)]
    ctx.check("initialize_row" not in names and "create" not in names, tr_.fq, "full recycle does not re-initialise the row", "full recycle re-initialises the satellite row (state and hash are lost)", "reattach + after_recycle only")
    ir = ctx.prog.func("step.Step.initialize_row")
    src = _norm(ast.unparse(ir.node))
    ctx.check("step_hash" not in re.sub(r"SELECT EXISTS\(SELECT 1 FROM step_hash WHERE node = :node\)", "", src).replace("_has_hash", ""), ir.fq, "partial recycle keeps the step_hash row", "initialize_row deletes or rewrites the stored hash", "untouched")


def rule_no_phantom_changes(ctx):
    """R-C04-6: the two places that decide "nothing changed" compare like with like."""
    shared.check_from_inp_call_sites(ctx, "the digest computed before the run and the one computed for the skip test differ in an ingredient: a step whose inputs did not change is executed again (or the reverse)")
    shared.check_registration_keeps_subs(ctx, "the director records an unrestricted pattern next to the restricted matches the client found: the first restart sees phantom additions and reruns the plan although nothing changed")
    shared.check_rescan_rebuilds_registered_matcher(ctx, "the restart rescan matches with another matcher than the registered one: every restart sees phantom additions or deletions and reruns the plan although nothing changed")


RULES = [
    Rule("R-C04-7", "the stored input digest covers the inputs the step has now, compared with what it was given (no phantom input makes the next no-op build rerun it)", C03.rule_after_baseline, min_instances=10),
    Rule("R-C04-1", "only PENDING is dispatched; a stored hash means check, not run", rule_only_pending_dispatched, min_instances=6),
    Rule("R-C04-2", "unchanged hashes are not applied", rule_unchanged_not_applied, min_instances=2),
    Rule("R-C04-3", "who may invalidate", rule_who_may_invalidate, min_instances=12),
    Rule("R-C04-4", "full recycle keeps state and hash", rule_recycle_keeps, min_instances=12),
    Rule("R-C04-5", "stat shortcut compares the full stat signature", rule_stat_shortcut, min_instances=4),
    Rule("R-C04-6", "no phantom changes: digest sites and glob rescans compare like with like", rule_no_phantom_changes, min_instances=5),
]

MUTANTS = [
    Mutant("skip-check-reads-os-environ", "executor.py", in_function("Executor._compute_inp_step_hash", replace_once("{name: self.base_env.get(name) for name in env_deps}", "{name: os.environ.get(name) for name in env_deps}")), ("R-C04-6",)),
    Mutant("registration-drops-subs", "director.py", in_function("DirectorHandler.register_glob", replace_once("ng = NamedGlob(pattern, subs)", "ng = NamedGlob(pattern)")), ("R-C04-6",)),
    Mutant("rescan-drops-subs", "startup.py", in_function("rescan_nglobs", replace_once("NamedGlob(old_ng.pattern, old_ng.subs)", "NamedGlob(old_ng.pattern)")), ("R-C04-6",)),
    Mutant("dispatch-succeeded", "step.py", replace_once("STEP_DISPATCH_WHERE = f\"\"\"step.state = {StepState.PENDING.value} AND", "STEP_DISPATCH_WHERE = f\"\"\"step.state IN ({StepState.PENDING.value}, {StepState.SUCCEEDED.value}) AND"), ("R-C04-1",)),
    Mutant("always-run", "job.py", in_function("RunJob.runs_command", replace_once("return self.step_hash is None", "return True")), ("R-C04-1",)),
    Mutant("apply-unchanged", "executor.py", in_function("Executor._run_hash_job", replace_once("        if new_hash != hash_job.old_hash or hash_job.cause == HashUpdateCause.CONFIRMED:", "        if True:")), ("R-C04-2",)),
    Mutant("recycle-drops-hash", "step.py", in_function("Step.after_recycle", replace_once("        self.set_resources(resources)\n", "        self.delete_hash()\n        self.set_resources(resources)\n")), ("R-C04-3", "R-C04-4")),
    Mutant("recycle-repends-all", "step.py", in_function("Step.after_recycle", replace_once("        if state == StepState.FAILED or (\n            state == StepState.SUCCEEDED and (self.get_hash() is None or hashed_args_changed)\n        ):", "        if state != StepState.PENDING:")), ("R-C04-4",)),
    Mutant("new-invalidator", "workflow.py", in_function("Workflow.register_nglob", replace_once("        step.add_nglob(ng)\n", "        step.add_nglob(ng)\n        step.delete_hash()\n")), ("R-C04-3",)),
    Mutant("new-repender", "workflow.py", in_function("Workflow.reconcile_targets", replace_once("            if isinstance(creator, Step):\n                self.db.execute(", "            if isinstance(creator, Step):\n                self.mark_step_pending(creator)\n                self.db.execute(")), ("R-C04-3",)),
    Mutant("shortcut-without-size", "hash.py", in_function("FileHash.refreshed", replace_once("            and self.size == st.st_size\n", "")), ("R-C04-5",)),
]

VARIANTS = []
