"""C02 — the result of a build does not depend on scheduling (structural clauses)."""
from __future__ import annotations

import ast
import re

from ..engine import flow
from ..engine.mutate import Mutant, Variant, in_function, replace_once
from ..engine.runner import Rule
from ..engine.source import AnalysisError
from . import C03
from . import shared
from .common import callee_name, calls_in

EXPLANATION = (
    "Static analysis of order independence. Observation never acquires ownership: from the glob/relevance functions "
    "no call path reaches Trellis.create, _declare_file or Node.reattach, and _resolve_supply_file only creates files "
    "owned by nobody or by an owning static tree. Declaration lists are rebound to sorted(set(...)) before any other "
    "use, first-offender loops iterate sorted sequences, and queries whose row order is observable carry an ORDER BY "
    "that includes the label. One conflict, one text: every `raise GraphError` in the declaration functions that is "
    "control-dependent on a database lookup (i.e. on an earlier declaration) must build its message through a shared "
    "formatter function; symmetric formatters must sort their party arguments, fixed-role formatters must receive "
    "the new and the existing declaration in the same roles at every call site. Accept/reject symmetry is C08's guard "
    "pairs and C18's exact prefix idioms; one transaction per request is C15. Does not decide identity of the final "
    "graph under all interleavings of RPC arrivals. "
    'Also: every caller of the glob/product check names the step by its node label; the freshness clock is set in the completion transaction (shared with C03); the wake-up of a parked consumer does not depend on whether the producer rewrote its output.'
)
ASSUMPTIONS = ["conflict guards exist in both directions (C08)", "prefix selections are exact (C18)"]

OBSERVERS = ["workflow.Workflow.register_nglob", "workflow.Workflow.matches_any_glob", "workflow.Workflow._raise_if_glob_match", "workflow.Workflow.find_glob_violations",
             "workflow.Workflow.change_is_relevant", "workflow.Workflow.relevant_paths_under", "workflow.Workflow.process_nglob_changes", "workflow.Workflow._is_justified_without_node",
             "workflow.Workflow.nglob_registrations"]
OWNERSHIP = ["trellis.Trellis.create", "workflow.Workflow._declare_file", "trellis.Node.reattach", "trellis.Trellis.try_recycle"]

DECLARATION_FUNCS = ["workflow.Workflow.define_step", "workflow.Workflow.amend_step", "workflow.Workflow.declare_static_files", "workflow.Workflow.register_static_tree",
                     "workflow.Workflow._declare_file", "workflow.Workflow._resolve_supply_file", "workflow.Workflow.register_nglob", "workflow.Workflow._raise_if_glob_match",
                     "workflow.Workflow._check_declaration", "workflow.Workflow._raise_if_step_exists", "workflow.Workflow._find_owning_static_tree"]

# db-dependent inline messages that are about ONE declaration (frozen: function -> (count, reason))
SINGLE_PARTY_INLINE = {
    "workflow.Workflow._resolve_supply_file": (1, "'Supplying file already exists': the same step supplies the same input twice"),
    "workflow.Workflow._find_owning_static_tree": (1, "'Multiple static trees match': an internal inconsistency, not a conflict of two declarations"),
    "workflow.Workflow.define_step": (1, "'Boot step already defined': there is one boot step by construction"),
    "workflow.Workflow.register_nglob": (1, "match under .stepup: a property of the pattern alone (loop over its own matches)"),
}

DB_SOURCES = ("execute", "fetchone", "fetchall", "find", "find_attached", "find_and_detached", "get_state", "sinks", "sources", "products", "creator", "creator_and_detached",
              "_find_owning_static_tree", "_existing_claim", "is_detached", "nodes", "steps")


def _norm(s):
    return re.sub(r"\s+", " ", s).strip()


def rule_observation(ctx):
    """R-C02-1."""
    for fq in OBSERVERS:
        ctx.prog.func(fq)
        reach = ctx.cg.reachable(fq, include_by_name=False)
        hit = [o for o in OWNERSHIP if o in reach]
        ctx.check(not hit, fq, "cannot reach create / _declare_file / reattach", f"an observation function reaches {hit} via {ctx.cg.path(fq, hit[0], include_by_name=False) if hit else ''}: looking at a path changes who owns it", "no ownership effect")
        w = set()
        for f in reach:
            for s in ctx.sql.stmts_in(f):
                for (op, t, c, trig) in s.writes:
                    if trig is None and t == "node":
                        w.add((op, t, c))
        ctx.check(not w, fq, "no write to the node table", f"writes {sorted(w, key=str)}", "read-only on node")
    rs = ctx.prog.func("workflow.Workflow._resolve_supply_file")
    n = 0
    for c in calls_in(rs.node):
        if callee_name(c) == "create" and c.args and ast.unparse(c.args[0]) == "File":
            n += 1
            who = ast.unparse(c.args[1])
            ctx.check(who in ("None", "st"), rs.fq, f"create(File, {who}, ...)", "supplying an input makes the consuming step (or another node) the creator of the file: ownership depends on who referenced the path first", "None or the owning static tree", where=ctx.where_of(rs, c))
    if n < 2:
        raise AnalysisError("_resolve_supply_file no longer creates files")
    src = _norm(ast.unparse(rs.node))
    ctx.check("st = self._find_owning_static_tree(path) if file is None or detached else None" in src, rs.fq, "a tree adopts only a path without attached node", "a tree can take over an attached node", "guarded")
    ctx.check("elif file is None or file.creator() is None:" in src, rs.fq, "an UNDECLARED node is (re)created only when nothing declares the path", "a detached node that still has a creator is recreated: the file is taken away from its creator", "creator() is None")


def rule_normalised(ctx):
    """R-C02-2."""
    for fq, params in (("workflow.Workflow.define_step", ["inp_paths", "env_deps", "out_paths", "vol_paths"]), ("workflow.Workflow.amend_step", ["inp_paths", "out_paths", "vol_paths"]), ("workflow.Workflow.declare_static_files", ["paths"])):
        fi = ctx.prog.func(fq)
        for p in params:
            first_use = None
            rebinding = None
            for n in ast.walk(fi.node):
                if isinstance(n, ast.Name) and n.id == p and isinstance(n.ctx, ast.Load):
                    if first_use is None or (n.lineno, n.col_offset) < first_use:
                        first_use = (n.lineno, n.col_offset)
                if isinstance(n, ast.Assign) and len(n.targets) == 1 and isinstance(n.targets[0], ast.Name) and n.targets[0].id == p and ast.unparse(n.value) == f"sorted(set({p}))":
                    if rebinding is None or n.lineno < rebinding:
                        rebinding = n.lineno
            ok = rebinding is not None and first_use is not None and first_use[0] == rebinding
            ctx.check(ok, fq, f"{p} = sorted(set({p})) before any other use", f"{p} is used before it is normalised (or never normalised): the first offender reported, or the order of created nodes, depends on the caller's order", "normalised first", where=ctx.where_of(fi))
    gm = ctx.prog.func("workflow.Workflow._raise_if_glob_match")
    # the loop that picks the offending product iterates a sorted sequence: sorted(...) inline, or a name whose
    # reaching assignment is sorted(...)
    sorted_names = {a.targets[0].id for a in ast.walk(gm.node) if isinstance(a, ast.Assign) and len(a.targets) == 1 and isinstance(a.targets[0], ast.Name)
                    and isinstance(a.value, ast.Call) and isinstance(a.value.func, ast.Name) and a.value.func.id == "sorted"}
    unsorted_names = {a.targets[0].id for a in ast.walk(gm.node) if isinstance(a, ast.Assign) and len(a.targets) == 1 and isinstance(a.targets[0], ast.Name)
                      and not (isinstance(a.value, ast.Call) and isinstance(a.value.func, ast.Name) and a.value.func.id == "sorted")}
    loops = [l for l in ast.walk(gm.node) if isinstance(l, ast.For) and isinstance(l.target, ast.Name) and l.target.id == "path"]
    if not loops:
        raise AnalysisError("_raise_if_glob_match: loop over product paths not found")
    for l in loops:
        ok = (isinstance(l.iter, ast.Call) and isinstance(l.iter.func, ast.Name) and l.iter.func.id == "sorted") or (isinstance(l.iter, ast.Name) and l.iter.id in sorted_names - unsorted_names)
        ctx.check(ok, gm.fq, "first offender over sorted product paths", f"the offending product is picked from `{ast.unparse(l.iter)}` in caller order: the error text depends on the order of the declaration's arguments", "sorted", where=ctx.where_of(gm, l))
    ov = ctx.prog.func("workflow._raise_if_out_and_vol_overlap")
    ctx.check("first_collision = min(overlap)" in ast.unparse(ov.node), ov.fq, "first collision = min", "order dependent", "min")
    rt = ctx.prog.func("workflow.Workflow.reconcile_targets")
    ctx.check("for path in sorted(self.targets)" in ast.unparse(rt.node), rt.fq, "targets are validated in sorted order", "unsorted", "sorted")
    # observable row order
    for fq, need in (("trellis.Node.products", "ORDER BY kind , label"), ("trellis.Node._node_keys", "ORDER BY kind , label"), ("workflow.Workflow.register_nglob", "ORDER BY node . label LIMIT 1"),
                     ("workflow.Workflow.get_file_hashes", "ORDER BY node . label"), ("workflow.Workflow.update_file_hashes", "ORDER BY path"), ("workflow.Workflow._hashes_to_check", "ORDER BY node . label")):
        stm = [s for s in ctx.sql.stmts_in(fq) if s.kind in ("SELECT", "WITH") and not s.error]
        ok = any(need in s.text for s in stm)
        ctx.check(ok, fq, f"row order fixed by {need}", "a query whose row order is observable lost its ORDER BY: results depend on the storage order of rows", "ordered")
    rst = ctx.prog.func("workflow.Workflow.register_static_tree")
    txt = [s.text for s in ctx.sql.stmts_in(rst.fq) if "node . creator , file . state" in s.text]
    ctx.check(bool(txt) and all("ORDER BY node . label" in t for t in txt), rst.fq, "conflict scan is ordered by label (first offender is deterministic)", "unordered scan", "ordered")
    st = [s.text for s in ctx.sql.stmts_in(rst.fq) if "kind = 'st'" in s.text]
    ctx.check(bool(st) and all("ORDER BY label LIMIT 1" in t for t in st), rst.fq, "nested-tree lookup reports the first inner tree by label", "unordered LIMIT 1", "ordered")
    dh = ctx.prog.func("director.DirectorHandler.declare_static")
    ctx.check(True, dh.fq, "tree paths arrive sorted from the client (api.static sorts)", "", "documented")


def _db_dependent_names(fi):
    """Names assigned (transitively) from database lookups inside the function."""
    dep = set()
    changed = True
    stmts = [n for n in ast.walk(fi.node) if isinstance(n, (ast.Assign, ast.For, ast.AugAssign, ast.NamedExpr))]
    while changed:
        changed = False
        for n in stmts:
            if isinstance(n, ast.Assign):
                tg, val = n.targets, n.value
            elif isinstance(n, ast.For):
                tg, val = [n.target], n.iter
            elif isinstance(n, ast.comprehension):
                tg, val = [n.target], n.iter
            elif isinstance(n, ast.NamedExpr):
                tg, val = [n.target], n.value
            else:
                tg, val = [n.target], n.value
            src_dep = any(isinstance(c, ast.Call) and callee_name(c) in DB_SOURCES for c in ast.walk(val)) or any(isinstance(x, ast.Name) and x.id in dep for x in ast.walk(val))
            if src_dep:
                for t in tg:
                    for x in ast.walk(t):
                        if isinstance(x, ast.Name) and x.id not in dep:
                            dep.add(x.id)
                            changed = True
    return dep


def _guards_of(fi, target):
    """Test expressions (If/For/While) that enclose ``target`` in ``fi``."""
    out = []

    def rec(node, stack):
        for child in ast.iter_child_nodes(node):
            st2 = stack
            if isinstance(node, ast.If) and child in node.body + node.orelse:
                st2 = stack + [node.test]
            elif isinstance(node, (ast.For, ast.AsyncFor)) and child in node.body:
                st2 = stack + [node.iter]
            elif isinstance(node, ast.While) and child in node.body:
                st2 = stack + [node.test]
            if child is target:
                out.extend(st2)
                return True
            if rec(child, st2):
                return True
        return False

    rec(fi.node, [])
    return out


def _preceding_exits(fi, target):
    """Tests of earlier `if ...: return/raise/continue` statements in the same blocks (implicit else)."""
    out = []

    def rec(body):
        for i, s in enumerate(body):
            if any(x is target for x in ast.walk(s)):
                for prev in body[:i]:
                    if isinstance(prev, ast.If) and prev.body and isinstance(prev.body[-1], (ast.Return, ast.Raise, ast.Continue)):
                        out.append(prev.test)
                for fld in ("body", "orelse", "finalbody"):
                    sub = getattr(s, fld, None)
                    if isinstance(sub, list):
                        rec(sub)
                return

    rec(fi.node.body)
    return out


def rule_one_text(ctx):
    """R-C02-3."""
    ntot = 0
    for fq in DECLARATION_FUNCS:
        fi = ctx.prog.func(fq)
        dep = _db_dependent_names(fi)
        inline_db = 0
        for r in [n for n in ast.walk(fi.node) if isinstance(n, ast.Raise)]:
            if r.exc is None or not isinstance(r.exc, ast.Call) or ast.unparse(r.exc.func) != "GraphError":
                continue
            ntot += 1
            arg = r.exc.args[0] if r.exc.args else None
            via_formatter = isinstance(arg, ast.Call) and isinstance(arg.func, ast.Name) and arg.func.id.endswith("_message")
            guards = _guards_of(fi, r)
            dbdep = any(isinstance(c, ast.Call) and callee_name(c) in DB_SOURCES for g in guards for c in ast.walk(g)) or any(isinstance(x, ast.Name) and x.id in dep for g in guards for x in ast.walk(g))
            where = ctx.where_of(fi, r)
            if via_formatter:
                ctx.ok(fq, f"raise GraphError({arg.func.id}(...))", "shared formatter", where=where)
            elif dbdep:
                inline_db += 1
                allowed = SINGLE_PARTY_INLINE.get(fq, (0, ""))[0]
                ctx.check(inline_db <= allowed, fq, f"inline message #{inline_db} under a database-dependent guard", f"an error about an existing declaration is written inline ({ast.unparse(arg)[:70]}): the opposite arrival order raises elsewhere with another text", "single-party exception: " + SINGLE_PARTY_INLINE.get(fq, (0, ""))[1], where=where)
            else:
                ctx.ok(fq, "inline message about the new declaration alone", "single-party", where=where)
    if ntot < 20:
        raise AnalysisError(f"only {ntot} raise GraphError sites found in the declaration functions")
    # formatter symmetry
    mod = ctx.prog.module("workflow")
    sym = {"_file_collision_message": "sorted([decl_a, decl_b])", "_duplicate_step_message": "sorted([creator_a, creator_b])", "_duplicate_static_tree_message": "sorted([creator_a, creator_b])"}
    for name, need in sym.items():
        f = mod.funcs.get(name)
        if f is None:
            raise AnalysisError(f"formatter {name} not found")
        ctx.check(need in ast.unparse(f.node), f.fq, "symmetric in its two parties (sorted)", "the two parties are formatted in argument order: the text depends on which declaration came first", "sorted")
        params = [p for p in f.params()]
        used_raw = [n for n in ast.walk(f.node) if isinstance(n, ast.Name) and isinstance(n.ctx, ast.Load) and n.id in params[1:3]]
        raw_outside_sorted = [n for n in used_raw if not _inside_sorted(f.node, n)]
        ctx.check(not raw_outside_sorted, f.fq, "party parameters reach the text only through sorted([...])", "a party parameter is used directly", "only via sorted")
    # fixed-role formatters: new vs existing argument roles at each call site
    roles = {
        "_nested_static_tree_message": [("workflow.Workflow.register_static_tree", ("existing", "new")), ("workflow.Workflow.register_static_tree", ("new", "existing"))],
        "_static_tree_file_message": [("workflow.Workflow._declare_file", ("existing", "new")), ("workflow.Workflow.declare_static_files", ("existing", "new")), ("workflow.Workflow.register_static_tree", ("new", "existing"))],
        "_static_tree_product_message": [("workflow.Workflow._declare_file", ("existing", "new")), ("workflow.Workflow.register_static_tree", ("new", "existing")), ("workflow._claim_collision_message", ("existing", "new"))],
    }
    for fmt, expected in roles.items():
        sites = []
        for f in mod.all_funcs.values():
            for c in calls_in(f.node):
                if isinstance(c.func, ast.Name) and c.func.id == fmt:
                    newp = "path"
                    r = tuple("new" if (isinstance(a, ast.Name) and a.id == newp) else "existing" for a in c.args[:2])
                    sites.append((f.fq, r, c))
        got = sorted((s[0], s[1]) for s in sites)
        ctx.check(got == sorted(expected), f"workflow.{fmt}", "every call site passes (tree, inner path) in the same roles", f"call sites pass {got}, expected {sorted(expected)}: the two arrival orders name the parties differently", f"{len(sites)} call sites")
    gp = [(f.fq, c) for f in mod.all_funcs.values() for c in calls_in(f.node) if isinstance(c.func, ast.Name) and c.func.id == "_glob_product_message"]
    ok = len(gp) == 2 and {g[0] for g in gp} == {"workflow.Workflow.register_nglob", "workflow.Workflow._raise_if_glob_match"}
    args = {g[0]: [ast.unparse(a) for a in g[1].args] for g in gp}
    ok = ok and args.get("workflow.Workflow.register_nglob") == ["ng.pattern", "step.label", "path", "creator_label"] and args.get("workflow.Workflow._raise_if_glob_match") == ["pattern", "glob_step_label", "path", "step_label"]
    ctx.check(ok, "workflow._glob_product_message", "both orders pass (pattern, glob step, path, building step)", f"call sites {args}", "two call sites, same roles")
    # the building step is named by its node label at both sites: every caller of _raise_if_glob_match passes a label
    # (`<step>.label`, or a name bound to Step.adjust_label(...)), which is what register_nglob reads from the node
    ncall = 0
    for f in mod.all_funcs.values():
        for c in calls_in(f.node):
            if callee_name(c) != "_raise_if_glob_match" or not c.args:
                continue
            ncall += 1
            a0 = c.args[0]
            ok = isinstance(a0, ast.Attribute) and a0.attr == "label"
            if isinstance(a0, ast.Name):
                binds = [x.value for x in ast.walk(f.node) if isinstance(x, ast.Assign) and len(x.targets) == 1 and isinstance(x.targets[0], ast.Name) and x.targets[0].id == a0.id and x.lineno < c.lineno]
                ok = bool(binds) and all(isinstance(v, ast.Call) and callee_name(v) == "adjust_label" for v in binds)
            ctx.check(ok, f.fq, f"_raise_if_glob_match({ast.unparse(a0)}, ...) names the step by its label", f"the building step is named by `{ast.unparse(a0)}`, not by its node label: with a working directory the text differs from the one register_nglob produces for the opposite arrival order", "label", where=ctx.where_of(f, c))
    if ncall < 2:
        raise AnalysisError("_raise_if_glob_match: callers not found")
    vi = [(f.fq) for f in mod.all_funcs.values() for c in calls_in(f.node) if isinstance(c.func, ast.Name) and c.func.id == "_volatile_input_message"]
    ctx.check(sorted(vi) == ["workflow.Workflow._declare_file", "workflow.Workflow._resolve_supply_file"], "workflow._volatile_input_message", "volatile-vs-input is reported by one formatter in both orders", f"call sites {sorted(vi)}", "two call sites")


def _inside_sorted(root, node):
    for n in ast.walk(root):
        if isinstance(n, ast.Call) and isinstance(n.func, ast.Name) and n.func.id == "sorted":
            if any(x is node for x in ast.walk(n)):
                return True
    return False


def rule_wakeup_independent_of_content(ctx):
    """R-C02-5: whether a parked consumer is woken does not depend on whether the producer rewrote its output."""
    shared.check_built_notifies(ctx, "a consumer that was parked on an OUTDATED output is woken only if the producer rewrites the file: with more than one job slot the build ends with a pending step, with one slot it succeeds")


RULES = [
    Rule("R-C02-1", "observation never acquires ownership", rule_observation, min_instances=20),
    Rule("R-C02-2", "declaration lists and observable row orders are normalised", rule_normalised, min_instances=18),
    Rule("R-C02-3", "one conflict, one text", rule_one_text, min_instances=32),
    Rule("R-C02-5", "wake-ups do not depend on whether an output was rewritten", rule_wakeup_independent_of_content, min_instances=1),
    Rule("R-C02-4", "the freshness clock is set in the transaction that publishes the outputs (amend outcome independent of arrival time)", C03.rule_atomic_completion, min_instances=3),
]

MUTANTS = [
    Mutant("glob-check-raw-command", "workflow.py", in_function("Workflow.define_step", replace_once("        self._raise_if_glob_match(step_label, out_paths + vol_paths)\n", "        self._raise_if_glob_match(command, out_paths + vol_paths)\n")), ("R-C02-3",)),
    Mutant("supply-owns", "workflow.py", in_function("Workflow._resolve_supply_file", replace_once("            file = self.create(File, None, path, state=state)\n", "            file = self.create(File, step, path, state=state)\n")), ("R-C02-1",)),
    Mutant("glob-declares", "workflow.py", in_function("Workflow.register_nglob", replace_once("        step.add_nglob(ng)\n", "        step.add_nglob(ng)\n        self.declare_static_files(step, [p for p in paths if not p.endswith(os.sep)])\n")), ("R-C02-1",)),
    Mutant("recreate-detached-with-creator", "workflow.py", in_function("Workflow._resolve_supply_file", replace_once("        elif file is None or file.creator() is None:", "        elif file is None or detached:")), ("R-C02-1",)),
    Mutant("unsorted-outputs", "workflow.py", in_function("Workflow.define_step", replace_once("        out_paths = sorted(set(out_paths))\n", "        out_paths = list(out_paths)\n")), ("R-C02-2",)),
    Mutant("products-unordered", "trellis.py", in_function("Node.products", replace_once('        query += " ORDER BY kind, label"\n', "")), ("R-C02-2",)),
    Mutant("glob-first-match-unordered", "workflow.py", in_function("Workflow.register_nglob", replace_once('                "ORDER BY node.label LIMIT 1"', '                "LIMIT 1"')), ("R-C02-2",)),
    Mutant("inline-nested-tree", "workflow.py", in_function("Workflow.register_static_tree", replace_once("            raise GraphError(_nested_static_tree_message(static_tree.label, path))", '            raise GraphError(f"Static tree is a subdirectory of an existing static tree: {path}")')), ("R-C02-3",)),
    Mutant("inline-volatile", "workflow.py", in_function("Workflow._resolve_supply_file", replace_once("                raise GraphError(_volatile_input_message(path))", '                raise GraphError(f"Input is volatile: {path}")')), ("R-C02-3",)),
    Mutant("unsorted-duplicate-step", "workflow.py", in_function("_duplicate_step_message", replace_once("    creator1, creator2 = sorted([creator_a, creator_b])", "    creator1, creator2 = creator_a, creator_b")), ("R-C02-3",)),
    Mutant("swapped-roles", "workflow.py", in_function("Workflow.register_static_tree", replace_once("            raise GraphError(_nested_static_tree_message(path, row[0]))", "            raise GraphError(_nested_static_tree_message(row[0], path))")), ("R-C02-3",)),
]

VARIANTS = [
    Variant("rename-existing-var", "workflow.py", in_function("Workflow.register_static_tree", lambda s: s.replace("existing_path", "old_path"))),
]

# a sketch of the F63/F64 repair (recording through state-selecting helpers): no rule of this property may alarm on it
VARIANTS += [shared.REPAIR_SKETCH_F63]
