"""C14 — a watch-mode rebuild is equivalent to a restart (structural clauses, weak)."""
from __future__ import annotations

import ast
import itertools
import re

from ..engine import finite, flow
from ..engine.mutate import Mutant, Variant, in_function, replace_once
from ..engine.runner import Rule
from ..engine.source import AnalysisError
from ..engine.sqlfront import all_where_clauses, split_conjuncts
from . import shared
from .common import callee_name, calls_in, kwarg

EXPLANATION = (
    "Static comparison of the two independent implementations of 'react to what changed on disk'. Same reactions: the "
    "workflow mutators reachable from the watch side (Watcher.run_once + DirectorHandler.start_build_phase) equal the "
    "ones reachable from the restart side (resume_from_db), modulo a reasoned difference table (environment variables "
    "cannot change inside a running director). Same relevance filter: the folded _RELEVANT_STATES equals the "
    "complement of the states rescan_files excludes, the during-build set lies in the STATIC role, and the glob "
    "relevance selectors are compared for their detached filter (sibling disagreement = known finding F3b-watch). "
    "Event folding keeps the two sets disjoint: record_change is interpreted over the change kinds; run_once prunes "
    "unchanged paths before the glob reaction, applies EXTERNAL only to rows with an EXTERNAL transition, and clears "
    "both sets before signalling. Equivalence for all event sequences (delete-then-recreate, directory moves, inotify "
    "coalescing) is run-time behaviour and is NOT claimed. "
    'Also: record_change is interpreted over the previous membership of the path (last event wins, 6 points); the watch-side and restart-side glob reactions iterate the same registrations; R-C14-4 on resume the directories of every state a restart rescans are watched, and missing directories are remembered at every level.'
    ' R-C14-5 the watches below a removed or moved directory are dropped with it (separator-terminated prefix); R-C14-6 paths the watcher could not hash stay recorded; R-C14-7 every hop from inotify to the workflow forwards; R-C14-8 input nodes created while resolving a supply are watched at once.'
)
ASSUMPTIONS = ["inotify event delivery and coalescing are not modelled"]

REACTIONS = {"workflow.Workflow.update_file_hashes", "workflow.Workflow.persist_nglob_matches", "workflow.Workflow.mark_step_pending"}


def _norm(s):
    return re.sub(r"\s+", " ", s).strip()


def rule_same_reactions(ctx):
    """R-C14-1."""
    def reach(roots):
        out = set()
        for r in roots:
            ctx.prog.func(r)
            out |= ctx.cg.reachable(r, include_by_name=False)
        return out

    watch = reach(["watcher.Watcher.run_once", "director.DirectorHandler.start_build_phase"])
    restart = reach(["startup.resume_from_db"])
    # hash results are applied by hash jobs, which both sides start through gather_hashes
    for side, r, roots in (("watch", watch, "Watcher.run_once + start_build_phase"), ("restart", restart, "resume_from_db")):
        ctx.check("hash_queue.gather_hashes" in r, roots, f"{side} side: file changes go through gather_hashes (hash jobs apply update_file_hashes)", f"the {side} side no longer re-hashes changed files", "gather_hashes")
        ctx.check("workflow.Workflow.persist_nglob_matches" in r, roots, f"{side} side: glob match-set changes are persisted", f"the {side} side does not react to glob match-set changes", "persist_nglob_matches")
        ctx.check("workflow.Workflow.mark_step_pending" in r, roots, f"{side} side: failed steps are retried / changed steps re-pended", f"the {side} side never re-pends steps", "mark_step_pending")
    gh = ctx.prog.func("hash_queue.gather_hashes")
    ctx.check("executor.run_hash_job" in ast.unparse(gh.node) and "hash_queue.submit" in ast.unparse(gh.node), gh.fq, "gather_hashes runs each job through Executor.run_hash_job", "hash results are applied another way on one side", "run_hash_job")
    only_restart = {f for f in restart - watch if f.startswith("startup.rescan_")}
    ctx.check(only_restart <= {"startup.rescan_env_vars", "startup.rescan_files", "startup.rescan_nglobs"}, "startup.resume_from_db", "restart-only scans are the three rescans", f"{sorted(only_restart)}", "rescan_env_vars has no watch twin: the environment of a running director cannot change")
    # the glob reaction of both sides iterates the same registrations
    sel = {}
    for fq in ("workflow.Workflow.process_nglob_changes", "startup.rescan_nglobs"):
        fi = ctx.prog.func(fq)
        calls = [c for c in calls_in(fi.node) if callee_name(c) == "nglob_registrations"]
        if len(calls) != 1:
            raise AnalysisError(f"{fq}: expected one nglob_registrations call, found {len(calls)}")
        c = calls[0]
        sel[fq] = (tuple(ast.unparse(a) for a in c.args), tuple(sorted((k.arg, ast.unparse(k.value)) for k in c.keywords)))
    a, b = sel["workflow.Workflow.process_nglob_changes"], sel["startup.rescan_nglobs"]
    ctx.check(a == b, "workflow.Workflow.process_nglob_changes", "watch-side glob reaction iterates the same registrations as the restart rescan",
              f"watch side selects nglob_registrations{a}, restart side nglob_registrations{b}: a pattern of a detached step is refreshed by a restart but not by a watch-mode rebuild (or the reverse)", f"both: {a}")
    sb = ctx.prog.func("director.DirectorHandler.start_build_phase")
    src = _norm(ast.unparse(sb.node))
    shared.check_failed_steps_retried(ctx, "a detached FAILED step is retried by one side only: a watch-mode rebuild and a restart end with different states")
    # a hash job that fails while the watcher applies the observed changes drains the scheduler; that verdict must
    # reach the report of the build phase, as it does after a restart: the reset of `draining` precedes end_watching
    n_reset = 0
    for tr, st in flow.paths_of(sb):
        k_reset = [k for k, e in enumerate(tr) if e[0] == "assign" and e[1] == "self.scheduler.draining"]
        k_end = [k for k, e in enumerate(tr) if e[0] == "call" and e[1] == "self.watcher.end_watching.set"]
        if not k_end:
            continue
        n_reset += 1
        ctx.check(bool(k_reset) and k_reset[-1] < k_end[0], sb.fq, "`draining` is reset before the watcher applies its changes, not after",
                  "the reset of scheduler.draining follows the watcher's hash jobs: a file that cannot be hashed (the watcher drains the scheduler to surface it) is forgotten, the rebuild reports a clean build with status 0 and runs the cleanup, while a restart on the same tree ends DRAINED", "reset -> end_watching", where=ctx.where_of(sb))
    if n_reset == 0:
        raise AnalysisError("start_build_phase: end_watching.set() not found on any path")
    ctx.check(src.index("self.watcher.end_watching.set()") < src.index("wait_for_any_event(self.watcher.done_watching, self.stop_event)") < src.index("self.builder.resume.set()"), sb.fq, "the builder resumes only after the watcher has applied its changes", "the build can start before the observed changes are applied", "end_watching -> done_watching -> resume")
    w = ctx.prog.func("watcher.Watcher.run_once")
    causes = {ast.unparse(n) for n in ast.walk(w.node) if isinstance(n, ast.Attribute) and isinstance(n.value, ast.Name) and n.value.id == "HashUpdateCause"}
    ctx.check(causes == {"HashUpdateCause.EXTERNAL"}, w.fq, "watch side applies the EXTERNAL cause (as rescan_files does for confirmed states)", f"causes {sorted(causes)}", "EXTERNAL")


def rule_same_filter(ctx):
    """R-C14-2."""
    FS, FR = ctx.prog.enum("FileState"), ctx.prog.enum("FileRole")
    shared.check_file_change_filters_agree(ctx, "a change is seen by one side only")
    dur = ctx.prog.fold("workflow", "_RELEVANT_STATES_DURING_BUILD")
    roles = ctx.prog.fold("enums", "FILE_STATES_BY_ROLE")
    ctx.check(set(dur) <= set(roles[FR.STATIC]), "workflow._RELEVANT_STATES_DURING_BUILD", "during a build only static files are news", f"{sorted(s.name for s in dur)}", "⊆ STATIC role")
    cr = ctx.prog.func("workflow.Workflow.change_is_relevant")
    ctx.check(any(callee_name(c) == "matches_any_glob" for c in calls_in(cr.node)), cr.fq, "a path without a relevant node of its own is judged by the registered patterns", "glob fallback removed", "matches_any_glob")
    # sibling selectors for glob relevance: restart side includes detached registrations, watch side must too
    restart_incl = any(callee_name(c) == "nglob_registrations" and kwarg(c, "include_detached") is not None for c in calls_in(ctx.prog.func("startup.rescan_nglobs").node))
    mg = ctx.prog.func("workflow.Workflow.matches_any_glob")
    txt = " ".join(s.text for s in ctx.sql.stmts_in(mg.fq))
    watch_incl = "detached" not in txt
    ctx.check((not restart_incl) or watch_incl, mg.fq, "glob relevance covers the same registrations as the restart rescan",
              "the restart rescan re-evaluates patterns of detached steps, the watcher's relevance test ignores them: with --no-clean (or after a failed build) a file matching only a detached plan step's pattern is missed in watch mode and the recycled step is skipped with a stale match set", "same selector", where=ctx.where_of(mg))


def rule_event_folding(ctx):
    """R-C14-3."""
    Ch = ctx.prog.enum("Change")
    rc = ctx.prog.func("watcher.Watcher.record_change")
    for ch in Ch:
        fp = finite.feasible_paths(ctx.prog, rc, {"change": ch}, {})
        seen = False
        for tr, st in fp:
            calls = [e[1] for e in tr if e[0] == "call"]
            adds_d = "self.deleted.add" in calls
            adds_u = "self.updated.add" in calls
            if adds_d:
                seen = True
                ctx.check("self.updated.discard" in calls and not adds_u, rc.fq, f"{ch.name}: deleted.add is paired with updated.discard", "a path can be in both sets: the two reactions contradict each other (process_nglob_changes raises)", "paired")
            if adds_u:
                seen = True
                ctx.check("self.deleted.discard" in calls and not adds_d, rc.fq, f"{ch.name}: updated.add is paired with deleted.discard", "a re-created path stays in the deleted set", "paired")
            if adds_d or adds_u:
                rel = any(c in ("self.workflow.change_is_relevant", "self.workflow.relevant_paths_under") for c in calls)
                ctx.check(rel, rc.fq, f"{ch.name}: only relevant paths are recorded", "every path is recorded", "filtered")
        if not seen:
            raise AnalysisError(f"record_change records nothing for {ch.name}")
    # last event wins: whatever was recorded for the path before, a relevant DELETED leaves it in `deleted` only and
    # a relevant UPDATED leaves it in `updated` only (a restart sees the final state of the file system, nothing else)
    for ch in (Ch.DELETED, Ch.UPDATED):
        for ind, inu in ((False, False), (True, False), (False, True)):
            ov = {"path not in self.deleted": not ind, "path not in self.updated": not inu, "path in self.deleted": ind, "path in self.updated": inu,
                  "self.workflow.change_is_relevant(path, during_build=during_build)": True}
            fp = finite.feasible_paths(ctx.prog, rc, {"change": ch}, ov)
            if not fp:
                raise AnalysisError(f"record_change: no feasible path for {ch.name} with deleted={ind} updated={inu}")
            outcomes = set()
            for tr, st in fp:
                d, u = ind, inu
                for e in tr:
                    if e[0] != "call":
                        continue
                    if e[1] == "self.deleted.add":
                        d = True
                    elif e[1] == "self.deleted.discard":
                        d = False
                    elif e[1] == "self.updated.add":
                        u = True
                    elif e[1] == "self.updated.discard":
                        u = False
                outcomes.add((d, u))
            want = (True, False) if ch == Ch.DELETED else (False, True)
            ctx.check(outcomes == {want}, rc.fq, f"{ch.name} after (deleted={ind}, updated={inu}): the path ends in {'deleted' if ch == Ch.DELETED else 'updated'} only",
                      f"possible outcomes (in deleted, in updated) = {sorted(outcomes)}: an event that contradicts the one recorded earlier in the same phase is dropped, so the glob match sets and the hashes are updated for a state of the file system that no longer exists", "last event wins")
    ro = ctx.prog.func("watcher.Watcher.run_once")
    for tr, st in flow.paths_of(ro):
        names = [(k, e[1]) for k, e in enumerate(tr) if e[0] == "call"]
        # the reset of a set is a clear() or an in-place narrowing (`self.deleted &= unsettled`, R-C14-6)
        names += [(k, f"reset {e[1]}") for k, e in enumerate(tr) if e[0] == "assign" and e[1] in ("self.deleted", "self.updated")]
        names += [(k, f"reset {e[1][:-len('.clear')]}") for k, e in enumerate(tr) if e[0] == "call" and e[1] in ("self.deleted.clear", "self.updated.clear")]
        names.sort()
        idx = {n: k for k, n in reversed(names)}
        need = ["self.workflow.get_file_hashes", "gather_hashes", "self.workflow.process_nglob_changes", "reset self.deleted", "reset self.updated", "self.end_watching.clear", "self.done_watching.set"]
        pos = [idx.get(n) for n in need]
        ok = all(p is not None for p in pos) and pos == sorted(pos)
        ctx.check(ok, ro.fq, "hash refresh -> glob reaction -> reset sets -> signal done", f"order {[n for _, n in names if n in need]}", "order kept")
    src = _norm(ast.unparse(ro.node))
    ctx.check("if new_file_hash == old_hashes[path]: await self.reporter('UNCHANGED', path) self.updated.discard(path)" in src, ro.fq, "unchanged files are pruned before the glob reaction", "a touched-but-unchanged file counts as a new glob match", "pruned")
    ctx.check("self.workflow.process_nglob_changes(self.deleted, self.updated)" in src, ro.fq, "glob reaction gets (deleted, updated) in this order", "arguments swapped", "ok")
    ctx.check("await self.record_change(change, path, during_build=True)" in src, ro.fq, "changes queued during the build are filtered with during_build=True", "build-time events are treated like watch-time events", "during_build=True")


def rule_watched_where_restart_looks(ctx):
    """R-C14-4: what a restart would notice, the watcher is in a position to notice: the directories of every file a
    restart rescans are watched when a director resumes an existing database, and a directory that does not exist
    yet is remembered at every missing level."""
    FS = ctx.prog.enum("FileState")
    # states rescanned at restart (rescan_files): all but the bound exclusions
    excl = set()
    for st_ in ctx.sql.census.sites_in("startup.rescan_files"):
        for p in st_.params:
            if isinstance(p, tuple):
                excl |= {x for x in p if isinstance(x, int)}
    rescanned = {m for m in FS if m.value not in excl}
    if not excl:
        raise AnalysisError("startup.rescan_files: excluded states not found")
    wk = ctx.prog.func("startup.watch_known_dirs")
    sel = [st_ for st_ in ctx.sql.stmts_in(wk.fq) if st_.kind == "SELECT" and "file" in st_.text]
    if not sel:
        raise AnalysisError("startup.watch_known_dirs: selection not found")
    watched = None
    for st_ in sel:
        for wh in all_where_clauses(st_.text):
            preds = [c for c in split_conjuncts(wh) if re.search(r"\bstate\b", c)]
            if not preds:
                watched = set(FS) if watched is None else watched
                continue
            tt = ctx.cat.truth_table(" AND ".join(f"({c})" for c in preds), {("file.state", "file . state", "state"): [m.value for m in FS]})
            got = {FS(v) for (v,), ok in tt.items() if ok}
            watched = got if watched is None else (watched & got)
    missing = sorted(m.name for m in rescanned - (watched or set()))
    ctx.check(not missing, wk.fq, "on resume, the directory of every file that a restart rescans is watched",
              f"directories of files in state {missing} are not handed to the watcher when a director resumes a database: an up-to-date step is skipped, so create_dirs never watches its output directory either, and removing or editing such a file is seen by a restart (rescan_files) but not by a watch-mode rebuild", f"watched states ⊇ rescanned states ({sorted(m.name for m in rescanned)})", where=ctx.where_of(wk))
    wloops = [l for l in ast.walk(wk.node) if isinstance(l, (ast.For, ast.AsyncFor)) and any(callee_name(c) == "watch_dir" for c in calls_in(l))]
    ctx.check(bool(wloops), wk.fq, "every selected directory is handed to watch_dir", "the selection is computed but nothing is watched", "loop with workflow.watch_dir(...)")
    dl = ctx.prog.func("watcher.AsyncInotifyWrapper.dir_loop")
    ok = False
    for w in ast.walk(dl.node):
        if isinstance(w, ast.While):
            climbs = any(isinstance(a, ast.Assign) and ast.unparse(a) == "path = path.parent" for a in w.body)
            records = any(isinstance(x, ast.Expr) and isinstance(x.value, ast.Call) and ast.unparse(x.value.func) == "self.watches.setdefault" and x.value.args and ast.unparse(x.value.args[0]) == "path" for x in w.body)
            if climbs and records and "is_dir" in ast.unparse(w.test):
                ok = True
    ctx.check(ok, dl.fq, "every missing ancestor of a requested directory is recorded as a pending watch", "only the requested directory is remembered: when two or more levels are missing, the creation of the upper one is not recognised as the appearance of a pending watch and nothing below it is ever watched", "setdefault inside the climbing loop", where=ctx.where_of(dl))
    cl = ctx.prog.func("watcher.AsyncInotifyWrapper.change_loop")
    ctx.check("self.watches" in ast.unparse(cl.node), cl.fq, "the change loop consults the pending watches", "pending watches are never installed", "consulted")
    # error discipline: between an inotify event and its handling the file system moves on; a call that can fail for
    # that reason must not end the loop (the task exception takes the director down, a restart on the same tree is fine)
    parents = {}
    for n in ast.walk(cl.node):
        for c in ast.iter_child_nodes(n):
            parents[c] = n
    risky = [c for c in calls_in(cl.node) if callee_name(c) in ("rm_watch", "add_watch", "_install_watch", "iterdir", "listdir", "scandir")]
    if len(risky) < 3:
        raise AnalysisError(f"change_loop: only {len(risky)} file-system/inotify calls found (3 confirmed by hand)")
    for c in risky:
        guarded = False
        node = c
        while node in parents:
            par = parents[node]
            if isinstance(par, ast.Try) and node in par.body and any(h.type is None or any(x in ast.unparse(h.type) for x in ("OSError", "Exception", "FileNotFoundError")) for h in par.handlers):
                guarded = True
            if isinstance(par, (ast.With, ast.AsyncWith)) and any(isinstance(it.context_expr, ast.Call) and callee_name(it.context_expr) == "suppress" and any("OSError" in ast.unparse(a) or "Exception" in ast.unparse(a) for a in it.context_expr.args) for it in par.items):
                guarded = True
            node = par
        ctx.check(guarded, cl.fq, f"{ast.unparse(c.func)}(...) cannot end the loop with an OSError", "the call is unguarded: a directory that is moved and removed (or created and removed) in quick succession makes it raise EINVAL/ENOENT, the watcher task dies and the director exits, whereas a restart on the same tree builds fine", "try/except OSError or suppress(OSError)", where=ctx.where_of(cl, c))


def rule_subtree_watches_go_with_directory(ctx):
    """R-C14-5: when a watched directory goes away, the watches of the directories below it are dropped too.

    An inotify watch follows the inode.  After `mv data other` the watch of data/sub sits on other/sub, reports
    events under the old path, and its non-None entry keeps a re-created data/sub from ever being watched: the
    watch-mode rebuild misses what a restart (which looks at paths) sees.
    """
    cl = ctx.prog.func("watcher.AsyncInotifyWrapper.change_loop")
    # the arm for a directory that was deleted or moved away
    arms = []
    for n in ast.walk(cl.node):
        if isinstance(n, ast.If) and "Mask.ISDIR" in ast.unparse(n.test):
            for m in n.body:
                if isinstance(m, ast.If) and "Change.DELETED" in ast.unparse(m.test):
                    arms.append(m)
    if len(arms) != 1:
        raise AnalysisError(f"change_loop: {len(arms)} arms for removed directories found")
    arm = arms[0].body
    own = any(isinstance(a, ast.Assign) and ast.unparse(a.targets[0]) == "self.watches[path]" and ast.unparse(a.value) == "None" for st_ in arm for a in ast.walk(st_))
    ctx.check(own, cl.fq, "the removed directory's own watch is unset", "own watch kept", "self.watches[path] = None")
    loops = [l for st_ in arm for l in ast.walk(st_) if isinstance(l, ast.For) and "self.watches" in ast.unparse(l.iter)]
    ok = False
    why = "no loop over self.watches in the arm"
    for l in loops:
        tgt = {x.id for x in ast.walk(l.target) if isinstance(x, ast.Name)}
        conds = [ast.unparse(i.test) for i in ast.walk(l) if isinstance(i, ast.If)]
        prefix_test = any(".startswith(" in c and any(t in c for t in tgt) for c in conds)
        unsets = any(isinstance(a, ast.Assign) and isinstance(a.targets[0], ast.Subscript) and ast.unparse(a.targets[0].value) == "self.watches" and ast.unparse(a.value) == "None" and any(isinstance(x, ast.Name) and x.id in tgt for x in ast.walk(a.targets[0].slice)) for a in ast.walk(l))
        removes = any(callee_name(c) == "rm_watch" for c in calls_in(l))
        if prefix_test and unsets and removes:
            ok = True
        else:
            why = f"loop found, prefix test={prefix_test}, entry unset={unsets}, rm_watch={removes}"
    ctx.check(ok, cl.fq, "watches under the removed directory are removed and unset", f"{why}: after `mv data other; mkdir -p data/sub` the new data/sub is never watched (its stale entry is not None) and events below other/ are reported under data/", "loop over self.watches with a prefix test, rm_watch and = None", where=ctx.where_of(cl, arms[0]))
    # the kernel's IGNORED notice for a watch that was removed here may arrive after a new watch was installed for the
    # same path: it must only clear the entry when that entry still holds the watch the notice is about
    ign = [n for n in ast.walk(cl.node) if isinstance(n, ast.If) and "Mask.IGNORED" in ast.unparse(n.test)]
    ok_ign = False
    for n in ign:
        for a in ast.walk(n):
            if isinstance(a, ast.Assign) and ast.unparse(a.targets[0]).startswith("self.watches[") and ast.unparse(a.value) == "None":
                guards = [g for g in ast.walk(n) if isinstance(g, ast.If) and g is not n and any(a is x for x in ast.walk(g))]
                ok_ign = any(("event.watch" in ast.unparse(g.test)) and (" is " in ast.unparse(g.test) or "==" in ast.unparse(g.test)) for g in guards)
    ctx.check(bool(ign) and ok_ign, cl.fq, "an IGNORED notice clears the entry only if it still holds that very watch", "the entry is cleared by path alone: after `mv data other; mkdir data` read in one batch, the late notice for the removed watch wipes the watch just installed for the new data/, whose removal is then never reported", "guarded by `self.watches.get(path) is event.watch`", where=ctx.where_of(cl, ign[0]) if ign else ctx.where_of(cl))
    # the prefix is separator-terminated (data/ must not take data2/ with it)
    pre = [a for st_ in arm for a in ast.walk(st_) if isinstance(a, ast.Assign) and isinstance(a.targets[0], ast.Name) and re.search(r"path\s*/\s*''|os\.sep|'/'", ast.unparse(a.value))]
    used = any(isinstance(c.func, ast.Attribute) and c.func.attr == "startswith" and c.args and isinstance(c.args[0], ast.Name) and c.args[0].id in {a.targets[0].id for a in pre} for st_ in arm for c in calls_in(st_))
    ctx.check(used or not ok, cl.fq, "the subtree prefix ends in a separator", "the prefix test compares with the bare directory name: a sibling whose name starts with it loses its watch as well", "path / ''")


def rule_unsettled_paths_kept(ctx):
    """R-C14-6: a path whose hash the watcher could not compute stays recorded for the next rebuild.

    gather_hashes leaves such a path out of its result and the hash job does not touch the database, so the
    workflow keeps the old state; inotify sends no further event.  If the watcher forgets the path, the second
    rebuild finds nothing wrong (status 0, cleanup runs) while every restart rescans the file and fails again.
    """
    ro = ctx.prog.func("watcher.Watcher.run_once")
    src = ast.unparse(ro.node)
    # request and result of the hashing step
    req = res = None
    for n in ast.walk(ro.node):
        if isinstance(n, ast.Assign) and len(n.targets) == 1 and isinstance(n.targets[0], ast.Name):
            v = n.value.value if isinstance(n.value, ast.Await) else n.value
            if isinstance(v, ast.Call) and callee_name(v) == "get_file_hashes":
                req = n.targets[0].id
            if isinstance(v, ast.Call) and callee_name(v) == "gather_hashes":
                res = n.targets[0].id
    if req is None or res is None:
        raise AnalysisError("Watcher.run_once: hashing request/result not found")
    for attr in ("deleted", "updated"):
        clears = [c for c in calls_in(ro.node) if isinstance(c.func, ast.Attribute) and c.func.attr == "clear" and ast.unparse(c.func.value) == f"self.{attr}"]
        rebinds = [a for a in ast.walk(ro.node) if isinstance(a, ast.Assign) and any(ast.unparse(t) == f"self.{attr}" for t in a.targets) and not _mentions_names(a.value, (req, res))]
        keeps = []
        for a in ast.walk(ro.node):
            if isinstance(a, ast.AugAssign) and ast.unparse(a.target) == f"self.{attr}" and isinstance(a.op, ast.BitAnd):
                keeps.append(a.value)
            if isinstance(a, ast.Call) and isinstance(a.func, ast.Attribute) and a.func.attr == "intersection_update" and ast.unparse(a.func.value) == f"self.{attr}" and a.args:
                keeps.append(a.args[0])
        ok_keep = False
        for k in keeps:
            expr = k
            if isinstance(k, ast.Name):
                defs = [a.value for a in ast.walk(ro.node) if isinstance(a, ast.Assign) and len(a.targets) == 1 and isinstance(a.targets[0], ast.Name) and a.targets[0].id == k.id]
                expr = defs[-1] if defs else k
            diff = [b for b in ast.walk(expr) if isinstance(b, ast.BinOp) and isinstance(b.op, ast.Sub) and _mentions_names(b.left, (req,)) and _mentions_names(b.right, (res,))]
            diff += [c for c in ast.walk(expr) if isinstance(c, ast.Call) and isinstance(c.func, ast.Attribute) and c.func.attr == "difference" and _mentions_names(c.func.value, (req,)) and c.args and _mentions_names(c.args[0], (res,))]
            if diff:
                ok_keep = True
        ctx.check(ok_keep and not clears and not rebinds, ro.fq, f"self.{attr} keeps the paths that were requested but not hashed", f"self.{attr} is reset without keeping the paths that gather_hashes could not settle (clear()={len(clears)}, rebinding={len(rebinds)}, intersections with requested-minus-hashed={ok_keep}): the first rebuild after the failure drains, the second one reports success and cleans up, a restart fails again", f"&= ({req} - {res})", where=ctx.where_of(ro))
    gh = ctx.prog.func("hash_queue.gather_hashes")
    ctx.check("absent" in (ast.get_docstring(gh.node) or "") or "continue" in ast.unparse(gh.node), gh.fq, "a path that cannot be hashed is left out of the result", "contract changed", "absent from the result")


def _mentions_names(node, names):
    return any(isinstance(x, ast.Name) and x.id in names for x in ast.walk(node))


def rule_watcher_wiring(ctx):
    """R-C14-7: inotify events reach the workflow."""
    shared.check_watcher_wired(ctx, "a change that a restart would find by rescanning never reaches the workflow in watch mode")


def rule_new_inputs_watched(ctx):
    """R-C14-8: a file node that comes into being as somebody's input has its directory watched, attached or not.

    A restart rescans every file node by path.  A node created while resolving an input (adopted by a static tree, or
    undeclared) that is never declared by itself is only noticed by the watcher if its directory is watched from the
    moment the node exists; `watch_known_dirs` only helps after the next restart.
    """
    rs = ctx.prog.func("workflow.Workflow._resolve_supply_file")
    n = 0
    for tr, st in flow.paths_of(rs):
        creates = [k for k, e in enumerate(tr) if e[0] == "call" and e[1] == "self.create"]
        if not creates or st == "raise":
            continue
        n += 1
        watched = any(e[0] == "call" and e[1] == "self.watch_dir" and "parent" in ast.unparse(e[2]) for e in tr[creates[0]:])
        if not watched:
            ctx.bad(rs.fq, "every input node created here has its directory watched", f"a path that creates a file node ({ast.unparse(tr[creates[0]][2])[:70]}) does not call watch_dir: an edit of that input in the watch phase is not seen, the rebuild leaves its consumers up to date, a restart rebuilds them", where=ctx.where_of(rs, tr[creates[0]][2]))
            return
    ctx.check(n >= 2, rs.fq, "every input node created here has its directory watched", f"only {n} creating path(s) found", f"{n} paths")


RULES = [
    Rule("R-C14-8", "new input nodes are watched from the start", rule_new_inputs_watched, min_instances=1),
    Rule("R-C14-7", "events travel from inotify to the workflow", rule_watcher_wiring, min_instances=4),
    Rule("R-C14-1", "same reactions on both sides", rule_same_reactions, min_instances=10),
    Rule("R-C14-2", "same relevance filter", rule_same_filter, min_instances=5),
    Rule("R-C14-3", "event folding keeps the sets disjoint", rule_event_folding, min_instances=15),
    Rule("R-C14-5", "a removed directory takes the watches of its subtree with it", rule_subtree_watches_go_with_directory, min_instances=4),
    Rule("R-C14-6", "the watcher does not forget what it could not hash", rule_unsettled_paths_kept, min_instances=3),
    Rule("R-C14-4", "the watcher looks where a restart looks", rule_watched_where_restart_looks, min_instances=7),
]

MUTANTS = [
    Mutant("known-dirs-selected-not-watched", "startup.py", in_function("watch_known_dirs", lambda t: __import__("re").sub(r"\n( +)workflow\.watch_dir\(([^\n]*)\)\n", lambda m: "\n" + m.group(1) + "pass\n", t, count=1) if "workflow.watch_dir(" in t else None), ("R-C14-4",)),
    Mutant("ignored-clears-by-path", "watcher.py", in_function("AsyncInotifyWrapper.change_loop", replace_once("                if self.watches.get(path) is event.watch:\n                    self.watches[path] = None\n", "                self.watches[path] = None\n")), ("R-C14-5",)),
    Mutant("adopted-inputs-not-watched", "workflow.py", in_function("Workflow._resolve_supply_file", replace_once("            detached = False\n            self.watch_dir(Path(path).parent)\n", "            detached = False\n")), ("R-C14-8",)),
    Mutant("file-events-not-queued", "watcher.py", in_function("AsyncInotifyWrapper.change_loop", replace_once("            else:\n                self.change_queue.put_nowait((change, path))\n", "            else:\n                pass\n")), ("R-C14-7",)),
    Mutant("new-directory-files-not-queued", "watcher.py", in_function("AsyncInotifyWrapper.change_loop", replace_once("                                self.change_queue.put_nowait((Change.UPDATED, sub_path))\n", "                                pass\n")), ("R-C14-7",)),
    Mutant("watch-phase-events-not-recorded", "watcher.py", in_function("Watcher.run_once", replace_once("            async with self.db:\n                await self.record_change(change, path)\n", "            pass\n")), ("R-C14-7",)),
    Mutant("watcher-forgets-unsettled", "watcher.py", in_function("Watcher.run_once", lambda t: t.replace("        self.deleted &= unsettled\n        self.updated &= unsettled\n", "        self.deleted.clear()\n        self.updated.clear()\n", 1) if "self.deleted &= unsettled" in t else None), ("R-C14-6",)),
    Mutant("watcher-forgets-unsettled-updates", "watcher.py", in_function("Watcher.run_once", replace_once("        self.updated &= unsettled\n", "        self.updated.clear()\n")), ("R-C14-6",)),
    Mutant("unsettled-is-what-was-hashed", "watcher.py", in_function("Watcher.run_once", replace_once("        unsettled = set(old_hashes) - set(new_hashes)\n", "        unsettled = set(new_hashes) - set(old_hashes)\n")), ("R-C14-6",)),
    Mutant("subtree-watches-kept", "watcher.py", in_function("AsyncInotifyWrapper.change_loop", lambda t: t.replace("                        if sub_watch is not None and sub_path.startswith(prefix):\n                            with contextlib.suppress(OSError):\n                                self.inotify.rm_watch(sub_watch)\n                            self.watches[sub_path] = None\n", "                        pass\n", 1) if "sub_path.startswith(prefix)" in t else None), ("R-C14-5",)),
    Mutant("subtree-prefix-without-separator", "watcher.py", in_function("AsyncInotifyWrapper.change_loop", replace_once('                    prefix = path / ""\n', "                    prefix = path\n")), ("R-C14-5",)),
    Mutant("subtree-watches-not-unset", "watcher.py", in_function("AsyncInotifyWrapper.change_loop", replace_once("                            self.watches[sub_path] = None\n", "                            pass\n")), ("R-C14-5",)),
    Mutant("rm-watch-unguarded", "watcher.py", in_function("AsyncInotifyWrapper.change_loop", replace_once("                        with contextlib.suppress(OSError):\n                            self.inotify.rm_watch(watch)\n", "                        self.inotify.rm_watch(watch)\n")), ("R-C14-4",)),
    Mutant("draining-reset-after-watcher", "director.py", in_function("DirectorHandler.start_build_phase", lambda s: s.replace("        self.scheduler.draining = False\n", "", 1).replace("        self.builder.resume.set()\n", "        self.scheduler.draining = False\n        self.builder.resume.set()\n", 1) if "        self.scheduler.draining = False\n" in s else None), ("R-C14-1",)),
    Mutant("rebuild-retries-attached-only", "director.py", in_function("DirectorHandler.start_build_phase", replace_once("self.workflow.steps(StepState.FAILED, include_detached=True)", "self.workflow.steps(StepState.FAILED)")), ("R-C14-1",)),
    Mutant("resume-watches-static-only", "startup.py", in_function("watch_known_dirs", replace_once('f"file.state != {FileState.VOLATILE.value}"', 'f"file.state IN ({FileState.UNCONFIRMED.value}, {FileState.CONFIRMED.value}, {FileState.MISSING.value})"')), ("R-C14-4",)),
    Mutant("pending-watch-one-level", "watcher.py", in_function("AsyncInotifyWrapper.dir_loop", replace_once("            while not (path.is_dir() or path.name == \"..\" or path in (\"\", \".\")):\n                self.watches.setdefault(path, None)\n                path = path.parent\n", "            if not path.is_dir():\n                self.watches.setdefault(path, None)\n            while not (path.is_dir() or path.name == \"..\" or path in (\"\", \".\")):\n                path = path.parent\n")), ("R-C14-4",)),
    Mutant("watch-globs-attached-only", "workflow.py", in_function("Workflow.process_nglob_changes", replace_once("self.nglob_registrations(include_detached=True)", "self.nglob_registrations()")), ("R-C14-1",)),
    Mutant("no-glob-reaction", "watcher.py", in_function("Watcher.run_once", replace_once("            self.workflow.process_nglob_changes(self.deleted, self.updated)\n", "            pass\n")), ("R-C14-1", "R-C14-3")),
    Mutant("rebuild-no-retry", "director.py", in_function("DirectorHandler.start_build_phase", lambda s: s.replace("            for step in self.workflow.steps(StepState.FAILED, include_detached=True):\n                self.workflow.mark_step_pending(step)\n", "            pass\n") if "self.workflow.mark_step_pending(step)" in s else None), ("R-C14-1",)),
    Mutant("rescan-skips-built", "startup.py", replace_once("data = (FileState.PLANNED.value, FileState.VOLATILE.value)", "data = (FileState.PLANNED.value, FileState.BUILT.value)"), ("R-C14-2",)),
    Mutant("relevant-drops-outdated", "workflow.py", replace_once("_RELEVANT_STATES = frozenset(FileState) - {FileState.PLANNED, FileState.VOLATILE}", "_RELEVANT_STATES = frozenset(FileState) - {FileState.PLANNED, FileState.VOLATILE, FileState.OUTDATED}"), ("R-C14-2",)),
    Mutant("opposite-event-dropped", "watcher.py", in_function("Watcher.record_change", lambda s: s.replace("if change == Change.DELETED and path not in self.deleted:", "if change == Change.DELETED and path not in self.deleted and path not in self.updated:", 1) if "if change == Change.DELETED and path not in self.deleted:" in s else None), ("R-C14-3",)),
    Mutant("no-discard", "watcher.py", in_function("Watcher.record_change", lambda s: s.replace("                self.deleted.add(path)\n                self.updated.discard(path)\n", "                self.deleted.add(path)\n", 1) if "self.updated.discard(path)" in s else None), ("R-C14-3",)),
    Mutant("unchanged-not-pruned", "watcher.py", in_function("Watcher.run_once", replace_once("                    self.updated.discard(path)\n", "")), ("R-C14-3",)),
    Mutant("resume-before-done", "director.py", in_function("DirectorHandler.start_build_phase", lambda s: s.replace("        await wait_for_any_event(self.watcher.done_watching, self.stop_event)\n", "") if "self.watcher.done_watching" in s else None), ("R-C14-1",)),
]

VARIANTS = []
