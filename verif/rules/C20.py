"""C20 — a path means the same file to a step and to the director (structural clauses)."""
from __future__ import annotations

import ast
import re

from ..engine import flow
from ..engine.mutate import Mutant, Variant, in_function, replace_once
from ..engine.runner import Rule
from ..engine.source import AnalysisError
from .common import callee_name, calls_in

EXPLANATION = (
    "Static taint analysis of the client API. Sources are the path-typed parameters of step/amend/static/glob, the "
    "sanitiser is path.translate (directly or through the trailing-separator wrapper), sinks are the arguments of "
    "get_rpc_client().call.<procedure>(...): every path argument at every sink must be defined from a translate call "
    "applied to each element, with the new step's working directory as second argument for inp/out/vol in step() and "
    "none elsewhere; paths coming back (get_info) pass translate_back. Label-bound flows (patterns and matches of "
    "static/glob) must not restore a leading './' after translation. In translate/translate_back every value built "
    "with a join is normalised before it is returned on every path. The environment variables assigned in "
    "_run_command equal RESERVED_ENV_VARS and are assigned after the overrides; the clean tool translates on the way "
    "in and back on the way out. Does not decide the arithmetic of translate for all '..'/absolute/nested combinations. "
    'Also (R-C20-6): translate/translate_back compute root-relative paths with relpath on normalised paths, never by cutting a string prefix.'
    ' Also: R-C20-8 both working-directory arms of translate() relate a relative path to the project root (a step always receives a relative HERE).'
)
ASSUMPTIONS = ["Path.normpath and Path.relpath behave like os.path.normpath / os.path.relpath"]

SANITISERS = {"translate", "_translate_keep_trailing"}

# procedure -> {positional index: (kind, expects_workdir)}
SINKS = {
    "declare_static": {1: ("list", False), 2: ("list", False), 3: ("patterns", False)},
    "register_glob": {1: ("scalar", False), 3: ("list", False)},
    "define_step": {2: ("list", True), 4: ("list", True), 5: ("list", True), 6: ("scalar", False)},
    "amend_step": {1: ("list", False), 3: ("list", False), 4: ("list", False)},
}
UNTRANSLATED_OK = {"write_graph": "graph(prefix) is documented as relative to the director's working directory"}


def _norm(s):
    return re.sub(r"\s+", " ", s).strip()


def _defs(fi, name, before):
    out = []
    for n in ast.walk(fi.node):
        if isinstance(n, ast.Assign) and len(n.targets) == 1 and isinstance(n.targets[0], ast.Name) and n.targets[0].id == name and n.lineno < before:
            out.append(n)
    return out


def _sanitised(value, expects_workdir, workdir_name="su_workdir"):
    """Every element of ``value`` is the result of a sanitiser call (with the right workdir argument)."""
    calls = [c for c in ast.walk(value) if isinstance(c, ast.Call) and isinstance(c.func, ast.Name) and c.func.id in SANITISERS]
    if not calls:
        return False, "no translate call"
    # the produced element(s) must be the sanitiser call itself (comprehension element, or the value)
    elts = []
    if isinstance(value, (ast.ListComp, ast.SetComp, ast.GeneratorExp)):
        elts = [value.elt]
    elif isinstance(value, ast.Call) and isinstance(value.func, ast.Name) and value.func.id in ("sorted", "list", "set") and value.args:
        inner = value.args[0]
        elts = [inner.elt] if isinstance(inner, (ast.ListComp, ast.SetComp, ast.GeneratorExp)) else [inner]
    else:
        elts = [value]
    for e in elts:
        if isinstance(e, ast.Tuple):
            for sub in e.elts:
                ok, why = _sanitised(sub, expects_workdir, workdir_name)
                if not ok:
                    return False, why
            continue
        if not (isinstance(e, ast.Call) and isinstance(e.func, ast.Name) and e.func.id in SANITISERS):
            return False, f"element {ast.unparse(e)[:50]} is not a translate call"
        nargs = len(e.args) + len(e.keywords)
        if expects_workdir:
            if not (nargs == 2 and ast.unparse(e.args[1] if len(e.args) > 1 else e.keywords[0].value) == workdir_name):
                return False, f"translate is not given the new step's working directory ({ast.unparse(e)})"
        elif nargs != 1:
            return False, f"translate gets an unexpected working directory ({ast.unparse(e)})"
    return True, "translated"


def rule_sanitiser(ctx):
    """R-C20-1."""
    api = ctx.prog.module("api")
    seen = set()
    for fi in api.all_funcs.values():
        for c in calls_in(fi.node):
            src = ast.unparse(c.func)
            m = re.fullmatch(r"get_rpc_client\(\)\.call\.(\w+)", src)
            if not m:
                continue
            proc = m.group(1)
            seen.add(proc)
            if proc in UNTRANSLATED_OK:
                ctx.ok(fi.fq, f"{proc}(...)", "exception: " + UNTRANSLATED_OK[proc], where=ctx.where_of(fi, c))
                continue
            if proc not in SINKS:
                if any(isinstance(a, ast.Name) and ("path" in a.id or a.id.startswith(("tr_", "su_"))) for a in c.args):
                    ctx.bad(fi.fq, f"{proc}(...)", "a path-like argument crosses to the director through a procedure that is not in the sink table", where=ctx.where_of(fi, c))
                else:
                    ctx.ok(fi.fq, f"{proc}(...)", "no path argument", where=ctx.where_of(fi, c))
                continue
            for idx, (kind, wd) in SINKS[proc].items():
                if idx >= len(c.args):
                    ctx.bad(fi.fq, f"{proc} argument #{idx}", "expected path argument is missing", where=ctx.where_of(fi, c))
                    continue
                a = c.args[idx]
                if isinstance(a, ast.Call) and isinstance(a.func, ast.Name) and a.func.id == "sorted" and a.args and isinstance(a.args[0], ast.Name):
                    a = a.args[0]
                if not isinstance(a, ast.Name):
                    ok, why = _sanitised(a, wd)
                    ctx.check(ok, fi.fq, f"{proc} argument #{idx}: {ast.unparse(a)[:40]}", f"path argument reaches the director untranslated: {why}", why, where=ctx.where_of(fi, c))
                    continue
                defs = _defs(fi, a.id, c.lineno)
                if not defs:
                    ctx.bad(fi.fq, f"{proc} argument #{idx}: {a.id}", "path argument has no local definition (raw parameter crosses to the director)", where=ctx.where_of(fi, c))
                    continue
                for d in defs:
                    ok, why = _sanitised(d.value, wd)
                    ctx.check(ok, fi.fq, f"{proc} argument #{idx}: {a.id} = {ast.unparse(d.value)[:60]}", f"path argument reaches the director untranslated or with the wrong working directory: {why}", why, where=ctx.where_of(fi, d))
    if not {"declare_static", "register_glob", "define_step", "amend_step"} <= seen:
        raise AnalysisError(f"RPC sinks not found in api.py: {sorted(seen)}")
    gi = ctx.prog.func("api.get_info")
    src = _norm(ast.unparse(gi.node))
    for f in ("inp", "out", "vol"):
        ctx.check(f"step_info.{f} = sorted((translate_back({f}) for {f} in step_info.{f}))" in src, gi.fq, f"step_info.{f} is translated back", f"paths handed back to the step are not translated back ({f})", "translate_back")
    st = ctx.prog.func("api.step")
    src = _norm(ast.unparse(st.node))
    ctx.check("su_workdir = subs_env(workdir)" in src, st.fq, "the working directory used for translation is the substituted workdir of the new step", "another working directory is used", "su_workdir")


def rule_no_denormalisation(ctx):
    """R-C20-2."""
    if ctx.prog.has_func("api._translate_keep_trailing"):
        tk = ctx.prog.func("api._translate_keep_trailing")
        src = _norm(ast.unparse(tk.node))
        ok = "_, suffix = get_affixes(path)" in src and "return apply_affixes(translate(path), '', suffix)" in src
        ctx.check(ok, tk.fq, "keeps only the trailing separator (leading affix is always empty)", "the wrapper restores a leading './' after translation: patterns and matches reach the director as './x', which never equals a label", "apply_affixes(translate(path), '', suffix)", where=ctx.where_of(tk))
    for fq in ("api.static", "api.glob"):
        fi = ctx.prog.func(fq)
        bad = [c for c in calls_in(fi.node) if callee_name(c) == "_keep_affixes" and len(c.args) > 1 and ast.unparse(c.args[1]) == "translate"]
        ctx.check(not bad, fq, "label-bound values are not wrapped in _keep_affixes(·, translate)", "a pattern or match is translated with its leading './' restored", "trailing affix only", where=ctx.where_of(fi, bad[0]) if bad else ctx.where_of(fi))
    ka = ctx.prog.func("api._keep_affixes")
    users = [(f.fq, ast.unparse(c.args[1])) for f in ctx.prog.module("api").all_funcs.values() for c in calls_in(f.node) if callee_name(c) == "_keep_affixes" and len(c.args) > 1]
    ctx.check(all(t in ("Path.normpath", "translate_back") for _, t in users), ka.fq, "_keep_affixes is used only for executables and paths handed back (never towards labels)", f"users: {users}", f"{len(users)} call sites")
    ga = ctx.prog.func("path.get_affixes")
    src = _norm(ast.unparse(ga.node))
    ctx.check("leading = './' if path.startswith('./') else ''" in src and "if path.endswith('/'): trailing = '/'" in src, ga.fq, "affixes are exactly a leading './' and a trailing '/'", "affix definition changed", "ok")


def rule_normalise_after_join(ctx):
    """R-C20-5."""
    for fq in ("path.translate", "path.translate_back"):
        fi = ctx.prog.func(fq)
        n = 0
        for tr, st in flow.paths_of(fi):
            if st != "return":
                continue
            n += 1
            assigns = [e for e in tr if e[0] == "assign" and e[1] == "path"]
            joined = [k for k, e in enumerate(assigns) if re.search(r"\w\s*/\s*\w", e[2]) and "normpath" not in e[2] and "relpath" not in e[2]]
            if not joined:
                last = assigns[-1][2] if assigns else ""
                ok = ".normpath()" in last or ".relpath(" in last
                ctx.check(ok, fq, "returned value is normalised", f"last assignment {last!r} is not normalised", "normalised")
                continue
            after = assigns[joined[-1] + 1:]
            ok = any(".normpath()" in e[2] or ".relpath(" in e[2] for e in after)
            ctx.check(ok, fq, "a joined path is normalised before it is returned", f"on a path through {[(e[1], e[2]) for e in tr if e[0] == 'test']} the join `{assigns[joined[-1]][2]}` is returned as is: '..' components survive and the same file gets a second spelling", "normpath/relpath after the join", where=ctx.where_of(fi))
        if n == 0:
            raise AnalysisError(f"{fq} has no return path")
    t = ctx.prog.func("path.translate")
    src = _norm(ast.unparse(t.node))
    ctx.check("path = coerce_path(path).normpath()" in src and "workdir = coerce_path(workdir).normpath()" in src, t.fq, "both operands are normalised first", "operands not normalised", "ok")
    ctx.check("root = get_stepup_root()" in src and "here = Path(os.getenv('HERE', Path('.').relpath(root)))" in src, t.fq, "relative paths are resolved through STEPUP_ROOT and HERE", "resolution base changed", "ROOT/HERE")
    tb = ctx.prog.func("path.translate_back")
    src = _norm(ast.unparse(tb.node))
    ctx.check("path = Path(root / path).relpath(root / here / workdir)" in src, tb.fq, "inverse resolution through ROOT / HERE / workdir", "changed", "ok")


SURGERY = ("removeprefix", "removesuffix", "lstrip", "rstrip", "strip", "replace", "split", "rsplit", "partition", "rpartition")


def rule_relative_by_relpath(ctx):
    """R-C20-6: whether and how a path lies under the root (or the working directory) is decided by relpath on
    normalised absolute paths, never by cutting a string prefix."""
    n = 0
    for fq in ("path.translate", "path.translate_back"):
        fi = ctx.prog.func(fq)
        cuts = []
        for x in ast.walk(fi.node):
            if isinstance(x, ast.Subscript) and isinstance(x.slice, ast.Slice):
                cuts.append(x)
            elif isinstance(x, ast.Call) and isinstance(x.func, ast.Attribute) and x.func.attr in SURGERY:
                cuts.append(x)
        n += 1
        ctx.check(not cuts, fq, "no string surgery on the path", f"the result is cut out of the string ({', '.join(ast.unparse(c) for c in cuts[:3])}): a sibling directory whose name merely extends the root's name (proj-data next to proj) is taken to be inside the root and a different file is recorded", "relpath only", where=ctx.where_of(fi, cuts[0]) if cuts else ctx.where_of(fi))
        # every return path that resolves through ROOT/HERE ends in relpath(...)
        for tr, st in flow.paths_of(fi):
            if st != "return":
                continue
            assigns = [e for e in tr if e[0] == "assign" and e[1] == "path"]
            used_root = any(e[0] == "assign" and e[1] == "root" for e in tr)
            if not used_root:
                continue
            n += 1
            last = assigns[-1][2] if assigns else ""
            ctx.check(re.search(r"\.relpath\([^()]*root[^()]*\)$", last) is not None, fq, "a path resolved through the root is returned as relpath(<root-based directory>)",
                      f"last assignment on this path: {last!r}", "relpath", where=ctx.where_of(fi))
    if n < 4:
        raise AnalysisError("translate/translate_back: root-relative return paths not found")


def rule_call_args_file(ctx):
    """R-C20-7: api.call hands `args_file` to two consumers: dumpns(), which resolves it in the caller's directory
    (and amends it as an output there), and step(inp=..., workdir=...), which resolves it in the called step's
    working directory.  Both must name the same file: the path given to dumpns() is joined with the working
    directory that is passed to step()."""
    fi = ctx.prog.func("api.call")
    steps = [c for c in calls_in(fi.node) if isinstance(c.func, ast.Name) and c.func.id == "step"]
    dumps = [c for c in calls_in(fi.node) if isinstance(c.func, ast.Name) and c.func.id == "dumpns"]
    if not steps or not dumps:
        raise AnalysisError("api.call: step()/dumpns() calls not found")
    wd = [ast.unparse(k.value) for c in steps for k in c.keywords if k.arg == "workdir"]
    if not wd:
        raise AnalysisError("api.call no longer passes workdir to step()")
    wd_names = {n.id for w in wd for n in ast.walk(ast.parse(w, mode="eval")) if isinstance(n, ast.Name)}
    for c in dumps:
        arg = c.args[0] if c.args else None
        names = {n.id for n in ast.walk(arg) if isinstance(n, ast.Name)} if arg is not None else set()
        ctx.check(bool(names & wd_names), fi.fq, f"dumpns({ast.unparse(arg) if arg is not None else ''}, ...) writes the file where the called step will look for it",
                  f"the args file is written (and amended as an output) relative to the caller's directory, but declared as an input and put on the command line relative to workdir={wd}: with a working directory the two records designate different files and the called step waits for ever for an undeclared input", "joined with the step's workdir", where=ctx.where_of(fi, c))


def rule_one_label_per_file(ctx):
    """R-C20-8: a relative path gets the same label whichever way its working directory is spelled.

    The executor always hands a step a *relative* HERE, so everything the step declares itself goes through
    the relative-workdir arm of translate() and is related to the project root.  A creator that declares the
    step with an absolute workdir goes through the other arm: unless that arm relates its result to the root
    as well, the same file in the same directory gets two labels (one absolute, one root-relative).
    """
    t = ctx.prog.func("path.translate")
    n = 0
    for tr, st in flow.paths_of(t):
        if st != "return":
            continue
        tests = [(e[1], e[2]) for e in tr if e[0] == "test"]
        if ("path.isabs()", False) not in tests and ("not path.isabs()", True) not in tests:
            continue  # an absolute path stays what it is
        n += 1
        arm = "absolute" if ("workdir.isabs()", True) in tests else "relative"
        assigns = [e[2] for e in tr if e[0] == "assign" and e[1] == "path"]
        related = any(".relpath(" in a for a in assigns)
        ctx.check(related, t.fq, f"a relative path in a working directory given as {arm} path is related to the project root", f"with an {arm} workdir the result is `{assigns[-1] if assigns else '?'}`: step(cmd, workdir=<abs>, inp='in.txt') records <abs>/in.txt while amend(inp='in.txt') inside that step (HERE is always relative) records ../ext/in.txt for the same file, so the step waits for ever on an undeclared input; inside the root the creator's label is absolute and never meets the static declaration", "relpath(root)", where=ctx.where_of(t))
    if n < 2:
        raise AnalysisError("translate: the two working-directory arms were not found")
    ex = ctx.prog.func("executor.Executor._run_command")
    ctx.check(re.search(r"env\['HERE'\] = str\(Path\(workdir\)\.relpath\(\)\)", ast.unparse(ex.node)) is not None, ex.fq, "a step always receives a relative HERE", "HERE may be absolute", "relpath()")


def rule_reserved(ctx):
    """R-C20-3."""
    rc = ctx.prog.func("executor.Executor._run_command")
    keys = []
    upd = None
    for n in ast.walk(rc.node):
        if isinstance(n, ast.Assign) and len(n.targets) == 1 and isinstance(n.targets[0], ast.Subscript) and ast.unparse(n.targets[0].value) == "env" and isinstance(n.targets[0].slice, ast.Constant):
            keys.append((n.targets[0].slice.value, n.lineno))
        if isinstance(n, ast.Call) and ast.unparse(n.func) == "env.update" and n.args and ast.unparse(n.args[0]) == "env_overrides":
            upd = n.lineno
    reserved = set(ctx.prog.fold("step", "RESERVED_ENV_VARS"))
    ctx.check({k for k, _ in keys} == reserved, rc.fq, "variables set for every step = RESERVED_ENV_VARS", f"assigned {sorted(k for k, _ in keys)} vs reserved {sorted(reserved)}: a step can override a variable StepUp sets, or a reserved name is never set", "same set")
    ctx.check(upd is not None and all(ln > upd for _, ln in keys), rc.fq, "reserved variables are assigned after the overrides", "an override can replace HERE/ROOT", "after env.update(env_overrides)")
    src = _norm(ast.unparse(rc.node))
    ctx.check("env['ROOT'] = str(Path.cwd().relpath(workdir))" in src and "env['HERE'] = str(Path(workdir).relpath())" in src, rc.fq, "ROOT = root relative to workdir, HERE = workdir relative to root", "ROOT/HERE definitions changed", "ok")
    ctx.check("cwd=workdir" in src, rc.fq, "the command runs in the step's working directory", "cwd changed", "cwd=workdir")
    ds = ctx.prog.func("workflow.Workflow.define_step")
    ctx.check("reserved = set(env_overrides) & RESERVED_ENV_VARS" in _norm(ast.unparse(ds.node)), ds.fq, "overrides of reserved variables are rejected at declaration", "not rejected", "rejected")
    # STEPUP_ROOT handed to the steps is the director's actual working directory (the tool has already changed into the
    # project root; the environment variable it started from may be relative or reach the root through a symlink)
    sv = ctx.prog.func("director.serve")
    vals = []
    for n in ast.walk(sv.node):
        if isinstance(n, ast.Dict):
            for k, v in zip(n.keys, n.values):
                if isinstance(k, ast.Constant) and k.value == "STEPUP_ROOT":
                    vals.append(ast.unparse(v))
        if isinstance(n, ast.Assign) and len(n.targets) == 1 and isinstance(n.targets[0], ast.Subscript) and isinstance(n.targets[0].slice, ast.Constant) and n.targets[0].slice.value == "STEPUP_ROOT":
            vals.append(ast.unparse(n.value))
    if not vals:
        raise AnalysisError("director.serve no longer sets STEPUP_ROOT for the steps")
    ctx.check(all(v in ("str(Path.cwd())", "os.getcwd()", "str(Path.cwd().absolute())") for v in vals), sv.fq, "STEPUP_ROOT for the steps = the director's working directory",
              f"STEPUP_ROOT is taken from {vals}: when the build was started with a relative (or symlinked) STEPUP_ROOT the steps resolve root-based paths against a directory that is not the one the director records paths against", "Path.cwd()", where=ctx.where_of(sv))
    # the label is the only record of (command, workdir): parsing inverts adjust_label, which forbids the marker in the
    # command but not in the working directory, so the split is at the FIRST marker
    al = ctx.prog.func("step.Step.adjust_label")
    cw = ctx.prog.func("step.Step.command_and_workdir")
    marker = [n.value for n in ast.walk(al.node) if isinstance(n, ast.Constant) and isinstance(n.value, str) and "# wd=" in n.value and "{" not in n.value]
    guards = [n for n in ast.walk(al.node) if isinstance(n, ast.If) and isinstance(n.test, ast.Compare) and isinstance(n.test.ops[0], ast.In) and any(isinstance(x, ast.Raise) for x in n.body)]
    ctx.check(bool(guards) and all(ast.unparse(g.test.comparators[0]) == al.params()[1] for g in guards), al.fq, "the marker is rejected in the command", "a command may contain the workdir marker: the label no longer determines (command, workdir)", "raises")
    splits = [c for c in calls_in(cw.node) if callee_name(c) in ("split", "rsplit", "partition", "rpartition")]
    ok = len(splits) == 1 and ((callee_name(splits[0]) == "split" and any(k.arg == "maxsplit" and ast.unparse(k.value) == "1" for k in splits[0].keywords) or (callee_name(splits[0]) == "split" and len(splits[0].args) == 2 and ast.unparse(splits[0].args[1]) == "1")) or callee_name(splits[0]) == "partition")
    ok = ok and bool(marker) and isinstance(splits[0].args[0], ast.Constant) and splits[0].args[0].value in marker
    ctx.check(ok, cw.fq, "the label is split at the first workdir marker", f"label parsed with {[ast.unparse(c.func) + '(' + ', '.join(ast.unparse(a) for a in c.args) + ')' for c in splits]}: a working directory that contains the marker is taken apart differently from how the label was built, and the command runs in another directory than the one the paths were translated for", "split(marker, maxsplit=1)", where=ctx.where_of(cw))


def rule_clean_tool(ctx):
    """R-C20-4."""
    ct = ctx.prog.func("clean.clean_tool")
    ctx.check("tr_paths = {translate(path.normpath()) for path in args.paths}" in _norm(ast.unparse(ct.node)), ct.fq, "CLI paths are translated before querying", "clean queries the database with untranslated paths", "translate")
    cl = ctx.prog.func("clean.clean")
    src = _norm(ast.unparse(cl.node))
    ctx.check("lo_consuming_path = translate_back(tr_consuming_path)" in src, cl.fq, "stored paths are translated back before touching the disk", "clean touches the disk with root-relative paths from another directory", "translate_back")
    uses = [ast.unparse(c.func.value) for c in calls_in(cl.node) if isinstance(c.func, ast.Attribute) and c.func.attr in ("remove_p", "exists", "refreshed")]
    ctx.check(all("tr_" not in u for u in uses), cl.fq, "file-system calls use the local spelling", f"{uses}", "lo_ only")


RULES = [
    Rule("R-C20-1", "sanitiser on every crossing", rule_sanitiser, min_instances=18),
    Rule("R-C20-2", "no de-normalisation after the sanitiser", rule_no_denormalisation, min_instances=4),
    Rule("R-C20-5", "normalise after join", rule_normalise_after_join, min_instances=6),
    Rule("R-C20-3", "reserved variables", rule_reserved, min_instances=5),
    Rule("R-C20-4", "clean tool translates in and back", rule_clean_tool, min_instances=3),
    Rule("R-C20-7", "api.call writes its args file where the called step reads it", rule_call_args_file, min_instances=1),
    Rule("R-C20-8", "one label per file, however the working directory is spelled", rule_one_label_per_file, min_instances=3),
    Rule("R-C20-6", "relative paths are computed by relpath, not by cutting a prefix", rule_relative_by_relpath, min_instances=4),
]

MUTANTS = [
    Mutant("relative-arm-not-related-to-root", "path.py", in_function("translate", replace_once("path = (root / here / path).normpath().relpath(root)", "path = (root / here / path).normpath()")), ("R-C20-8",)),
    Mutant("args-file-in-callers-directory", "api.py", in_function("call", replace_once("dumpns(Path(su_workdir) / su_args_file, forwarded)", "dumpns(su_args_file, forwarded)")), ("R-C20-7",)),
    Mutant("label-split-at-last-marker", "step.py", in_function("Step.command_and_workdir", lambda s: s.replace('parts = self.label.split("  # wd=", maxsplit=1)', 'parts = self.label.rsplit("  # wd=", maxsplit=1)') if 'self.label.split("  # wd=", maxsplit=1)' in s else None), ("R-C20-3",)),
    Mutant("root-from-environment", "director.py", in_function("serve", replace_once('"STEPUP_ROOT": str(Path.cwd()),', '"STEPUP_ROOT": os.environ.get("STEPUP_ROOT", str(Path.cwd())),')), ("R-C20-3",)),
    Mutant("root-prefix-cut", "path.py", in_function("translate", replace_once("            path = (root / here / path).normpath().relpath(root)\n", "            path = (root / here / path).normpath()\n            path = Path(path[len(root) + 1 :]) if path.startswith(root) and path != root else path.relpath(root)\n")), ("R-C20-6",)),
    Mutant("step-no-workdir", "api.py", in_function("step", replace_once("tr_out_paths = [translate(out_path, su_workdir) for out_path in su_out_paths]", "tr_out_paths = [translate(out_path) for out_path in su_out_paths]")), ("R-C20-1",)),
    Mutant("amend-untranslated", "api.py", in_function("amend", replace_once("tr_inp_paths = {translate(inp_path) for inp_path in su_inp_paths}", "tr_inp_paths = set(su_inp_paths)")), ("R-C20-1",)),
    Mutant("workdir-double", "api.py", in_function("step", replace_once("tr_workdir = translate(su_workdir)", "tr_workdir = translate(su_workdir, su_workdir)")), ("R-C20-1",)),
    Mutant("info-not-back", "api.py", in_function("get_info", replace_once("step_info.out = sorted(translate_back(out) for out in step_info.out)", "step_info.out = sorted(step_info.out)")), ("R-C20-1",)),
    Mutant("leading-affix-restored", "api.py", in_function("_translate_keep_trailing", lambda s: s.replace('    _, suffix = get_affixes(path)\n    return apply_affixes(translate(path), "", suffix)\n', "    prefix, suffix = get_affixes(path)\n    return apply_affixes(translate(path), prefix, suffix)\n") if "_, suffix = get_affixes(path)" in s else None), ("R-C20-2",)),
    Mutant("glob-keep-affixes", "api.py", in_function("glob", replace_once("tr_pattern = _translate_keep_trailing(su_pattern)", "tr_pattern = _keep_affixes(su_pattern, translate)")), ("R-C20-2", "R-C20-1")),
    Mutant("join-not-normalised", "path.py", in_function("translate", lambda s: s.replace("        if workdir.isabs():\n            # The join can reintroduce `..` components after both parts were normalized.\n            path = path.normpath()\n        else:", "        if not workdir.isabs():") if "path = path.normpath()" in s else None), ("R-C20-5",)),
    Mutant("here-not-exported", "executor.py", in_function("Executor._run_command", replace_once('        env["HERE"] = str(Path(workdir).relpath())\n', "")), ("R-C20-3",)),
    Mutant("overrides-win", "executor.py", in_function("Executor._run_command", lambda s: s.replace("        env.update(env_overrides)\n", "", 1).replace("        # Note: the variables defined here must be listed in `RESERVED_ENV_VARS`.\n", "        env.update(env_overrides)\n", 1) if "# Note: the variables defined here must be listed" in s else None), ("R-C20-3",)),
    Mutant("clean-no-translate-back", "clean.py", in_function("clean", replace_once("lo_consuming_path = translate_back(tr_consuming_path)", "lo_consuming_path = Path(tr_consuming_path)")), ("R-C20-4",)),
]

VARIANTS = []
