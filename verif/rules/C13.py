"""C13 — change detection by hashes is sound (structural clauses)."""
from __future__ import annotations

import ast
import itertools
import re

from ..engine.mutate import Mutant, Variant, in_function, replace_once
from ..engine.runner import Rule
from ..engine.source import AnalysisError
from . import shared
from .common import callee_name, calls_in, kwarg

EXPLANATION = (
    "Static analysis of the digest construction. Def-use in StepHash.from_inp and _update_file_hashes: every "
    "ingredient parameter and every equality-relevant FileHash field reaches a HashWords.update argument; every loop "
    "feeding the hash iterates sorted(...). The word sequence is abstracted into a regular grammar (typed words: "
    "keyword, NUL-free variable string, None, fixed-width bytes, digest; loops as stars) and a decision procedure on "
    "its position automaton checks unique decodability, producing the two derivations when it fails. The stat "
    "shortcut of FileHash.refreshed must compare mode, mtime, size and inode with the stat result; to_json/from_json "
    "pair None with the unknown hash. Decides injectivity of the encoding up to SHA-256, not the JSON round trip "
    "through cattrs nor float fidelity of mtime. "
    'Also: hashing helpers that receive the HashWords object are followed (optional words make the grammar ambiguous); tracked environment values are looked up in base_env without a default at both call sites; R-C13-6 the content digest reads until a zero-length read and hashes every chunk.'
)
ASSUMPTIONS = [
    "SHA-256 is collision resistant; a 32-byte digest is not adversarially chosen to imitate word boundaries",
    "variable-length words (labels, paths, environment names and values) contain no NUL byte (stated in the property)",
]

# ----------------------------------------------------------------------------- grammar extraction


def _word_shape(fi, node, env_types):
    """Abstract shape of one hw.update(arg) argument."""
    if isinstance(node, ast.Constant):
        if isinstance(node.value, str):
            return ("K", node.value)
        if node.value is None:
            return ("N",)
        if isinstance(node.value, bytes):
            return ("B", len(node.value))
    if isinstance(node, ast.Call):
        f = node.func
        if isinstance(f, ast.Name) and f.id == "bytes" and len(node.args) == 1 and isinstance(node.args[0], (ast.List, ast.Tuple)):
            return ("B", len(node.args[0].elts))
        if isinstance(f, ast.Attribute) and f.attr == "to_bytes" and node.args and isinstance(node.args[0], ast.Constant) and isinstance(node.args[0].value, int):
            return ("B", node.args[0].value)
        if isinstance(f, ast.Attribute) and f.attr == "to_bytes":
            return ("BV",)
        if isinstance(f, ast.Name) and f.id == "str":
            return ("S",)
        if isinstance(f, ast.Attribute) and f.attr in ("encode",):
            return ("BV",)
    if isinstance(node, ast.Attribute) and node.attr == "digest":
        return ("D",)
    if isinstance(node, ast.Name):
        t = env_types.get(node.id)
        if t in ("str",):
            return ("S",)
        if t in ("str|None",):
            return ("ALT", [("S",), ("N",)])
        if t == "bytes":
            return ("BV",)
        return ("S",)
    return ("?", ast.unparse(node))


def _grammar(ctx, fi, hw_name="hw", depth=0):
    """Flat grammar of the hw.update sequence of a function: list of items (tok | ('LOOP', items))."""
    env_types = {}
    ann = fi.param_annotations()
    for p, a in ann.items():
        a = a.replace(" ", "")
        if a == "str":
            env_types[p] = "str"
    items = []

    def walk(stmts, types):
        out = []
        for s in stmts:
            if isinstance(s, ast.Expr) and isinstance(s.value, ast.Call):
                c = s.value
                if isinstance(c.func, ast.Attribute) and c.func.attr == "update" and isinstance(c.func.value, ast.Name) and c.func.value.id == hw_name and c.args:
                    out.append(_word_shape(fi, c.args[0], types))
                elif isinstance(c.func, ast.Name) and c.args and isinstance(c.args[0], ast.Name) and c.args[0].id == hw_name:
                    tgt = ctx.prog.resolve_name(fi.module, c.func.id)
                    if tgt is not None and hasattr(tgt, "node") and depth < 3:
                        sub_hw = tgt.params()[0]
                        out.extend(_grammar(ctx, tgt, sub_hw, depth + 1))
                    else:
                        out.append(("?", ast.unparse(c)))
            elif isinstance(s, ast.For):
                t2 = dict(types)
                # element types from the iterated mapping's annotation
                it_src = ast.unparse(s.iter)
                m = re.search(r"sorted\((\w+)(\.items\(\))?\)", it_src)
                if m:
                    a = fi.param_annotations().get(m.group(1), "").replace(" ", "")
                    mm = re.match(r"Mapping\[str,(.*)\]$", a)
                    names = [n.id for n in ast.walk(s.target) if isinstance(n, ast.Name)]
                    if names:
                        t2[names[0]] = "str"
                    if mm and len(names) > 1:
                        v = mm.group(1)
                        t2[names[1]] = "str|None" if v in ("str|None", "None|str") else "str" if v == "str" else "obj"
                body = walk(s.body, t2)
                if body:
                    out.append(("LOOP", body))
            elif isinstance(s, ast.If):
                a, b = walk(s.body, types), walk(s.orelse, types)
                if a or b:
                    out.append(("ALT", [("SEQ", a), ("SEQ", b)]))
            elif isinstance(s, ast.Assign):
                # x = file_hashes[path] etc.: no words
                pass
        return out

    items = walk(fi.node.body, env_types)
    return items


# Glushkov position automaton over token predicates ---------------------------------------------


class _Pos:
    def __init__(self):
        self.syms = []  # position -> symbol

    def new(self, sym):
        self.syms.append(sym)
        return len(self.syms) - 1


def _glushkov(items, P):
    """Return (nullable, first, last, follow) for a sequence of items."""
    follow = {}

    def seq(xs):
        null, first, last = True, set(), set()
        for x in xs:
            n2, f2, l2 = one(x)
            for a in last:
                follow.setdefault(a, set()).update(f2)
            if null:
                first |= f2
            last = (last | l2) if n2 else set(l2)
            null = null and n2
        return null, first, last

    def one(x):
        if x[0] == "LOOP":
            n, f, l = seq(x[1])
            for a in l:
                follow.setdefault(a, set()).update(f)
            return True, f, l
        if x[0] == "ALT":
            null, first, last = False, set(), set()
            for alt in x[1]:
                n, f, l = one(alt)
                null = null or n
                first |= f
                last |= l
            return null, first, last
        if x[0] == "SEQ":
            return seq(x[1])
        p = P.new(x)
        return False, {p}, {p}

    null, first, last = seq(items)
    return null, first, last, follow


def _compatible(a, b):
    """Can one concrete word be read as symbol a and as symbol b?"""
    ta, tb = a[0], b[0]
    strs = {"S", "K"}
    if ta in strs and tb in strs:
        if ta == "K" and tb == "K":
            return a[1] == b[1]
        return True
    if ta == "N" and tb == "N":
        return True
    if ta == "B" and tb == "B":
        return a[1] == b[1]
    if ta == "D" and tb == "D":
        return True
    return False


def decodable(items):
    """None if the grammar is uniquely decodable, else a description of two derivations."""
    for it in _flatten(items):
        if it[0] == "BV":
            return "a bytes word of variable width cannot be delimited (its content may contain marker bytes)"
        if it[0] == "?":
            return f"a word of unknown shape: {it[1]}"
    P = _Pos()
    null, first, last, follow = _glushkov(items, P)
    START = -1
    fol = dict(follow)
    fol[START] = set(first)
    accepting = set(last) | ({START} if null else set())
    # product search for two different runs over one word sequence
    from collections import deque

    seen = {(START, START): None}
    dq = deque([(START, START)])
    while dq:
        p, q = dq.popleft()
        for p2 in sorted(fol.get(p, ())):
            for q2 in sorted(fol.get(q, ())):
                if not _compatible(P.syms[p2], P.syms[q2]):
                    continue
                if (p2, q2) in seen:
                    continue
                seen[(p2, q2)] = (p, q)
                dq.append((p2, q2))
    # Every way two runs can split: a reachable pair (p, q), p != q, whose predecessor pair was on the
    # diagonal, and from which an accepting pair is still reachable.
    co = {pq for pq in seen if pq[0] in accepting and pq[1] in accepting}
    changed = True
    while changed:
        changed = False
        for pq, prev in seen.items():
            if pq in co and prev is not None and prev not in co:
                co.add(prev)
                changed = True
        # general backward closure over product edges
        for (p, q) in list(seen):
            if (p, q) in co:
                continue
            for p2 in fol.get(p, ()):
                for q2 in fol.get(q, ()):
                    if (p2, q2) in co and _compatible(P.syms[p2], P.syms[q2]):
                        co.add((p, q))
                        changed = True
                        break
                else:
                    continue
                break
    kinds = {}
    for (p, q) in seen:
        if p == q or (p, q) not in co:
            continue
        for a in ([START] + list(range(len(P.syms)))):
            if (a, a) in seen and p in fol.get(a, ()) and q in fol.get(a, ()):
                sa, sb = sorted((_fmt(P.syms[p]), _fmt(P.syms[q])))
                kinds[(sa, sb)] = True
    if not kinds:
        return None
    return sorted(f"one word can be read as {a} or as {b}" for a, b in kinds)


def _fmt(sym):
    return {"K": lambda s: f"the keyword '{s[1]}'", "S": lambda s: "a variable string", "N": lambda s: "None", "B": lambda s: f"{s[1]} fixed bytes", "D": lambda s: "a digest"}[sym[0]](sym)


def _flatten(items):
    for x in items:
        if x[0] in ("LOOP", "SEQ"):
            yield from _flatten(x[1])
        elif x[0] == "ALT":
            for a in x[1]:
                yield from _flatten([a])
        else:
            yield x


# ----------------------------------------------------------------------------- rules


def _hash_helper_names(ctx, fi):
    """Module-level repo functions that ``fi`` calls with its HashWords object as first argument."""
    out = {}
    for c in calls_in(fi.node):
        if isinstance(c.func, ast.Name) and c.args and isinstance(c.args[0], ast.Name) and c.args[0].id == "hw":
            tgt = ctx.prog.resolve_name(fi.module, c.func.id)
            if tgt is not None and hasattr(tgt, "node"):
                out[c.func.id] = tgt
    return out


def _helper_feeds_params(tgt):
    """Parameters of a hashing helper that reach an update() argument (directly or as the iterated mapping of a
    loop whose targets are all hashed)."""
    hwp = tgt.params()[0]
    fed = set()
    for n in ast.walk(tgt.node):
        if isinstance(n, ast.Call) and isinstance(n.func, ast.Attribute) and n.func.attr == "update" and ast.unparse(n.func.value) == hwp:
            fed |= {x.id for a in n.args for x in ast.walk(a) if isinstance(x, ast.Name)}
    for n in ast.walk(tgt.node):
        if isinstance(n, ast.For):
            tg = {x.id for x in ast.walk(n.target) if isinstance(x, ast.Name)}
            if tg and tg <= fed | {"_"}:
                fed |= {x.id for x in ast.walk(n.iter) if isinstance(x, ast.Name)}
    return fed & set(tgt.params())


def _hash_feeders(ctx):
    """from_inp, with_out_hashes and every helper they hand the HashWords object to."""
    out = []
    for fq in ("hash.StepHash.from_inp", "hash.StepHash.with_out_hashes"):
        fi = ctx.prog.func(fq)
        out.append(fi)
        for tgt in _hash_helper_names(ctx, fi).values():
            if tgt not in out:
                out.append(tgt)
    return out


def rule_ingredients(ctx):
    """R-C13-1."""
    fi = ctx.prog.func("hash.StepHash.from_inp")
    params = [p for p in fi.params() if p not in ("cls", "explained")]
    # names reaching hw.update or a hashing helper
    used = set()
    aliases = {}
    for n in ast.walk(fi.node):
        if isinstance(n, ast.Assign) and len(n.targets) == 1 and isinstance(n.targets[0], ast.Name):
            aliases.setdefault(n.targets[0].id, set()).update(x.id for x in ast.walk(n.value) if isinstance(x, ast.Name))
    for n in ast.walk(fi.node):
        if isinstance(n, ast.For):
            feeds = any(isinstance(c, ast.Call) and isinstance(c.func, ast.Attribute) and c.func.attr == "update" and ast.unparse(c.func.value) == "hw" for c in ast.walk(n))
            if feeds:
                its = {x.id for x in ast.walk(n.iter) if isinstance(x, ast.Name)}
                tg = {x.id for x in ast.walk(n.target) if isinstance(x, ast.Name)}
                upd = {x.id for c in ast.walk(n) if isinstance(c, ast.Call) and isinstance(c.func, ast.Attribute) and c.func.attr == "update" for a in c.args for x in ast.walk(a) if isinstance(x, ast.Name)}
                if tg <= upd | {"_"}:
                    used |= its
        if isinstance(n, ast.Call):
            if isinstance(n.func, ast.Attribute) and n.func.attr == "update" and ast.unparse(n.func.value) == "hw":
                used |= {x.id for a in n.args for x in ast.walk(a) if isinstance(x, ast.Name)}
            elif isinstance(n.func, ast.Name) and n.args and ast.unparse(n.args[0]) == "hw" and n.func.id in _hash_helper_names(ctx, fi):
                # a helper that receives the HashWords object: its other arguments count as hashed when the
                # helper feeds every one of its own parameters into update() (checked in _helper_feeds_params)
                tgt = ctx.prog.resolve_name(fi.module, n.func.id)
                fed = _helper_feeds_params(tgt)
                for a, pname in zip(n.args[1:], tgt.params()[1:]):
                    if pname in fed:
                        used |= {x.id for x in ast.walk(a) if isinstance(x, ast.Name)}
    for p in params:
        reached = p in used or bool(aliases.get(p, set()) & {p}) and p in used
        ctx.check(reached, fi.fq, f"ingredient {p} reaches the digest", f"parameter {p} does not flow into HashWords.update: two configurations differing only in {p} share a digest", "hashed", where=ctx.where_of(fi))
    uf = ctx.prog.func("hash._update_file_hashes")
    fh = ctx.prog.cls("hash.FileHash")
    eq_fields = []
    for st in fh.node.body:
        if isinstance(st, ast.AnnAssign) and isinstance(st.target, ast.Name):
            eqk = kwarg(st.value, "eq") if isinstance(st.value, ast.Call) else None
            if eqk is None or ast.unparse(eqk) != "False":
                eq_fields.append(st.target.id)
    if set(eq_fields) != {"digest", "mode", "size"}:
        ctx.notes.append(f"equality-relevant FileHash fields: {eq_fields}")
    hashed = {n.attr for c in ast.walk(uf.node) if isinstance(c, ast.Call) and isinstance(c.func, ast.Attribute) and c.func.attr == "update" for a in c.args for n in ast.walk(a) if isinstance(n, ast.Attribute) and isinstance(n.value, ast.Name) and n.value.id == "file_hash"}
    path_hashed = any(isinstance(c, ast.Call) and isinstance(c.func, ast.Attribute) and c.func.attr == "update" and c.args and ast.unparse(c.args[0]) == "path" for c in ast.walk(uf.node))
    for f in eq_fields:
        ctx.check(f in hashed, uf.fq, f"FileHash.{f} is hashed", f"file property {f} takes part in FileHash equality but not in the step digest", "hashed")
    ctx.check(path_hashed, uf.fq, "the path is hashed with its file hash", "paths are not part of the digest: renaming an input is not detected", "hashed")
    wo = ctx.prog.func("hash.StepHash.with_out_hashes")
    ctx.check("_update_file_hashes(hw, out_hashes)" in ast.unparse(wo.node), wo.fq, "output digest is built by the same helper", "output digest uses another encoder", "shared helper")
    shared.check_from_inp_call_sites(ctx, "an ingredient is dropped or read from another source at one call site: configurations that differ in it share a digest")


def rule_sorted_loops(ctx):
    """R-C13-2."""
    n = 0
    ctx.prog.func("hash._update_file_hashes")
    for fi in _hash_feeders(ctx):
        fq = fi.fq
        for loop in [x for x in ast.walk(fi.node) if isinstance(x, ast.For)]:
            feeds = any(isinstance(c, ast.Call) and isinstance(c.func, ast.Attribute) and c.func.attr == "update" for c in ast.walk(loop))
            if not feeds:
                continue
            n += 1
            ok = isinstance(loop.iter, ast.Call) and isinstance(loop.iter.func, ast.Name) and loop.iter.func.id == "sorted"
            ctx.check(ok, fq, f"for ... in {ast.unparse(loop.iter)}", "a loop that feeds the digest does not iterate sorted(...): the digest depends on the order in which ingredients were supplied", "sorted", where=ctx.where_of(fi, loop))
    if n < 2:
        raise AnalysisError("hash loops not found")


def rule_decodable(ctx):
    """R-C13-3."""
    # positive controls of the decision procedure
    ok_g = [("S",), ("K", "a"), ("LOOP", [("S",), ("B", 8)]), ("K", "b"), ("LOOP", [("S",), ("N",)])]
    bad_g = [("LOOP", [("S",), ("S",)]), ("K", "x"), ("LOOP", [("S",), ("S",)])]
    ctx.control(decodable(ok_g) is None, "a decodable fixture grammar is accepted", "decision procedure rejects a decodable grammar")
    ctx.control(decodable(bad_g) is not None, "keyword between two string-only loops is ambiguous", "decision procedure accepts an ambiguous grammar")
    hw = ctx.prog.func("hash.HashWords.update")
    marks = {}
    for n in ast.walk(hw.node):
        if isinstance(n, ast.If):
            t = ast.unparse(n.test)
            first = [c for s in n.body for c in ast.walk(s) if isinstance(c, ast.Call) and ast.unparse(c.func) == "self._hash.update" and c.args and isinstance(c.args[0], ast.Constant)]
            if first:
                marks[t] = first[0].args[0].value
    vals = list(marks.values())
    ctx.check(len(vals) == 3 and len(set(vals)) == 3 and all(isinstance(v, bytes) and len(v) == 2 and v[0] == 0 for v in vals), hw.fq, "three distinct NUL-prefixed type markers (bytes, str, None)", f"markers {marks}", f"{marks}")
    ctx.check(any("raise TypeError" in ast.unparse(s) for s in ast.walk(hw.node) if isinstance(s, ast.Raise)), hw.fq, "other word types are rejected", "unknown word types are silently accepted", "TypeError")
    for fq in ("hash.StepHash.from_inp", "hash.StepHash.with_out_hashes"):
        fi = ctx.prog.func(fq)
        g = _grammar(ctx, fi)
        if not g:
            raise AnalysisError(f"no hashed words found in {fq}")
        why = decodable(g)
        if why is None:
            ctx.ok(fq, "word encoding is uniquely decodable", "unique left-to-right decoding", where=ctx.where_of(fi), grammar=_show(g))
        elif isinstance(why, str):
            ctx.bad(fq, "word encoding is uniquely decodable", f"{why}: two different ingredient sets can have the same digest", where=ctx.where_of(fi), grammar=_show(g))
        else:
            for w in why:
                ctx.bad(fq, f"word encoding is uniquely decodable [{w}]", "two derivations accept the same word sequence, so two different ingredient sets have the same digest", where=ctx.where_of(fi), grammar=_show(g))


def _show(items):
    out = []
    for x in items:
        if x[0] == "LOOP":
            out.append("(" + " ".join(_show(x[1])) + ")*")
        elif x[0] == "ALT":
            out.append("[" + "|".join(" ".join(_show([a])) for a in x[1]) + "]")
        elif x[0] == "SEQ":
            out.append(" ".join(_show(x[1])))
        elif x[0] == "K":
            out.append(f"'{x[1]}'")
        elif x[0] == "B":
            out.append(f"b{x[1]}")
        else:
            out.append(x[0].lower())
    return out


def rule_stat_shortcut(ctx):
    """R-C13-4 (= R-C04-5)."""
    fi = ctx.prog.func("hash.FileHash.refreshed")
    found = False
    for n in ast.walk(fi.node):
        if isinstance(n, ast.If) and len(n.body) == 1 and isinstance(n.body[0], ast.Return) and ast.unparse(n.body[0].value) == "self" and isinstance(n.test, ast.BoolOp) and isinstance(n.test.op, ast.And):
            found = True
            pairs = set()
            for v in n.test.values:
                if isinstance(v, ast.Compare) and len(v.ops) == 1 and isinstance(v.ops[0], ast.Eq):
                    a, b = ast.unparse(v.left), ast.unparse(v.comparators[0])
                    pairs.add(tuple(sorted((a, b))))
            need = {("self.mode", "st.st_mode"), ("self.mtime", "st.st_mtime"), ("self.size", "st.st_size"), ("self.inode", "st.st_ino")}
            ctx.check(need <= pairs, fi.fq, "digest is reused only when mode, mtime, size and inode all equal the stat result", f"shortcut compares {sorted(pairs)}; missing {sorted(need - pairs)}: a changed file is reported unchanged", "four equalities", where=ctx.where_of(fi, n))
    if not found:
        raise AnalysisError("stat shortcut `return self` under a conjunction not found in FileHash.refreshed")
    src = re.sub(r"\s+", " ", ast.unparse(fi.node))
    ctx.check("st = os.stat(path)" in src, fi.fq, "compares with a fresh os.stat", "stat source changed", "os.stat")
    ctx.check("return self if self.is_unknown else self.unknown()" in src, fi.fq, "a vanished file yields the unknown hash", "missing file handling changed", "unknown")
    ctx.check("self.__class__(digest, st.st_mode, st.st_mtime, st.st_size, st.st_ino)" in src, fi.fq, "new hash records the stat tuple it was computed for", "stat tuple of the new hash changed", "recorded")


def rule_json_pairing(ctx):
    """R-C13-5."""
    tj = ctx.prog.func("hash.FileHash.to_json")
    fj = ctx.prog.func("hash.FileHash.from_json")
    a = re.sub(r"\s+", " ", ast.unparse(tj.node))
    b = re.sub(r"\s+", " ", ast.unparse(fj.node))
    ctx.check("if self.is_unknown: return None" in a and "json_converter.unstructure(self)" in a, tj.fq, "unknown -> None, else converter", "to_json changed", "ok")
    ctx.check("if value is None: return cls.unknown()" in b and "json_converter.structure(json.loads(value), cls)" in b, fj.fq, "None -> unknown, else converter", "from_json changed", "ok")
    iu = ctx.prog.cls("hash.FileHash").methods["is_unknown"]
    un = ctx.prog.cls("hash.FileHash").methods["unknown"]
    ctx.check("self.digest == b'u'" in ast.unparse(iu.node) and "cls(b'u', 0, 0.0, 0, 0)" in ast.unparse(un.node), iu.fq, "unknown hash is the b'u' placeholder on both sides", "placeholder mismatch", "b'u'")
    sj = ctx.prog.func("hash.StepHash.from_json")
    ctx.check("if value is None: return None" in re.sub(r"\s+", " ", ast.unparse(sj.node)), sj.fq, "no stored hash -> None", "StepHash.from_json changed", "ok")


def rule_whole_content(ctx):
    """R-C13-6: the content digest covers the whole file: the unbuffered read loop ends only on a zero-length read
    (a short read is not end-of-file on pipes, FUSE or network file systems) and every chunk read is hashed."""
    fi = ctx.prog.func("hash.compute_file_digest")
    loops = [w for w in ast.walk(fi.node) if isinstance(w, ast.While)]
    if not loops:
        raise AnalysisError("compute_file_digest: read loop not found")
    for w in loops:
        reads = [a for a in ast.walk(w) if isinstance(a, ast.Assign) and isinstance(a.value, ast.Call) and callee_name(a.value) in ("readinto", "read") and len(a.targets) == 1 and isinstance(a.targets[0], ast.Name)]
        if not reads:
            continue
        var = reads[0].targets[0].id
        is_readinto = callee_name(reads[0].value) == "readinto"
        exits = []
        for n in ast.walk(w):
            if isinstance(n, ast.If) and any(isinstance(x, ast.Break) for x in n.body):
                exits.append(ast.unparse(n.test))
        eof_forms = {f"{var} == 0", f"not {var}", f"0 == {var}", f"len({var}) == 0"}
        ctx.check(bool(exits) and all(e in eof_forms for e in exits) and isinstance(w.test, ast.Constant) and w.test.value is True, fi.fq, "the read loop ends only on a zero-length read",
                  f"loop exits on {exits}: a short read (pipe, FUSE, network file system) is taken for end-of-file and only a prefix of the content is hashed, so different contents share a digest", "EOF = zero-length read", where=ctx.where_of(fi, w))
        upd = [c for c in calls_in(w) if callee_name(c) == "update"]
        ok = bool(upd) and all((f"[:{var}]" in ast.unparse(c.args[0])) if is_readinto else (ast.unparse(c.args[0]) == var) for c in upd if c.args)
        ctx.check(ok, fi.fq, "every chunk read is fed to the digest", f"update arguments: {[ast.unparse(c.args[0]) for c in upd if c.args]}", "view[:nread]", where=ctx.where_of(fi, w))
    op = [c for c in calls_in(fi.node) if isinstance(c.func, ast.Name) and c.func.id == "open"]
    ctx.check(bool(op) and all(len(c.args) >= 2 and isinstance(c.args[1], ast.Constant) and "b" in str(c.args[1].value) for c in op), fi.fq, "the file is read in binary mode", "text mode: newline translation and decoding change what is hashed", "rb")


RULES = [
    Rule("R-C13-1", "every ingredient reaches the digest", rule_ingredients, min_instances=12),
    Rule("R-C13-2", "loops feeding the digest iterate sorted(...)", rule_sorted_loops, min_instances=2),
    Rule("R-C13-3", "the word encoding is uniquely decodable", rule_decodable, min_instances=4),
    Rule("R-C13-4", "stat shortcut compares the full stat signature", rule_stat_shortcut, min_instances=4),
    Rule("R-C13-6", "the content digest covers the whole file", rule_whole_content, min_instances=3),
    Rule("R-C13-5", "None <-> unknown pairing in to_json/from_json", rule_json_pairing, min_instances=4),
]

MUTANTS = [
    Mutant("short-read-is-eof", "hash.py", in_function("compute_file_digest", replace_once("            if nread == 0:\n                break\n            digest.update(view[:nread])\n", "            digest.update(view[:nread])\n            if nread < HASH_CHUNK_SIZE:\n                break\n")), ("R-C13-6",)),
    Mutant("hash-whole-buffer", "hash.py", in_function("compute_file_digest", replace_once("digest.update(view[:nread])", "digest.update(view)")), ("R-C13-6",)),
    Mutant("env-lookup-with-default", "executor.py", in_function("Executor._compute_inp_step_hash", replace_once("{name: self.base_env.get(name) for name in env_deps}", "{name: self.base_env.get(name, \"\") for name in env_deps}")), ("R-C13-1",)),
    Mutant("drop-shell", "hash.py", in_function("StepHash.from_inp", replace_once("        hw.update(bytes([int(shell)]))\n", "        hw.update(bytes([0]))\n")), ("R-C13-1",)),
    Mutant("drop-size", "hash.py", in_function("_update_file_hashes", replace_once("        hw.update(file_hash.size.to_bytes(8))\n", "")), ("R-C13-1",)),
    Mutant("drop-overrides-at-call", "executor.py", in_function("Executor._compute_inp_step_hash", replace_once("            env_overrides=env_overrides,\n", "")), ("R-C13-1",)),
    Mutant("unsorted-env", "hash.py", in_function("StepHash.from_inp", replace_once("for env_var, value in sorted(env_values.items()):", "for env_var, value in env_values.items():")), ("R-C13-2",)),
    Mutant("unsorted-files", "hash.py", in_function("_update_file_hashes", replace_once("for path in sorted(file_hashes):", "for path in file_hashes:")), ("R-C13-2",)),
    Mutant("variable-width-size", "hash.py", in_function("_update_file_hashes", replace_once("file_hash.size.to_bytes(8)", "file_hash.size.to_bytes((file_hash.size.bit_length() + 7) // 8)")), ("R-C13-3",)),
    Mutant("no-keyword-between-env-and-overrides", "hash.py", in_function("StepHash.from_inp", replace_once('        hw.update("__env_overrides__")\n', "")), ("R-C13-3",)),
    Mutant("same-marker", "hash.py", in_function("HashWords.update", replace_once('self._hash.update(b"\\0\\1")', 'self._hash.update(b"\\0\\0")')), ("R-C13-3",)),
    Mutant("shortcut-without-mtime", "hash.py", in_function("FileHash.refreshed", replace_once("            and self.mtime == st.st_mtime\n", "")), ("R-C13-4",)),
    Mutant("shortcut-without-inode", "hash.py", in_function("FileHash.refreshed", replace_once("            and self.inode == st.st_ino\n", "")), ("R-C13-4",)),
    Mutant("json-unknown-serialised", "hash.py", in_function("FileHash.to_json", replace_once("        if self.is_unknown:\n            return None\n", "")), ("R-C13-5",)),
]

VARIANTS = [
    Variant("env-values-through-helper", "executor.py", lambda t: t.replace("    async def _compute_inp_step_hash(", "    def _tracked_env_values(self, env_deps):\n        base_env = self.base_env\n        return {name: base_env.get(name) for name in env_deps}\n\n    async def _compute_inp_step_hash(", 1).replace("{name: self.base_env.get(name) for name in env_deps}", "self._tracked_env_values(env_deps)") if "{name: self.base_env.get(name) for name in env_deps}" in t else None),
    Variant("reorder-shortcut", "hash.py", in_function("FileHash.refreshed", lambda s: s.replace("            self.mode == st.st_mode\n            and self.mtime == st.st_mtime\n", "            self.mtime == st.st_mtime\n            and self.mode == st.st_mode\n") if "self.mode == st.st_mode\n            and self.mtime" in s else None)),
    Variant("rename-keyword", "hash.py", in_function("StepHash.from_inp", lambda s: s.replace('"__inp_paths__"', '"__inputs__"'))),
]
