"""C07 — a successful build leaves no orphaned outputs behind (structural clauses, weak)."""
from __future__ import annotations

import ast
import itertools
import re

from ..engine import finite, flow
from ..engine.mutate import Mutant, Variant, in_function, replace_once
from ..engine.runner import Rule
from ..engine.source import AnalysisError
from . import C11
from . import C12
from . import shared
from .common import callee_name, calls_in

EXPLANATION = (
    "Static analysis of the cleanup sequence: on the clean path of Builder.finalize the three cleanup calls occur in "
    "the required order on every path; Trellis.delete_detached releases edges and queues files before each node "
    "delete and repeats while something was deleted; Workflow.delete_detached prunes unused static-tree files first; "
    "File/Step.before_delete and revert_optional_steps queue the directories; the optional-revert filter is a truth "
    "table. Decides the shape of the deletion loop and its ordering, NOT completeness of the deletion fixed point "
    "for arbitrary detached subgraphs (creator/dependency cycles are documented survivors). "
    'Also: the directory pruning worklist examines every popped entry (no skip), and File.initialize_row keeps a former output known as an output until cleanup has decided about it.'
    ' R-C07-7 every optional_step row is reset like a rerun, after the output reset and before the scratch table is dropped; R-C07-8 queued paths are really removed; R-C07-9 outputs of every completed run are recorded.'
    ' R-C07-11 the declared-again mechanism (R-C12-10): what a replaced command wrote, amended outputs included, is looked up including detached nodes, hashed and recorded before the restart.'
)
ASSUMPTIONS = ["completeness for every detached subgraph shape is a run-time property and is not claimed"]


def rule_sequence(ctx):
    """R-C07-1."""
    RC = ctx.prog.enum("ReturnCode")
    fi = ctx.prog.func("builder.Builder.finalize")
    ov = {"self.returncode": RC(0), "len(self.workflow.targets)": 0, "len(self.workflow.target_dirs)": 0, "self.do_remove_outdated": True}
    fp = finite.feasible_paths(ctx.prog, fi, {}, ov)
    if not fp:
        raise AnalysisError("no clean path through Builder.finalize")
    for tr, st in fp:
        seq = [e[1].split(".")[-1] for e in tr if e[0] == "call" and e[1].split(".")[-1] in ("revert_optional_steps", "delete_detached", "remove_deletable_files", "build_completed")]
        ctx.check(seq == ["revert_optional_steps", "delete_detached", "remove_deletable_files", "build_completed"], fi.fq, "revert -> delete_detached -> remove files -> build_completed",
                  f"cleanup sequence on the clean path is {seq}", "order kept", where=ctx.where_of(fi))
        i = [k for k, e in enumerate(tr) if e[0] == "call" and e[1].endswith("delete_detached")]
        reg = flow.region_of(tr, i[0], lambda s: s.split(".")[-1] == "db") if i else None
        ctx.check(reg is not None, fi.fq, "delete_detached runs inside a transaction", "delete_detached outside `async with db`", "in region")
    wm = ctx.prog.func("builder.Builder.finalize")
    ctx.check("self.workflow.delete_detached()" in ast.unparse(wm.node), wm.fq, "calls Workflow.delete_detached (which prunes static-tree files first)", "finalize bypasses Workflow.delete_detached", "ok")


def rule_delete_loop(ctx):
    """R-C07-2."""
    fi = ctx.prog.func("trellis.Trellis.delete_detached")
    loops = [n for n in ast.walk(fi.node) if isinstance(n, ast.While)]
    ok_loop = len(loops) == 1 and ast.unparse(loops[0].test) == "cleaned_some"
    ctx.check(ok_loop, fi.fq, "repeats while something was deleted", "the deletion pass is no longer iterated to a fixed point", "while cleaned_some")
    if ok_loop:
        body = loops[0]
        resets = [s for s in body.body if isinstance(s, ast.Assign) and ast.unparse(s) == "cleaned_some = False"]
        fors = [n for n in ast.walk(body) if isinstance(n, ast.For)]
        sets = [s for f in fors for s in f.body if isinstance(s, ast.Assign) and ast.unparse(s) == "cleaned_some = True"]
        ctx.check(bool(resets) and bool(sets), fi.fq, "flag reset per pass and set on every deletion", "fixed-point flag handling changed", "reset/set")
        for f in fors:
            seq = []
            for s in f.body:
                for c in calls_in(s):
                    nm = callee_name(c)
                    if nm in ("del_all_sources", "before_delete"):
                        seq.append(nm)
                    elif nm == "execute" and c.args and "DELETE FROM node" in ast.unparse(c.args[0]):
                        seq.append("DELETE")
            ctx.check(seq == ["del_all_sources", "before_delete", "DELETE"], fi.fq, "release edges, queue the file, then delete the node", f"order inside the deletion loop is {seq}: before_delete must see the row, and sources must be released so that suppliers become leaves", "order kept")
    src = ast.unparse(fi.node)
    ctx.check("after_lost_product()" in src and "creator_is.add(creator_i)" in src, fi.fq, "surviving creators of deleted nodes are invalidated after the loop", "creators that lost a product are not invalidated", "after_lost_product")


def rule_tree_files_first(ctx):
    """R-C07-3."""
    fi = ctx.prog.func("workflow.Workflow.delete_detached")
    for tr, st in flow.paths_of(fi):
        if st == "raise":
            continue
        idx = [k for k, e in enumerate(tr) if e[0] == "call" and e[1] == "super().delete_detached"]
        ctx.check(len(idx) == 1, fi.fq, "delegates to Trellis.delete_detached on every path", "a path skips the base deletion", "one call")
        loops = [k for k, e in enumerate(tr) if e[0] == "loop" and "StaticTree" in e[1]]
        ctx.check(bool(loops) and bool(idx) and loops[0] < idx[0], fi.fq, "static-tree pruning precedes the base deletion", "unused static-tree files are detached after the deletion pass: they survive the build", "before")


def rule_directories(ctx):
    """R-C07-4."""
    sb = ctx.prog.func("step.Step.before_delete")
    ctx.check("self.graph.mark_dir_to_be_deleted(self.command_and_workdir[1])" in ast.unparse(sb.node), sb.fq, "queues the working directory", "step working directory no longer queued for removal", "workdir queued")
    rv = ctx.prog.func("finalize.revert_optional_steps")
    src = re.sub(r"\s+", " ", ast.unparse(rv.node))
    ctx.check("for path in to_be_deleted: workflow.mark_dir_to_be_deleted(Path(path).parent)" in src, rv.fq, "queues parent directories of reverted outputs", "parent directories of reverted outputs are not queued", "parents queued")
    fb = ctx.prog.func("file.File.before_delete")
    ctx.check("self.graph.mark_dir_to_be_deleted(self.path.parent)" in ast.unparse(fb.node), fb.fq, "queues the parent directory for every state", "parent directory not queued", "(per-state check in R-C06-2)")
    rm = ctx.prog.func("finalize.remove_deletable_files")
    seq = [callee_name(c) for c in calls_in(rm.node) if callee_name(c) in ("_try_remove", "_prune_empty_dirs", "clear")]
    ctx.check(seq == ["_try_remove", "_prune_empty_dirs", "clear"], rm.fq, "files first, then directories, then the queue is cleared", f"order is {seq}", "order kept")
    pr = ctx.prog.func("finalize._prune_empty_dirs")
    ctx.check("todo.append(parent)" in ast.unparse(pr.node), pr.fq, "walks up to parents that became empty", "parents of removed directories are no longer considered", "walks up")
    # a directory can become empty only after it was looked at (a deeper branch is pruned later), so every popped
    # directory is examined again: nothing in the worklist loop skips an entry
    loops = [w for w in ast.walk(pr.node) if isinstance(w, ast.While)]
    if not loops:
        raise AnalysisError("_prune_empty_dirs: worklist loop not found")
    skips = [n for w in loops for n in ast.walk(w) if isinstance(n, (ast.Continue, ast.Break, ast.Return))]
    ctx.check(not skips, pr.fq, "every popped directory is examined (no skip in the worklist loop)",
              f"the worklist loop skips entries ({', '.join(type(n).__name__.lower() for n in skips)} at line {skips[0].lineno if skips else 0}): a common ancestor that was seen while non-empty is not looked at again after its last child is removed and stays behind", "no continue/break", where=ctx.where_of(pr, skips[0]) if skips else ctx.where_of(pr))


def rule_optional_filter(ctx):
    """R-C07-5."""
    Need, FS, SS = ctx.prog.enum("Need"), ctx.prog.enum("FileState"), ctx.prog.enum("StepState")
    q = re.sub(r"\s+", " ", ctx.prog.fold("finalize", "CREATE_OPTIONAL_STEP_TABLE"))
    m = re.search(r"WHERE (.*)$", q)
    tt = ctx.cat.truth_table(m.group(1), {"_implied_need": [n.value for n in Need], "node.detached": [0, 1]})
    ok = all(bool(v) == (n == Need.OPTIONAL.value and not d) for (n, d), v in tt.items())
    ctx.check(ok, "finalize.CREATE_OPTIONAL_STEP_TABLE", "selects attached steps whose implied need is OPTIONAL", f"filter changed: {tt}", "_implied_need = OPTIONAL ∧ ¬detached")
    u = re.sub(r"\s+", " ", ctx.prog.fold("finalize", "UPDATE_OPTIONAL_TO_BE_DELETED"))
    ok = f"SET state = {FS.PLANNED.value} , hash = NULL" in u.replace(",", " ,").replace("  ", " ") or f"SET state = {FS.PLANNED.value}, hash = NULL" in u
    ctx.check(ok, "finalize.UPDATE_OPTIONAL_TO_BE_DELETED", "reverted outputs become PLANNED without hash", "reverted outputs keep state or hash", "PLANNED, NULL")
    us = re.sub(r"\s+", " ", ctx.prog.fold("finalize", "UPDATE_OPTIONAL_STEPS"))
    ctx.check(f"SET state = {SS.PENDING.value}" in us, "finalize.UPDATE_OPTIONAL_STEPS", "reverted steps become PENDING", "reverted steps get another state", "PENDING")


def rule_revert_forgets_run(ctx):
    """R-C07-7: a reverted optional step also forgets what it amended or created while it ran.

    Trellis.delete_detached keeps a detached file for as long as an attached step has it as input.
    A reverted step never reruns while it is not needed, so edges recorded by the reverted run would
    keep orphaned outputs (and their producers) on disk and in the graph after every later build.
    """
    rv = ctx.prog.func("finalize.revert_optional_steps")
    # accepted form A: reset_for_rerun() for every row of optional_step, unconditionally, inside the transaction
    loops = []
    for n in ast.walk(rv.node):
        if isinstance(n, (ast.For, ast.AsyncFor)) and any(callee_name(c) == "reset_for_rerun" for c in calls_in(n)):
            loops.append(n)
    ctx.check(len(loops) == 1, rv.fq, "every reverted step is reset as before a rerun", f"{len(loops)} loop(s) call reset_for_rerun: the amended inputs of a reverted step stay in the graph and keep the detached producers of those files, and the files, alive for ever", "one loop over the reverted steps", where=ctx.where_of(rv))
    if len(loops) != 1:
        return
    loop = loops[0]
    # the iterable comes from a query on the same scratch table as the state update, without narrowing
    it = loop.iter
    src_q = None
    if isinstance(it, ast.Name):
        for n in ast.walk(rv.node):
            if isinstance(n, ast.Assign) and any(isinstance(t, ast.Name) and t.id == it.id for t in n.targets) and n.lineno < loop.lineno:
                src_q = n.value
    else:
        src_q = it
    texts = [c.args[0] for c in calls_in(src_q) if callee_name(c) == "execute" and c.args] if src_q is not None else []
    qtext = None
    if texts:
        t = texts[0]
        qtext = t.value if isinstance(t, ast.Constant) and isinstance(t.value, str) else (ctx.prog.fold("finalize", t.id) if isinstance(t, ast.Name) else None)
    flat = re.sub(r"\s+", " ", qtext or "").strip()
    ctx.check(bool(flat) and re.search(r"\bFROM optional_step\b", flat) is not None and " WHERE " not in f" {flat.upper()} ", rv.fq, "the loop runs over every row of optional_step", f"rows come from: {flat or ast.unparse(it)}", "all rows of the scratch table", where=ctx.where_of(rv, loop))
    # unconditional, inside the db region, before the scratch table is dropped, after the outputs were reset
    n_paths = 0
    for tr, status in flow.paths_of(rv):
        if status not in ("return", "fall"):
            continue
        n_paths += 1
        k = [j for j, e in enumerate(tr) if e[0] == "loop" and e[3] is loop]
        entered = bool(k)
        reg = flow.region_of(tr, k[0], lambda s_: s_.split(".")[-1] == "db") if entered else None
        drops = [j for j, e in enumerate(tr) if e[0] == "call" and e[1].split(".")[-1] == "_drop_optional_tables"]
        before_drop = entered and drops and k[0] < drops[-1]
        created = [j for j, e in enumerate(tr) if e[0] == "call" and e[1].endswith("execute") and e[2].args and ast.unparse(e[2].args[0]) == "CREATE_OPTIONAL_STEP_TABLE"]
        after_create = entered and created and created[0] < k[0]
        upd = [j for j, e in enumerate(tr) if e[0] == "call" and e[1].endswith("execute") and e[2].args and ast.unparse(e[2].args[0]) == "UPDATE_OPTIONAL_TO_BE_DELETED"]
        after_upd = entered and all(j < k[0] for j in upd)
        if not (entered and reg is not None and before_drop and after_create and after_upd):
            ctx.bad(rv.fq, "the reset runs on every path, in the transaction, between creating and dropping the scratch table and after the outputs were reset", f"path with tests {[(e[1], e[2]) for e in tr if e[0] == 'test'][:4]}: entered={entered} in-transaction={reg is not None} before-drop={bool(before_drop)} after-create={bool(after_create)} after-output-reset={bool(after_upd)}", where=ctx.where_of(rv, loop))
            return
    ctx.check(n_paths > 0, rv.fq, "the reset runs on every path, in the transaction, between creating and dropping the scratch table and after the outputs were reset", "no returning path", f"{n_paths} paths")
    # the receiver is a Step built from the row
    body_calls = [c for c in calls_in(loop) if callee_name(c) == "reset_for_rerun"]
    recv = body_calls[0].func.value
    tgt = {n.id for n in ast.walk(loop.target) if isinstance(n, ast.Name)}
    ok = isinstance(recv, ast.Call) and callee_name(recv) == "Step" and any(isinstance(a, ast.Name) and a.id in tgt for a in recv.args)
    ctx.check(ok, rv.fq, "the reset is applied to the step of the row", f"receiver is {ast.unparse(recv)}", "Step(workflow, i, label)")
    # reset_for_rerun really drops the dynamic edges in both directions
    rr = ctx.prog.func("step.Step.reset_for_rerun")
    src = re.sub(r"\s+", " ", ast.unparse(rr.node))
    ctx.check("DELETE FROM dynamic_dep" in src and "del_sources" in src and "WHERE sink = ?" in src and "WHERE source = ?" in src, rr.fq, "drops dynamic inputs and dynamic outputs", "reset_for_rerun no longer drops both kinds of dynamic edges", "both directions")


def rule_output_memory(ctx):
    """R-C07-6: a file stays known as a former output (state BUILT/OUTDATED, hash kept) until cleanup decides about it."""
    shared.check_initialize_row_carry_over(ctx, "a former output whose row is recycled as UNDECLARED/PLANNED loses its output state and hash: once nothing uses it any more it is no longer recognised as an orphaned output and stays on disk")


def rule_cleanup_wiring(ctx):
    """R-C07-8: what is queued for deletion is really removed."""
    shared.check_cleanup_wired(ctx, "orphaned outputs are found and forgotten in the graph but stay on disk")


def rule_outputs_recorded(ctx):
    """R-C07-9: what a run wrote is recorded as an output whatever the verdict of the run."""
    shared.check_outputs_recorded_at_completion(ctx, "the file stays PLANNED without a hash, File.before_delete does not queue it, and when the step is dropped from the plan its half-written output stays on disk for ever")


RULES = [
    Rule("R-C07-11", "what a command wrote is hashed and recorded when its step is declared again while it runs (the re-creation detaches outputs the new declaration lacks; without a hash the cleanup forgets them)", C12.rule_redeclared_running_step, min_instances=24),
    Rule("R-C07-9", "outputs of every completed run are recorded", rule_outputs_recorded, min_instances=1),
    Rule("R-C07-10", "the need of an optional step follows its attached consumers (which steps are reverted)", C11.rule_read_set, min_instances=10),
    Rule("R-C07-8", "queued paths are really removed", rule_cleanup_wiring, min_instances=4),
    Rule("R-C07-1", "cleanup sequence on the clean path", rule_sequence, min_instances=3),
    Rule("R-C07-2", "deletion loop shape and order", rule_delete_loop, min_instances=4),
    Rule("R-C07-3", "static-tree files pruned before the base deletion", rule_tree_files_first, min_instances=2),
    Rule("R-C07-4", "directories are queued and pruned", rule_directories, min_instances=5),
    Rule("R-C07-5", "optional revert filter", rule_optional_filter, min_instances=3),
    Rule("R-C07-7", "a reverted optional step forgets what its run amended", rule_revert_forgets_run, min_instances=5),
    Rule("R-C07-6", "former outputs stay known as outputs until cleanup", rule_output_memory, min_instances=16),
]

MUTANTS = [
    Mutant("deferred-run-outputs-unrecorded", "executor.py", in_function("Executor.execute_job", replace_once("            self.workflow.update_file_hashes(\n                new_out_hashes,\n                cause=HashUpdateCause.SUCCEEDED if run.success else HashUpdateCause.FAILED,\n            )\n", "            if not wants_defer:\n                self.workflow.update_file_hashes(\n                    new_out_hashes,\n                    cause=HashUpdateCause.SUCCEEDED if run.success else HashUpdateCause.FAILED,\n                )\n")), ("R-C07-9",)),
    Mutant("remover-removes-nothing", "finalize.py", in_function("_try_remove", replace_once("        remove()\n", "        pass\n")), ("R-C07-8",)),
    Mutant("revert-keeps-output-rows", "finalize.py", in_function("revert_optional_steps", replace_once("            db.execute(UPDATE_OPTIONAL_TO_BE_DELETED)\n", "            pass\n")), ("R-C07-8",)),
    Mutant("revert-keeps-dynamic-edges", "finalize.py", in_function("revert_optional_steps", replace_once("        for i, label in rows:\n            Step(workflow, i, label).reset_for_rerun()\n", "")), ("R-C07-7",)),
    Mutant("revert-forgets-only-with-files", "finalize.py", in_function("revert_optional_steps", lambda s: s.replace("        rows = db.execute(\"SELECT i, label FROM optional_step\").fetchall()\n        for i, label in rows:\n            Step(workflow, i, label).reset_for_rerun()\n", "", 1).replace("            db.execute(UPDATE_OPTIONAL_TO_BE_DELETED)\n", "            db.execute(UPDATE_OPTIONAL_TO_BE_DELETED)\n            rows = db.execute(\"SELECT i, label FROM optional_step\").fetchall()\n            for i, label in rows:\n                Step(workflow, i, label).reset_for_rerun()\n", 1) if "Step(workflow, i, label).reset_for_rerun()" in s else None), ("R-C07-7",)),
    Mutant("revert-forgets-non-pending-only", "finalize.py", in_function("revert_optional_steps", replace_once("SELECT i, label FROM optional_step\"", "SELECT i, label FROM optional_step WHERE state != 21\"")), ("R-C07-7",)),
    Mutant("revert-forgets-after-drop", "finalize.py", in_function("revert_optional_steps", lambda s: s.replace("        for i, label in rows:\n            Step(workflow, i, label).reset_for_rerun()\n", "", 1).replace("        _drop_optional_tables(db)\n    # Report", "        _drop_optional_tables(db)\n        for i, label in rows:\n            Step(workflow, i, label).reset_for_rerun()\n    # Report", 1) if "Step(workflow, i, label).reset_for_rerun()" in s and "        _drop_optional_tables(db)\n    # Report" in s else None), ("R-C07-7",)),
    Mutant("prune-visited-once", "finalize.py", in_function("_prune_empty_dirs", lambda s: s.replace("    todo = sorted(dirs)\n    while len(todo) > 0:\n        path = todo.pop()\n", "    todo = sorted(dirs)\n    visited = set()\n    while len(todo) > 0:\n        path = todo.pop()\n        if path in visited:\n            continue\n        visited.add(path)\n") if "path = todo.pop()" in s else None), ("R-C07-4",)),
    Mutant("undeclared-forgets-output", "file.py", in_function("File.initialize_row", replace_once("if state in (FileState.UNDECLARED, FileState.PLANNED):", "if state == FileState.PLANNED:")), ("R-C07-6",)),
    Mutant("skip-revert", "builder.py", in_function("Builder.finalize", replace_once("            await revert_optional_steps(self.workflow, self.reporter)\n", "")), ("R-C07-1",)),
    Mutant("remove-before-delete", "builder.py", in_function("Builder.finalize", lambda s: s.replace("            async with self.db:\n                self.workflow.delete_detached()\n            await remove_deletable_files(self.workflow, self.reporter)\n", "            await remove_deletable_files(self.workflow, self.reporter)\n            async with self.db:\n                self.workflow.delete_detached()\n") if "self.workflow.delete_detached()" in s else None), ("R-C07-1",)),
    Mutant("single-pass", "trellis.py", in_function("Trellis.delete_detached", replace_once("                cleaned_some = True\n", "                cleaned_some = False\n")), ("R-C07-2",)),
    Mutant("before-delete-after", "trellis.py", in_function("Trellis.delete_detached", lambda s: s.replace("                node.before_delete()\n                self.db.execute(\"DELETE FROM node where i = ?\", (i,))\n", "                self.db.execute(\"DELETE FROM node where i = ?\", (i,))\n                node.before_delete()\n") if "node.before_delete()" in s else None), ("R-C07-2",)),
    Mutant("keep-sources", "trellis.py", in_function("Trellis.delete_detached", replace_once("                node.del_all_sources()\n", "")), ("R-C07-2",)),
    Mutant("tree-files-after", "workflow.py", in_function("Workflow.delete_detached", lambda s: s.replace("        super().delete_detached()\n", "", 1).replace("        # Get rid of static tree files that are no longer used.\n", "        super().delete_detached()\n        # Get rid of static tree files that are no longer used.\n", 1) if "# Get rid of static tree files" in s else None), ("R-C07-3",)),
    Mutant("no-workdir-queue", "step.py", in_function("Step.before_delete", replace_once("        self.graph.mark_dir_to_be_deleted(self.command_and_workdir[1])\n", "        pass\n")), ("R-C07-4",)),
    Mutant("no-parent-walk", "finalize.py", in_function("_prune_empty_dirs", replace_once("                todo.append(parent)\n", "                pass\n")), ("R-C07-4",)),
    Mutant("revert-by-declared-need", "finalize.py", replace_once("WHERE _implied_need = {Need.OPTIONAL.value}\nAND NOT node.detached", "WHERE need = {Need.OPTIONAL.value}\nAND NOT node.detached"), ("R-C07-5",)),
]

# the declared-again mechanism is shared with C12 (R-C12-10): its mutants are replayed for this property's copy of the rule
MUTANTS += [Mutant("shared-" + m.name, m.file, m.transform, ("R-C07-11",), m.note) for m in C12.MUTANTS if m.name in ['replaced-command-outputs-forgotten', 'raw-outputs-request-not-forwarded', 'raw-request-still-filtered', 'dropped-run-outputs-looked-up-attached-only', 'replaced-command-outputs-looked-up-attached-only', 'dropped-run-outputs-recorded-as-succeeded']]

VARIANTS = [
    Variant("loop-flag-rename", "trellis.py", in_function("Trellis.delete_detached", lambda s: s.replace("cleaned_some", "progress") if "cleaned_some" in s else None)),
    Variant("cleanup-logs-first", "builder.py", in_function("Builder.finalize", replace_once("            await revert_optional_steps(self.workflow, self.reporter)\n", "            logger.debug(\"cleanup starts\")\n            await revert_optional_steps(self.workflow, self.reporter)\n"))),
]

# a sketch of the F63/F64 repair (recording through state-selecting helpers): no rule of this property may alarm on it
VARIANTS += [shared.REPAIR_SKETCH_F63]
