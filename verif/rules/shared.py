"""Checks that are a necessary condition of more than one property.

Each function takes the rule context and reports under the rule that calls it, so the same structural
fact can be claimed (and reported) by every property whose behaviour depends on it.
"""
from __future__ import annotations

import ast
import itertools

from ..engine import finite, flow
from ..engine.source import AnalysisError
from ..engine.mutate import Variant
from .common import callee_name, calls_in, norm_record_events


def check_built_notifies(ctx, consequence: str) -> int:
    """Every Python-level move of a file into BUILT is followed, on the same path and for the same file, by
    mark_consuming_steps_pending (the call that clears `deferred` of a step parked on that file)."""
    n = 0
    for fi in ctx.prog.all_functions():
        if "FileState.BUILT" not in fi.module.text:
            continue
        sets = [c for c in calls_in(fi.node) if callee_name(c) == "set_state" and len(c.args) >= 1 and ast.unparse(c.args[0]) == "FileState.BUILT"]
        if not sets:
            continue
        for tr, s in flow.paths_of(fi):
            for k, e in enumerate(tr):
                if e[0] == "call" and any(e[2] is c for c in sets):
                    n += 1
                    recv = ast.unparse(e[2].func.value)
                    later = [x[2] for x in tr[k + 1:] if x[0] == "call" and callee_name(x[2]) == "mark_consuming_steps_pending"]
                    ok = any(len(c.args) == 1 and ast.unparse(c.args[0]) == recv for c in later)
                    ctx.check(ok, fi.fq, f"{recv} -> BUILT is followed by mark_consuming_steps_pending({recv})", consequence, "paired", where=ctx.where_of(fi, e[2]))
    if n == 0:
        raise AnalysisError("no Python-level set_state(FileState.BUILT) site found (revalidation anchor moved)")
    return n


def check_completion_iterates_products(ctx, consequence: str):
    """Step.mark_completed reaches the step's output files through products(File), the selector without a detached
    filter, in both the failing and the succeeding branch."""
    mc = ctx.prog.func("step.Step.mark_completed")
    loops = [ast.unparse(nn.iter) for nn in ast.walk(mc.node) if isinstance(nn, ast.For)]
    ctx.check(bool(loops) and all(l == "self.products(File)" for l in loops), mc.fq, "outputs are iterated through products(File)",
              f"completion iterates {loops}: {consequence}", "products(File)", where=ctx.where_of(mc))


def check_initialize_row_carry_over(ctx, consequence: str):
    """File.initialize_row: a row recycled as UNDECLARED or PLANNED that was BUILT keeps being known as an output
    (it is outdated, not forgotten); nothing else is outdated."""
    ir = ctx.prog.func("file.File.initialize_row")
    FS = ctx.prog.enum("FileState")
    n = 0
    for req, old in itertools.product((FS.UNDECLARED, FS.PLANNED, FS.UNCONFIRMED, FS.VOLATILE), (FS.BUILT, FS.OUTDATED, FS.CONFIRMED, None)):
        row = None if old is None else (old.value, "{}")
        fp = finite.feasible_paths(ctx.prog, ir, {"state": req}, {"self.db.execute(sql, (self.i,)).fetchone()": row})
        for trc, s in fp:
            n += 1
            out = any(e[0] == "call" and e[1].endswith("mark_file_outdated") for e in trc)
            carried = req in (FS.UNDECLARED, FS.PLANNED) and old == FS.BUILT
            ctx.check(out == carried, ir.fq, f"requested={req.name} old={old.name if old else 'none'}", consequence, "carried-over BUILT is outdated" if carried else "no carry-over")
    if n == 0:
        raise AnalysisError("File.initialize_row: no feasible path")


def _env_dictcomp(ctx, f, node):
    """The dict comprehension that yields the tracked values: the argument itself, or the returned expression of
    a `self.<helper>(env_deps)` call."""
    if isinstance(node, ast.DictComp):
        return node
    if isinstance(node, ast.Call) and isinstance(node.func, ast.Attribute) and isinstance(node.func.value, ast.Name) and node.func.value.id == "self":
        try:
            h = ctx.prog.func(f"executor.Executor.{node.func.attr}")
        except AnalysisError:
            return None
        rets = [r.value for r in ast.walk(h.node) if isinstance(r, ast.Return) and r.value is not None]
        if len(rets) == 1 and isinstance(rets[0], ast.DictComp):
            return rets[0]
    return None


def _env_values_expr_ok(ctx, f, node):
    """{name: <base_env>.get(name) for name in env_deps}: every tracked name, looked up in base_env, *without a
    default* (an undefined variable must stay distinguishable from an empty one)."""
    dc = _env_dictcomp(ctx, f, node)
    if dc is None:
        return False, "not a comprehension over the tracked names"
    if len(dc.generators) != 1 or dc.generators[0].ifs:
        return False, "filtered comprehension"
    v = dc.value
    if not (isinstance(v, ast.Call) and isinstance(v.func, ast.Attribute) and v.func.attr == "get"):
        return False, "value is not a .get() lookup"
    if len(v.args) != 1 or v.keywords:
        return False, "lookup with a default: an undefined variable and one set to that default share a digest"
    recv = ast.unparse(v.func.value)
    if recv != "self.base_env":
        # a local bound to self.base_env in the enclosing function
        owner = None
        for fn in ast.walk(ctx.prog.module("executor").tree):
            if isinstance(fn, (ast.FunctionDef, ast.AsyncFunctionDef)) and any(x is dc for x in ast.walk(fn)):
                owner = fn
        binds = [a.value for a in ast.walk(owner) if isinstance(a, ast.Assign) and len(a.targets) == 1 and isinstance(a.targets[0], ast.Name) and a.targets[0].id == recv] if owner is not None else []
        if not (binds and all(ast.unparse(b) == "self.base_env" for b in binds)):
            return False, f"values are read from {recv}, not from base_env"
    return True, "ok"


def check_from_inp_call_sites(ctx, consequence: str):
    """Both executor sites that compute an input digest pass the same five ingredients from the step's own row."""
    import re

    ex = ctx.prog.module("executor")
    n = 0
    for f in ex.all_funcs.values():
        for c in calls_in(f.node):
            if ast.unparse(c.func) == "StepHash.from_inp":
                n += 1
                args = [ast.unparse(a) for a in c.args]
                kws = {k.arg: ast.unparse(k.value) for k in c.keywords}
                env_ok, env_why = _env_values_expr_ok(ctx, f, c.args[2]) if len(c.args) >= 3 else (False, "missing")
                ok = len(args) >= 3 and args[0] == "run.step.label" and "all_hashes" in args[1] and env_ok and kws.get("shell") == "shell" and kws.get("env_overrides") == "env_overrides"
                if not env_ok:
                    args[2] = f"{args[2]} [{env_why}]"
                ctx.check(ok, f.fq, "from_inp(label, all input hashes, all env deps, shell=, env_overrides=)", f"call passes {args} {kws}: {consequence}", "all ingredients passed", where=ctx.where_of(f, c))
                src = re.sub(r"\s+", " ", ast.unparse(f.node))
                ctx.check("shell = run.step.uses_shell()" in src and "env_overrides = run.step.get_env_overrides()" in src, f.fq, "shell and overrides come from the step's own row", "provenance changed", "own row")
    if n != 2:
        raise AnalysisError(f"expected 2 StepHash.from_inp call sites in executor.py, found {n}")
    # sibling agreement: the two sites read the environment from the same source (the values are hash ingredients)
    envs = sorted({ast.unparse(_env_dictcomp(ctx, f, c.args[2]) or c.args[2]) for f in ex.all_funcs.values() for c in calls_in(f.node) if ast.unparse(c.func) == "StepHash.from_inp" and len(c.args) >= 3})
    ctx.check(len(envs) == 1, "executor.Executor", "both digest sites take the tracked variables from the same environment", f"the two sites read the environment differently ({envs}): {consequence}", envs[0] if envs else "")
    # and that environment is the one the command runs in
    rc = ctx.prog.func("executor.Executor._run_command")
    ctx.check("self.base_env" in ast.unparse(rc.node), rc.fq, "the command is started with base_env (the environment the digest sites read)", f"the command no longer runs with base_env: {consequence}", "base_env")


def check_registration_keeps_subs(ctx, consequence: str):
    """DirectorHandler.register_glob rebuilds the registration from the client's pattern *and* substitutions (through
    helpers, if any), and static() patterns have none."""
    rg = ctx.prog.func("director.DirectorHandler.register_glob")
    seen, todo, found = set(), [rg], []
    while todo:
        fi = todo.pop()
        if fi.fq in seen:
            continue
        seen.add(fi.fq)
        for c in calls_in(fi.node):
            if isinstance(c.func, ast.Name) and c.func.id == "NamedGlob":
                found.append((fi, c))
            elif isinstance(c.func, ast.Attribute) and isinstance(c.func.value, ast.Name) and c.func.value.id == "self" and c.func.attr.startswith("_"):
                tgt = fi.cls.methods.get(c.func.attr) if getattr(fi, "cls", None) is not None and hasattr(fi.cls, "methods") else None
                if tgt is None:
                    try:
                        tgt = ctx.prog.func(f"director.DirectorHandler.{c.func.attr}")
                    except AnalysisError:
                        tgt = None
                if tgt is not None:
                    todo.append(tgt)
    if not found:
        raise AnalysisError("register_glob no longer builds a NamedGlob (directly or through a private helper)")
    for fi, c in found:
        ok = len(c.args) + len(c.keywords) >= 2 and any("subs" in ast.unparse(a) for a in list(c.args[1:]) + [k.value for k in c.keywords])
        ctx.check(ok, fi.fq, f"{ast.unparse(c)} for a glob() registration", consequence, "pattern and subs", where=ctx.where_of(fi, c))


def check_rescan_rebuilds_registered_matcher(ctx, consequence: str):
    """startup.rescan_nglobs rebuilds every NamedGlob from the pattern *and* the substitutions of the registration."""
    n = 0
    fi = ctx.prog.func("startup.rescan_nglobs")
    for c in calls_in(fi.node):
        if isinstance(c.func, ast.Name) and c.func.id == "NamedGlob":
            n += 1
            args = [ast.unparse(a) for a in c.args]
            ok = len(args) >= 2 and args[0].endswith(".pattern") and args[1].endswith(".subs") and args[0].split(".")[0] == args[1].split(".")[0]
            ctx.check(ok, fi.fq, f"NamedGlob({', '.join(args)})", consequence, "pattern and subs of the same registration", where=ctx.where_of(fi, c))
    if n == 0:
        raise AnalysisError("rescan_nglobs no longer rebuilds a NamedGlob")


def check_can_recycle_compares_roles(ctx, consequence_fmt: str):
    """Step.can_recycle compares each of the four declaration lists with its own stored counterpart (regular and
    volatile outputs separately: the role of a path decides whether cleaning looks at its content)."""
    import re

    cr = ctx.prog.func("step.Step.can_recycle")
    # name -> getter method whose result (alone) it holds: `old_x = sorted(... self.<getter>(dynamic=False) ...)`
    holds = {}
    for a in ast.walk(cr.node):
        if isinstance(a, ast.Assign) and len(a.targets) == 1 and isinstance(a.targets[0], ast.Name) and isinstance(a.value, ast.Call) and callee_name(a.value) == "sorted":
            getters = [callee_name(c) for c in ast.walk(a.value) if isinstance(c, ast.Call) and isinstance(c.func, ast.Attribute) and isinstance(c.func.value, ast.Name) and c.func.value.id == "self"]
            if len(getters) == 1 and not any(isinstance(x, ast.BinOp) for x in ast.walk(a.value)):
                holds[a.targets[0].id] = getters[0]
    compared = {}
    for c in ast.walk(cr.node):
        if isinstance(c, ast.Compare) and len(c.comparators) == 1 and isinstance(c.ops[0], (ast.Eq, ast.NotEq)):
            sides = [c.left, c.comparators[0]]
            names = [x.id for x in sides if isinstance(x, ast.Name)]
            params = [x.args[0].id for x in sides if isinstance(x, ast.Call) and callee_name(x) == "sorted" and len(x.args) == 1 and isinstance(x.args[0], ast.Name)]
            if len(names) == 1 and len(params) == 1 and names[0] in holds:
                compared[params[0]] = holds[names[0]]
    for p, getter in (("inp_paths", "inp_paths"), ("env_deps", "env_deps"), ("out_paths", "out_paths"), ("vol_paths", "vol_paths")):
        ctx.check(compared.get(p) == getter, cr.fq, f"{p} compared with its own stored counterpart", consequence_fmt.format(p=p), "compared")
    # the stored counterpart is the *initial* declaration: `dynamic=False` excludes what the step amended while running
    # (only the calls whose result is compared with the declaration: a scan of all inputs for another purpose is not one)
    held_values = [a.value for a in ast.walk(cr.node) if isinstance(a, ast.Assign) and len(a.targets) == 1 and isinstance(a.targets[0], ast.Name) and a.targets[0].id in holds and a.targets[0].id in {n for c in ast.walk(cr.node) if isinstance(c, ast.Compare) for n in [x.id for x in [c.left, *c.comparators] if isinstance(x, ast.Name)]}]
    held_values += [x for r in ast.walk(cr.node) if isinstance(r, ast.Return) and isinstance(r.value, ast.Compare) for x in [r.value.left, *r.value.comparators]]
    seen_calls = set()
    for c in [c for v in held_values for c in calls_in(v)]:
        if id(c) in seen_calls:
            continue
        seen_calls.add(id(c))
        if callee_name(c) in ("inp_paths", "env_deps", "out_paths", "vol_paths") and isinstance(c.func, ast.Attribute) and ast.unparse(c.func.value) == "self":
            k = [kw for kw in c.keywords if kw.arg == "dynamic"]
            ctx.check(bool(k) and ast.unparse(k[0].value) == "False", cr.fq, f"{ast.unparse(c)} selects the initial declaration", consequence_fmt.format(p=callee_name(c)) + " (amended paths are compared with a declaration that cannot contain them: a step that amended anything is never recycled, or the reverse)", "dynamic=False")
    pf = ctx.prog.func("step.Step._paths")
    sel = None
    for n in ast.walk(pf.node):
        if isinstance(n, ast.If) and ast.unparse(n.test) == "dynamic" and n.orelse:
            body, orelse = " ".join(ast.unparse(x) for x in n.body), " ".join(ast.unparse(x) for x in n.orelse)
            sel = ("JOIN dynamic_dep" in body and "NOT EXISTS" not in body, "NOT EXISTS" in orelse and "dynamic_dep" in orelse)
    ctx.check(sel == (True, True), pf.fq, "dynamic=True joins dynamic_dep, dynamic=False excludes it", "the initial/amended selector of Step._paths no longer separates the two kinds of paths", "JOIN / NOT EXISTS")


def check_tree_adopts_all_detached(ctx, consequence: str):
    """Workflow.register_static_tree hands every detached file row under the new tree over to the tree."""
    import re

    rt = ctx.prog.func("workflow.Workflow.register_static_tree")
    stm = ctx.sql.stmts_in(rt.fq)
    adopt = [s for s in stm if re.search(r"SELECT label FROM node JOIN file", s.text)]
    if not adopt:
        raise AnalysisError("register_static_tree: adoption sweep not found")
    ok = all(re.search(r"WHERE node \. detached AND substr", s.text) and "state" not in s.text.split("WHERE", 1)[1] and " AND " not in s.text.split("WHERE node . detached AND", 1)[1] for s in adopt)
    ctx.check(ok, rt.fq, "adoption sweep takes every detached file under the tree (no state filter)", consequence, "all detached rows")


def check_after_recycle_repends(ctx, consequence: str):
    """Step.after_recycle re-pends exactly the FAILED steps and the SUCCEEDED steps that lost their hash."""
    ar = ctx.prog.func("step.Step.after_recycle")
    SS = ctx.prog.enum("StepState")
    n = 0
    # the declaration arguments that are hash ingredients but are not compared by can_recycle: the stored value is
    # what the getters return, the new value is the parameter
    same = {"shell": False, "env_overrides": None, "self.uses_shell()": False, "self.get_env_overrides()": {}}
    for st in SS:
        for has_hash in (True, False):
            for changed in (None, "shell", "env_overrides"):
                bind = {"shell": same["shell"], "env_overrides": same["env_overrides"]}
                ov = {"self.get_state()": st, "self.get_hash()": (object() if has_hash else None), "self.uses_shell()": same["self.uses_shell()"], "self.get_env_overrides()": same["self.get_env_overrides()"]}
                if changed == "shell":
                    bind["shell"] = True
                elif changed == "env_overrides":
                    bind["env_overrides"] = {"X": "1"}
                fp = finite.feasible_paths(ctx.prog, ar, bind, ov)
                outcomes = {any(e[0] == "call" and e[1].endswith("mark_step_pending") for e in tr) for tr, s in fp}
                n += len(fp)
                exp = st == SS.FAILED or (st == SS.SUCCEEDED and (not has_hash or changed is not None))
                what = f"state={st.name} hash={'yes' if has_hash else 'no'}" + (f" {changed} changed" if changed else "")
                why = consequence if changed is None else f"a SUCCEEDED step is not hash-checked again by itself, so a new `{changed}` (an ingredient of its hash that can_recycle does not compare) leaves the old output in place: the incremental build differs from a build from scratch"
                ctx.check(outcomes == {exp}, ar.fq, what, f"re-pended={sorted(outcomes)}, expected {exp}: {why}", "re-pended" if exp else "kept")
    if n == 0:
        raise AnalysisError("Step.after_recycle: no feasible path")


def check_lost_product_chain(ctx, consequence: str):
    """Step.after_lost_product drops the step's hash and hands the invalidation on to a detached creator (so that the
    whole chain of plans that would re-declare the lost product runs again)."""
    alp = ctx.prog.func("step.Step.after_lost_product")
    calls = calls_in(alp.node)
    own = any(callee_name(c) == "delete_hash" and isinstance(c.func, ast.Attribute) and ast.unparse(c.func.value) == "self" for c in calls)
    up = [c for c in calls if callee_name(c) == "after_lost_product" and isinstance(c.func, ast.Attribute) and ast.unparse(c.func.value) != "self" and not ast.unparse(c.func.value).startswith("super")]
    ctx.check(own, alp.fq, "a step that lost a product drops its hash", "the step keeps a hash that no longer describes a complete run", "delete_hash")
    ctx.check(bool(up), alp.fq, "the invalidation is handed on to the detached creator (recursively)", consequence, "creator.after_lost_product()", where=ctx.where_of(alp))


def check_edge_delete_flags_suppliers(ctx, consequence: str):
    """The need (and tail time) of a step is defined over its consumers two dependency hops downstream
    (step -> file -> step).  When an edge file -> consumer is *deleted*, the recomputation that starts at the
    flagged consumer follows the remaining edges and can no longer reach the producers of that file, so the delete
    trigger itself has to flag them: `node IN (SELECT source FROM dependency WHERE sink = OLD.source)`."""
    import re

    trigs = [t for t in ctx.cat.triggers.values() if t.table == "dependency" and t.op == "DELETE"]
    if not trigs:
        raise AnalysisError("no DELETE trigger on dependency")
    ok = False
    for t in trigs:
        body = re.sub(r"\s+", " ", t.body)
        for stmt in body.split(";"):
            if re.search(r"UPDATE step SET _check_after = 1", stmt) and re.search(r"SELECT source FROM dependency WHERE sink = OLD \. source", stmt):
                ok = True
    ctx.check(ok, "step.STEP_SCHEMA", "deleting an edge flags the producers of its source file (two hops upstream of the lost consumer)", consequence, "trigger flags suppliers of OLD.source", where="trigger " + ", ".join(t.name for t in trigs))


def check_targets_reconciled_after_resume(ctx, consequence: str):
    """director.serve: on a resumed database the startup rescans (which re-pend an edited plan.py) run before the
    targets are reconciled; `_creator_chain_pending` decides from those states whether a target in a forbidden
    state is an error or will be re-declared."""
    sv = ctx.prog.func("director.serve")
    n = 0
    for tr, st in flow.paths_of(sv):
        k_rec = [k for k, e in enumerate(tr) if e[0] == "call" and e[1].endswith("reconcile_targets")]
        if not k_rec:
            continue
        tests = [(e[1], e[2]) for e in tr[:k_rec[0]] if e[0] == "test"]
        k_res = [k for k, e in enumerate(tr) if e[0] == "call" and e[1] == "resume_from_db"]
        k_boot = [k for k, e in enumerate(tr) if e[0] == "call" and e[1].endswith("initialize_boot")]
        k_run = [k for k, e in enumerate(tr) if e[0] == "call" and e[1] == "_run_tasks"]
        resumed = ("initialized", False) in tests or bool(k_res)
        n += 1
        ok = bool(k_boot) and k_boot[0] < k_rec[0] and (not k_run or k_rec[0] < k_run[0])
        if resumed or ("initialized", True) not in tests:
            # the path on which the database is resumed: the rescan must already have happened
            if ("initialized", True) not in tests:
                ok = ok and bool(k_res) and k_res[0] < k_rec[0]
        ctx.check(ok, sv.fq, "targets are reconciled after boot and, on a resumed database, after the startup rescans; before the first tick", consequence, "boot -> resume_from_db -> reconcile_targets -> run", where=ctx.where_of(sv))
    if n == 0:
        raise AnalysisError("director.serve no longer reconciles targets")


def check_rollback_possible(ctx, consequence: str):
    """No connection setting takes away the rollback journal of any schema (main or temp): a rejected request is
    undone by ROLLBACK, which needs a journal for every table the request may have written, the trigger-maintained
    temporary mirrors included."""
    import re

    n = 0
    for mod in ctx.prog.mods.values():
        for node in ast.walk(mod.tree):
            if isinstance(node, ast.Constant) and isinstance(node.value, str):
                for m in re.finditer(r"PRAGMA\s+(?:(\w+)\s*\.\s*)?journal_mode\s*=\s*(\w+)", node.value, re.I):
                    n += 1
                    schema, mode = (m.group(1) or "main"), m.group(2).upper()
                    ctx.check(mode in ("WAL", "DELETE", "TRUNCATE", "PERSIST"), f"{mod.name}", f"PRAGMA {schema}.journal_mode = {mode}",
                              f"journal mode {mode} for schema {schema}: ROLLBACK cannot undo writes there: {consequence}", "a mode that keeps a rollback journal", where=f"stepup/core/{mod.path.name}:{node.lineno}")
    if n == 0:
        raise AnalysisError("no journal_mode pragma found (connection settings moved)")


def _failed_selector(ctx, fq):
    """(found, include_detached) for the `<workflow>.steps(StepState.FAILED, ...)` call of a function."""
    fi = ctx.prog.func(fq)
    for c in calls_in(fi.node):
        if callee_name(c) == "steps" and c.args and ast.unparse(c.args[0]) == "StepState.FAILED":
            k = [kw for kw in c.keywords if kw.arg == "include_detached"]
            return fi, c, bool(k) and ast.unparse(k[0].value) == "True"
    return fi, None, False


def check_failed_steps_retried(ctx, consequence: str):
    """Both places that retry FAILED steps (startup after a kill, start of a watch-mode rebuild) select detached
    steps too and send every selected step through mark_step_pending."""
    import re

    sel = {}
    for fq in ("startup.reset_interrupted_steps", "director.DirectorHandler.start_build_phase"):
        fi, call, incl = _failed_selector(ctx, fq)
        if call is None:
            raise AnalysisError(f"{fq} no longer selects FAILED steps through Workflow.steps")
        src = re.sub(r"\s+", " ", ast.unparse(fi.node))
        ctx.check("mark_step_pending(step)" in src, fq, "every selected FAILED step goes through mark_step_pending", "FAILED steps are not run through the ordinary invalidation (BUILT outputs of an interrupted step stay trusted)", "mark_step_pending")
        ctx.check(incl, fq, "the retry also covers detached FAILED steps", consequence, "include_detached=True", where=ctx.where_of(fi, call))
        sel[fq] = incl
    ctx.check(len(set(sel.values())) == 1, "startup.reset_interrupted_steps", "restart and watch-mode rebuild retry the same FAILED steps", f"selectors differ: {sel}", "same selector")
    ws = ctx.prog.func("workflow.Workflow.steps")
    src = re.sub(r"\s+", " ", ast.unparse(ws.node))
    ctx.check("if not include_detached: sql += ' AND NOT detached'" in src, ws.fq, "Workflow.steps filters detached steps unless asked not to", "include_detached no longer removes the filter (or the default includes detached steps)", "conditional filter")


def check_reattach_wakes_deferred(ctx, consequence: str):
    """`deferred` is parked from has_unavailable_dynamic_input(), whose predicate reads file.state and
    node.detached.  A change of file.state reaches mark_step_pending (which clears the flag); a node that is
    reattached by a full recycle changes no file state, so a trigger on node.detached has to clear the flag of the
    consumers itself."""
    import re

    hu = ctx.prog.func("step.Step.has_unavailable_dynamic_input")
    reads_detached = any(re.search(r"\bdetached\b", st.text) for st in ctx.sql.stmts_in(hu.fq))
    trigs = [t for t in ctx.cat.triggers.values() if t.table == "node" and t.op == "UPDATE" and "detached" in t.of_cols
             and re.search(r"UPDATE step SET deferred = (FALSE|0)", re.sub(r"\s+", " ", t.body), re.I)]
    if not reads_detached:
        ctx.ok(hu.fq, "the parking predicate does not look at detached", "no wake-up on reattach needed")
        return
    ok = False
    for t in trigs:
        body = re.sub(r"\s+", " ", t.body)
        consumers = re.search(r"SELECT sink FROM dependency WHERE source = NEW \. i", body) is not None
        tt = ctx.cat.truth_table(t.when or "1", {"OLD.detached": [0, 1], "NEW.detached": [0, 1]})
        covers = bool(tt.get((1, 0)))
        ok = ok or (consumers and covers)
    ctx.check(ok, "step.STEP_SCHEMA", "reattaching a node clears `deferred` of its consumers", consequence, "trigger on node.detached 1 -> 0", where="trigger " + (", ".join(t.name for t in trigs) or "(none)"))


def check_can_recycle_counts_own_outputs(ctx, consequence: str):
    """The partial recycle in Trellis.create cuts the input edges of a recreated step but keeps its output edges (an
    example of the repository relies on that).  An edge to an output that the step no longer creates must therefore
    not count as part of its declaration when can_recycle compares the stored outputs with the new ones."""
    cr = ctx.prog.func("step.Step.can_recycle")
    own = set()
    for a in ast.walk(cr.node):
        if isinstance(a, ast.Assign) and len(a.targets) == 1 and isinstance(a.targets[0], ast.Name):
            calls = [c for c in ast.walk(a.value) if isinstance(c, ast.Call) and isinstance(c.func, ast.Attribute) and ast.unparse(c.func.value) == "self"]
            if any((callee_name(c) == "_paths" and c.args and isinstance(c.args[0], ast.Constant) and c.args[0].value == "product") or callee_name(c) == "products" for c in calls):
                own.add(a.targets[0].id)
    for getter in ("out_paths", "vol_paths"):
        ok = False
        for g in ast.walk(cr.node):
            if isinstance(g, (ast.GeneratorExp, ast.ListComp)) and any(isinstance(c, ast.Call) and callee_name(c) == getter for c in ast.walk(g.generators[0].iter)):
                conds = [ast.unparse(x) for x in g.generators[0].ifs]
                ok = ok or any(any(n in c.split(" in ")[-1] for n in own) and " in " in c for c in conds)
        ctx.check(ok, cr.fq, f"stored {getter} are counted only when this step still creates them", consequence, "filtered by the step's own products", where=ctx.where_of(cr))


def file_change_tables(ctx):
    """Which (detached, state) pairs of an existing file node are examined for content changes:
    R by the startup rescan, W by the watcher for a single path, P by the watcher for a removed directory.
    (attached, UNDECLARED) cannot exist (trigger file_check_undeclared_detached_*) and is left out."""
    import re
    from ..engine.sqlfront import all_where_clauses, split_conjuncts

    FS = ctx.prog.enum("FileState")
    pairs = [(d, s) for d in (False, True) for s in FS if not (s == FS.UNDECLARED and not d)]
    # R: startup.rescan_files
    excl, texts = set(), []
    for st_ in ctx.sql.census.sites_in("startup.rescan_files"):
        for p in st_.params:
            if isinstance(p, tuple):
                excl |= {x for x in p if isinstance(x, int)}
        texts.extend(st_.full_texts())
    if not texts:
        raise AnalysisError("startup.rescan_files: selection not found")
    r_attached_only = any(re.search(r"\bNOT\s+(node\s*\.\s*)?detached\b", t) for t in texts)
    R = {(d, s) for d, s in pairs if s.value not in excl and not (d and r_attached_only)}
    # W: Workflow.change_is_relevant, outside a build phase
    cr = ctx.prog.func("workflow.Workflow.change_is_relevant")
    W = set()
    for d, s in pairs:
        ov = {"self.find_and_detached(File, path)": (object(), d), "file.get_state()": s,
              "self.find_attached(File, path)": (None if d else object()), "self.find(File, path)": object()}
        vals = finite.return_values(ctx.prog, cr, {"during_build": False}, ov)
        if vals and all(v is True for v in vals):
            W.add((d, s))
    # P: Workflow.relevant_paths_under
    rp = ctx.prog.func("workflow.Workflow.relevant_paths_under")
    P = None
    rel = ", ".join(str(m.value) for m in sorted(ctx.prog.fold("workflow", "_RELEVANT_STATES"), key=lambda m: m.value))
    for st_ in ctx.sql.stmts_in(rp.fq):
        if st_.kind != "SELECT" or "file" not in st_.text:
            continue
        for wh in all_where_clauses(st_.text):
            preds = [c for c in split_conjuncts(wh) if re.search(r"\b(state|detached)\b", c)]
            if not preds:
                continue
            # the state list is `_relevant_states(during_build)`; outside a build phase that is _RELEVANT_STATES
            preds = [re.sub(r"⟦[^⟧]*⟧", rel, c) for c in preds]
            tt = ctx.cat.truth_table(" AND ".join(f"({c})" for c in preds), {("file.state", "file . state", "state"): [m.value for m in FS], ("node.detached", "node . detached", "detached"): [0, 1]})
            got = {(bool(dv), FS(sv)) for (sv, dv), ok in tt.items() if ok}
            P = got if P is None else (P & got)
    if P is None:
        raise AnalysisError("relevant_paths_under: state selection not found")
    P = {x for x in P if x in set(pairs)}
    return pairs, R, W, P


def check_file_change_filters_agree(ctx, consequence: str):
    pairs, R, W, P = file_change_tables(ctx)
    fmt = lambda xs: sorted(("detached " if d else "") + s.name for d, s in xs)  # noqa: E731
    ctx.check(R == W, "workflow.Workflow.change_is_relevant", "the watcher finds a path relevant exactly when the startup rescan would examine its node",
              f"restart only: {fmt(R - W)}; watcher only: {fmt(W - R)}: {consequence}", f"{len(pairs)} (detached, state) points")
    ctx.check(P == W, "workflow.Workflow.relevant_paths_under", "a removed directory selects the same nodes as single-path relevance",
              f"directory only: {fmt(P - W)}; single path only: {fmt(W - P)}: {consequence}", f"{len(pairs)} points")
    return R


def check_changes_reach_detached_files(ctx, consequence: str):
    """A detached file node can be recycled with its state and hash (and with the steps that consumed it), so the
    content checks cover detached nodes in every state that has recorded content."""
    pairs, R, W, P = file_change_tables(ctx)
    FS = ctx.prog.enum("FileState")
    need = {(True, s) for s in FS if s in (FS.BUILT, FS.OUTDATED, FS.CONFIRMED, FS.MISSING)}
    for name, tab, site in (("startup rescan", R, "startup.rescan_files"), ("watcher (single path)", W, "workflow.Workflow.change_is_relevant"), ("watcher (removed directory)", P, "workflow.Workflow.relevant_paths_under")):
        missing = sorted(s.name for d, s in need - tab)
        ctx.check(not missing, site, f"{name} covers detached nodes with recorded content", f"detached nodes in state {missing} are not examined: {consequence}", "BUILT/OUTDATED/CONFIRMED/MISSING, detached included")


def check_detach_repends_attached_consumers(ctx, consequence: str):
    """When a step (with its outputs) is detached, the attached steps that consume one of those outputs no longer
    have a producer for it: in a build from scratch they would be pending.  Step.detach (or what it calls) has to
    send them through mark_step_pending."""
    sd = ctx.prog.func("step.Step.detach")
    reach = ctx.cg.reachable(sd.fq, include_by_name=False)
    ok = "workflow.Workflow.mark_step_pending" in reach or "workflow.Workflow.mark_consuming_steps_pending" in reach
    ctx.check(ok, sd.fq, "detaching a step re-pends the attached consumers of its outputs", consequence, "mark_step_pending reachable from Step.detach", where=ctx.where_of(sd))



def check_reset_for_rerun(ctx, why: str):
    """Step.reset_for_rerun puts a step back to what its declaration says: everything a run added is dropped or detached.

    Obligations (each one unconditional, i.e. not under an `if`):
      dynamic inputs   rows selected over dynamic_dep WHERE sink = self  -> dynamic_dep rows deleted, edges deleted
      dynamic env      DELETE FROM env_var ... dynamic = 1
      globs            DELETE FROM nglob WHERE node = self
      dynamic outputs  rows selected over dynamic_dep WHERE source = self -> dynamic_dep rows deleted, edge cut, node detached
      created steps    _detach_created_steps(): every step created by self is detached
      static files     every file created by self in a STATIC state is detached
      static trees     every tree created by self is detached
      built outputs    every BUILT file created by self is marked outdated
    """
    import re

    fi = ctx.prog.func("step.Step.reset_for_rerun")
    stmts = ctx.sql.stmts_in(fi.fq)
    flat = lambda t: re.sub(r"\s+", " ", t).replace(" . ", ".")  # noqa: E731
    parents = {}
    for n in ast.walk(fi.node):
        for c in ast.iter_child_nodes(n):
            parents[c] = n

    def conditional(node):
        while node in parents:
            node = parents[node]
            if isinstance(node, (ast.If, ast.IfExp, ast.Try)):
                return True
        return False

    def consumer(call):
        """('name', V) when the query result is bound to V (possibly through list()), ('loop', For) when it is iterated."""
        node = call
        while node in parents:
            par = parents[node]
            if isinstance(par, ast.Assign) and len(par.targets) == 1 and isinstance(par.targets[0], ast.Name):
                return "name", par.targets[0].id
            if isinstance(par, (ast.For, ast.AsyncFor)) and any(node is x for x in ast.walk(par.iter)):
                return "loop", par
            node = par
        return None, None

    def derived_names(v):
        """v and the names assigned from expressions that mention v (one level, e.g. `ideps = [(r[0],) for r in v]`)."""
        out = {v}
        for a in ast.walk(fi.node):
            if isinstance(a, ast.Assign) and len(a.targets) == 1 and isinstance(a.targets[0], ast.Name) and any(isinstance(x, ast.Name) and x.id == v for x in ast.walk(a.value)):
                out.add(a.targets[0].id)
        return out

    def mentions(node, names):
        return any(isinstance(x, ast.Name) and x.id in names for x in ast.walk(node))

    def select(pred, what):
        hits = [s_ for s_ in stmts if s_.kind == "SELECT" and pred(flat(s_.text))]
        if len(hits) != 1:
            ctx.bad(fi.fq, f"{what}: selection present", f"{len(hits)} matching SELECT statements: {why}", where=ctx.where_of(fi))
            return None
        return hits[0]

    deletes_dd = [s_ for s_ in stmts if s_.kind == "DELETE" and "FROM dynamic_dep" in flat(s_.text)]

    # dynamic inputs
    s1 = select(lambda t: "dynamic_dep" in t and re.search(r"WHERE sink = \?", t) is not None, "dynamic inputs")
    if s1 is not None:
        kind, v = consumer(s1.site.call)
        names = derived_names(v) if kind == "name" else set()
        dd = [d for d in deletes_dd if len(d.site.call.args) > 1 and mentions(d.site.call.args[1], names) and not conditional(d.site.call)]
        cut = [c for c in calls_in(fi.node) if callee_name(c) == "del_sources" and ast.unparse(c.func.value) == "self" and c.args and mentions(c.args[0], names) and not conditional(c)]
        ctx.check(kind == "name" and bool(dd) and bool(cut), fi.fq, "dynamic inputs: their dynamic_dep rows and their edges are deleted", f"rows bound to {v!r}: dynamic_dep deleted={bool(dd)}, edges deleted={bool(cut)}: {why}", "both deleted", where=ctx.where_of(fi, s1.site.call))
    # the deferred flag goes with the dynamic inputs that were the reason for it
    dfl = [s_ for s_ in stmts if s_.kind == "UPDATE" and ("UPDATE", "step", "deferred", None) in s_.writes and re.search(r"SET deferred = (FALSE|0)\b", flat(s_.text), re.I) and "node = ?" in flat(s_.text) and not conditional(s_.site.call)]
    ctx.check(len(dfl) == 1, fi.fq, "the deferred flag is cleared together with the dynamic inputs", f"{len(dfl)} unconditional statement(s) clearing step.deferred: a step that is reset without running (a reverted optional step that had deferred) stays parked with no dynamic input left whose change could wake it, and is never dispatched again: {why}", "UPDATE step SET deferred = FALSE WHERE node = ?")
    # dynamic environment variables and globs
    env = [s_ for s_ in stmts if s_.kind == "DELETE" and "FROM env_var" in flat(s_.text) and re.search(r"dynamic = 1", flat(s_.text)) and "node = ?" in flat(s_.text) and not conditional(s_.site.call)]
    ctx.check(len(env) == 1, fi.fq, "dynamic environment variables are forgotten", f"{len(env)} unconditional DELETE FROM env_var ... dynamic = 1: {why}", "deleted")
    ng = [s_ for s_ in stmts if s_.kind == "DELETE" and re.fullmatch(r"DELETE FROM nglob WHERE node = \?", flat(s_.text)) and not conditional(s_.site.call)]
    ctx.check(len(ng) == 1, fi.fq, "glob registrations are forgotten", f"{len(ng)} unconditional DELETE FROM nglob: {why}", "deleted")
    # dynamic outputs
    s2 = select(lambda t: "dynamic_dep" in t and re.search(r"WHERE source = \?", t) is not None, "dynamic outputs")
    if s2 is not None:
        kind, v = consumer(s2.site.call)
        names = derived_names(v) if kind == "name" else set()
        dd = [d for d in deletes_dd if len(d.site.call.args) > 1 and mentions(d.site.call.args[1], names) and not conditional(d.site.call)]
        loops = [l for l in ast.walk(fi.node) if isinstance(l, ast.For) and mentions(l.iter, {v}) and not conditional(l)] if kind == "name" else []
        ok_loop = any(any(callee_name(c) == "del_sources" and c.args and "self" in ast.unparse(c.args[0]) for c in calls_in(l)) and any(callee_name(c) == "detach" for c in calls_in(l)) for l in loops)
        ctx.check(kind == "name" and bool(dd) and ok_loop, fi.fq, "dynamic outputs: dynamic_dep rows deleted, edge cut and node detached", f"rows bound to {v!r}: dynamic_dep deleted={bool(dd)}, loop cutting the edge and detaching the node={ok_loop}: {why}", "deleted, cut, detached", where=ctx.where_of(fi, s2.site.call))
    # created steps
    dcs = [c for c in calls_in(fi.node) if callee_name(c) == "_detach_created_steps" and not conditional(c)]
    ctx.check(len(dcs) == 1, fi.fq, "created steps are detached", f"{len(dcs)} unconditional calls of _detach_created_steps: {why}", "called")
    df = ctx.prog.func("step.Step._detach_created_steps")
    ok = False
    for l in ast.walk(df.node):
        if isinstance(l, ast.For):
            q = [s_ for s_ in ctx.sql.stmts_in(df.fq) if any(s_.site.call is x for x in ast.walk(l.iter))]
            if q and re.search(r"creator = \? AND kind = 'step'", flat(q[0].text)) and " AND NOT " not in flat(q[0].text) and any(callee_name(c) == "detach" for c in calls_in(l)):
                ok = True
    ctx.check(ok, df.fq, "every step created by this step is detached", f"the loop over created steps is narrowed or no longer detaches: {why}", "loop over creator = ? AND kind = 'step' with detach()")

    def loop_over(pred, action, what, good):
        s_ = select(pred, what)
        if s_ is None:
            return
        kind, l = consumer(s_.site.call)
        ok_ = kind == "loop" and not conditional(l) and any(callee_name(c) == action for c in calls_in(l))
        ctx.check(ok_, fi.fq, what, f"the rows are not all passed to {action}(): {why}", good, where=ctx.where_of(fi, s_.site.call))

    FS = ctx.prog.enum("FileState")
    roles = ctx.prog.fold("enums", "FILE_STATES_BY_ROLE")
    static_vals = sorted(s_.value for s_ in roles[ctx.prog.enum("FileRole").STATIC])
    static_in = "state IN ( " + " , ".join(str(v_) for v_ in static_vals) + " )"
    loop_over(lambda t: "creator = ?" in t and "JOIN file" in t and static_in.replace("( ", "(").replace(" )", ")").replace(" , ", ", ") in t.replace("( ", "(").replace(" )", ")").replace(" , ", ", "), "detach", "static files declared by the step are detached", "loop with detach()")
    loop_over(lambda t: re.search(r"creator = \? AND kind = 'st'", t) is not None, "detach", "static trees declared by the step are detached", "loop with detach()")
    s8 = [s_ for s_ in stmts if s_.kind == "SELECT" and "JOIN file" in flat(s_.text) and re.search(r"creator = \? AND state = \?", flat(s_.text))]
    ok8 = False
    if len(s8) == 1:
        kind, l = consumer(s8[0].site.call)
        bound = any(isinstance(p_, tuple) and FS.BUILT.value in p_ for p_ in s8[0].site.params) or "FileState.BUILT" in ast.unparse(fi.node)
        ok8 = kind == "loop" and not conditional(l) and any(callee_name(c) == "mark_file_outdated" for c in calls_in(l)) and bound
    ctx.check(ok8, fi.fq, "BUILT outputs of the step are marked outdated", f"built outputs keep their state across a rerun: {why}", "loop with mark_file_outdated()")


FILL_METHODS = ("append", "add", "update", "extend", "setdefault")


def wiring(fi, collector: str, consumer: str):
    """Def-use of a local collection: (filled-in-a-loop, consumed-by, detail).

    ``filled``: `collector.append/add/update/extend(...)` or `collector[k] = v` occurs inside a loop of ``fi``.
    ``consumed``: after that loop, ``collector`` is an argument of a call named ``consumer`` (awaited or not), or the
    iterable (possibly through .values()/.items()) of a loop whose body calls ``consumer``.
    """
    fills = []
    for l in ast.walk(fi.node):
        if isinstance(l, (ast.For, ast.AsyncFor, ast.While)):
            for n in ast.walk(l):
                if isinstance(n, ast.Call) and isinstance(n.func, ast.Attribute) and n.func.attr in FILL_METHODS and isinstance(n.func.value, ast.Name) and n.func.value.id == collector:
                    fills.append(n)
                if isinstance(n, ast.Assign) and any(isinstance(t, ast.Subscript) and isinstance(t.value, ast.Name) and t.value.id == collector for t in n.targets):
                    fills.append(n)
    if not fills:
        return False, False, f"{collector} is never filled inside a loop"
    first = min(f.lineno for f in fills)
    consumed = False
    for c in calls_in(fi.node):
        if callee_name(c) == consumer and c.lineno > first and any(isinstance(x, ast.Name) and x.id == collector for a in list(c.args) + [k.value for k in c.keywords] for x in ast.walk(a)):
            consumed = True
    for l in ast.walk(fi.node):
        if isinstance(l, (ast.For, ast.AsyncFor)) and l.lineno > first and any(isinstance(x, ast.Name) and x.id == collector for x in ast.walk(l.iter)):
            if any(callee_name(c) == consumer for c in calls_in(l)):
                consumed = True
    return True, consumed, f"filled at line {first}" + ("" if consumed else f", never handed to {consumer}()")


def check_wired(ctx, fq: str, collector: str, consumer: str, what: str, why: str):
    fi = ctx.prog.func(fq)
    filled, consumed, detail = wiring(fi, collector, consumer)
    ctx.check(filled and consumed, fq, what, f"{detail}: {why}", f"{collector} -> {consumer}()", where=ctx.where_of(fi))


def check_startup_rescans_wired(ctx, why: str):
    """What the startup rescans select reaches the code that reacts to it (def-use of the local collections)."""
    check_wired(ctx, "startup.rescan_files", "path_hash_causes", "gather_hashes", "every rescanned file is handed to the hasher", why)
    rf = ctx.prog.func("startup.rescan_files")
    # the fill is not under a condition: every selected row is hashed
    parents = {}
    for n in ast.walk(rf.node):
        for c in ast.iter_child_nodes(n):
            parents[c] = n
    cond = False
    for n in ast.walk(rf.node):
        if isinstance(n, ast.Call) and isinstance(n.func, ast.Attribute) and n.func.attr == "append" and ast.unparse(n.func.value) == "path_hash_causes":
            node = n
            while node in parents and not isinstance(parents[node], (ast.For, ast.AsyncFor)):
                node = parents[node]
                if isinstance(node, (ast.If, ast.Try, ast.IfExp)):
                    cond = True
    ctx.check(not cond, rf.fq, "no selected row is left out of the rescan", f"the hand-over is conditional: {why}", "unconditional append")
    check_wired(ctx, "startup.rescan_nglobs", "changed_nglobs", "persist_nglob_matches", "a changed match set is persisted (hash dropped, step re-pended)", why)
    check_wired(ctx, "startup.rescan_env_vars", "steps_to_rerun", "mark_step_pending", "a step whose variable changed is re-pended", why)
    check_wired(ctx, "startup.rescan_env_vars", "changed_uses", "refresh_env_dep", "the stored value of a changed variable follows the change", why)
    # re-pending the steps and storing the new value are one transaction: a kill between the two would leave the new
    # value stored with the steps still up to date, and the next restart sees no change
    re_ = ctx.prog.func("startup.rescan_env_vars")
    together = False
    for w in ast.walk(re_.node):
        if isinstance(w, (ast.AsyncWith, ast.With)) and any("db" in ast.unparse(it.context_expr) for it in w.items):
            names = {callee_name(c) for c in calls_in(w)}
            if {"mark_step_pending", "refresh_env_dep"} <= names:
                together = True
    ctx.check(together, re_.fq, "re-pending the steps and storing the new value of the variable are one transaction", f"the two updates are committed separately: killed in between, the restart compares the environment with the value that is already stored, finds no change and leaves the steps' outputs stale: {why}", "one `async with workflow.db` around both loops", where=ctx.where_of(re_))


def check_watcher_wired(ctx, why: str):
    """Events travel from inotify to the workflow: each hop forwards what it receives."""
    cl = ctx.prog.func("watcher.AsyncInotifyWrapper.change_loop")
    puts = [c for c in calls_in(cl.node) if callee_name(c) == "put_nowait" and "change_queue" in ast.unparse(c.func.value) and c.args and isinstance(c.args[0], ast.Tuple)]
    kinds = {ast.unparse(c.args[0].elts[0]) for c in puts}
    ctx.check({"Change.DELETED_PARENT", "Change.UPDATED", "change"} <= kinds, cl.fq, "file events, files found in a new directory and removed directories are all queued", f"queued kinds: {sorted(kinds)}: {why}", "three kinds queued", where=ctx.where_of(cl))
    # the plain file event is forwarded in the arm that is not about directories
    plain = [c for c in puts if ast.unparse(c.args[0].elts[0]) == "change"]
    ok = False
    for n in ast.walk(cl.node):
        if isinstance(n, ast.If) and "Mask.ISDIR" in ast.unparse(n.test):
            ok = any(any(c is x for x in ast.walk(st_)) for c in plain for st_ in n.orelse) and not any(isinstance(x, ast.If) for st_ in n.orelse for x in ast.walk(st_))
    ctx.check(ok, cl.fq, "every event that is not about a directory is queued unconditionally", f"the forwarding is filtered or missing: {why}", "else: put_nowait((change, path))")
    ro = ctx.prog.func("watcher.Watcher.run_once")
    loops = [l for l in ast.walk(ro.node) if isinstance(l, (ast.AsyncFor, ast.While)) and any(callee_name(c) == "record_change" for c in calls_in(l))]
    ctx.check(len(loops) >= 2, ro.fq, "events queued during the build and events of the watch phase are both recorded", f"{len(loops)} loop(s) call record_change: {why}", "two loops")
    lp = ctx.prog.func("watcher.Watcher.loop")
    ctx.check(any(callee_name(c) == "run_once" for c in calls_in(lp.node)), lp.fq, "the watcher loop runs a watch phase", f"run_once is never awaited: {why}", "await self.run_once(...)")


def check_cleanup_wired(ctx, why: str):
    """Queued paths are really removed."""
    tr_ = ctx.prog.func("finalize._try_remove")
    params = [a.arg for a in tr_.node.args.args]
    called = any(isinstance(c.func, ast.Name) and c.func.id == params[0] for t in ast.walk(tr_.node) if isinstance(t, ast.Try) for st_ in t.body for c in calls_in(st_)) if params else False
    ctx.check(called, tr_.fq, "the removal callback is called", f"_try_remove reports success without calling anything: {why}", f"{params[0] if params else '?'}() inside try")
    rd = ctx.prog.func("finalize.remove_deletable_files")
    uses = [c for c in calls_in(rd.node) if callee_name(c) == "_try_remove"]
    ok = any(c.args and ast.unparse(c.args[0]).endswith(".remove") for c in uses)
    ctx.check(ok, rd.fq, "every queued file is passed to the remover", f"queued files are not removed: {why}", "_try_remove(path.remove)")
    ctx.check(any(callee_name(c) == "_prune_empty_dirs" for c in calls_in(rd.node)), rd.fq, "queued directories are pruned", f"directories are never pruned: {why}", "_prune_empty_dirs(...)")
    rv = ctx.prog.func("finalize.revert_optional_steps")
    ex = [ast.unparse(c.args[0]) for c in calls_in(rv.node) if callee_name(c) == "execute" and c.args]
    need = ["CREATE_OPTIONAL_STEP_TABLE", "CREATE_OPTIONAL_TO_BE_DELETED_TABLE", "UPDATE_OPTIONAL_STEPS", "SELECT_OPTIONAL_TO_BE_DELETED", "UPDATE_OPTIONAL_TO_BE_DELETED"]
    ctx.check(all(n in ex for n in need), rv.fq, "the revert executes all of its statements", f"missing: {[n for n in need if n not in ex]}: {why}", "five statements executed")


def check_outputs_recorded_at_completion(ctx, why: str):
    """Executor.execute_job records the hashes of the outputs of every run that reaches completion — successful, failed
    or deferred alike — before the step is marked completed: a file the command wrote is then known as an output."""
    fi = ctx.prog.func("executor.Executor.execute_job")
    n = 0
    for tr, st in flow.paths_of(fi):
        tr = norm_record_events(ctx.prog, tr)
        mc = [k for k, e in enumerate(tr) if e[0] == "call" and e[1] == "step.mark_completed"]
        if not mc:
            continue
        n += 1
        upd = [k for k, e in enumerate(tr[:mc[0]]) if e[0] == "call" and e[1].endswith("update_file_hashes") and e[2].args and "out" in ast.unparse(e[2].args[0])]
        if not upd:
            tests = [(e[1], e[2]) for e in tr[:mc[0]] if e[0] == "test"][-4:]
            ctx.bad(fi.fq, "the output hashes are recorded on every path that completes the step", f"a path (last tests {tests}) completes the step without recording what the command wrote: {why}", where=ctx.where_of(fi))
            return
    ctx.check(n > 0, fi.fq, "the output hashes are recorded on every path that completes the step", "no completing path found", f"{n} paths")


def check_claims_replaced(ctx):
    """R-C12-7: set_resources replaces the claims of a step: the old rows go, the declared ones come.

    The dispatch predicate sums step_resource rows of RUNNING steps.  Rows of an earlier declaration that stay
    behind keep counting against the pool (or collide with the new rows), rows that are not written let the
    step run outside its declared claim.
    """
    import re

    sr = ctx.prog.func("step.Step.set_resources")
    stmts = ctx.sql.stmts_in(sr.fq)
    dele = [s_ for s_ in stmts if s_.kind == "DELETE" and ("DELETE", "step_resource", None, None) in s_.writes]
    ins = [s_ for s_ in stmts if s_.kind == "INSERT" and any(w[0] == "INSERT" and w[1] == "step_resource" for w in s_.writes)]
    top = {id(st_.value) for st_ in sr.node.body if isinstance(st_, ast.Expr)}
    ctx.check(len(dele) == 1 and id(dele[0].site.call) in top and "node = ?" in re.sub(r"\s+", " ", dele[0].text).replace(" . ", "."), sr.fq, "the step's old claims are deleted unconditionally", "claims of the previous declaration survive a re-declaration", "DELETE FROM step_resource WHERE node = ?", where=ctx.where_of(sr))
    ctx.check(len(ins) == 1 and ins[0].site.lineno > (dele[0].site.lineno if dele else 0), sr.fq, "the declared claims are inserted after the delete", "declared claims are not stored", "INSERT INTO step_resource")
    if dele:
        dt = re.sub(r"\s+", " ", dele[0].text).replace(" . ", ".").strip()
        ctx.check(re.fullmatch(r"DELETE FROM step_resource WHERE node = \?", dt) is not None, sr.fq, "all claims of the step are deleted, not a subset", f"`{dt}` keeps some of the old rows: a claim that is re-declared with more units keeps its old number of units", "WHERE node = ? only")
    if ins:
        it = re.sub(r"\s+", " ", ins[0].text).upper()
        ctx.check("ON CONFLICT" not in it and "OR IGNORE" not in it, sr.fq, "the insert does not defer to an existing row", "an existing row wins over the declared units", "plain INSERT")
    # define_step may reuse the node of a detached step (partial recycle), whose claims are stored per node, not in the step row:
    # the declared claims - and the declared 'none' - are stored unconditionally
    ds = ctx.prog.func("workflow.Workflow.define_step")
    parents = {}
    for n in ast.walk(ds.node):
        for c in ast.iter_child_nodes(n):
            parents[c] = n
    for setter in ("set_resources", "set_env_overrides"):
        cs_ = [c for c in calls_in(ds.node) if callee_name(c) == setter]
        cond = []
        for c in cs_:
            node = c
            while node in parents:
                node = parents[node]
                if isinstance(node, ast.If) and re.search(r"\b(resources|env_overrides)\b", ast.unparse(node.test)):
                    cond.append(ast.unparse(node.test))
        ctx.check(len(cs_) == 1 and not cond, ds.fq, f"{setter}() is called for every new definition, also when nothing is declared", f"calls: {len(cs_)}, guarded by {cond}: a step that is re-declared without {'resources' if setter == 'set_resources' else 'overrides'} on a reused node keeps the ones of its previous definition (it waits for a resource it no longer asks for, or runs in an environment it no longer declares)", "unconditional", where=ctx.where_of(ds))
    callers = sorted({cs.caller.fq for sites in ctx.cg.sites.values() for cs in sites if callee_name(cs.node) == "set_resources"})
    ctx.check({"workflow.Workflow.define_step", "step.Step.after_recycle"} <= set(callers), "step.Step.set_resources", "both declaration paths (new row, full recycle) store the claims", f"callers: {callers}", "define_step and after_recycle")


# A sketch of the repair of F63/F64 (known findings of R-C09-13): the run reports go through helpers that select by the
# node's current state.  Not behaviour-preserving; replayed as a variant by every property with a rule about those calls,
# none of which may alarm on it.
REPAIR_SKETCH_F63 = Variant("run-reports-repaired-through-helpers", "executor.py", lambda t: (t.replace("            self.workflow.update_file_hashes(\n                new_out_hashes,\n                cause=HashUpdateCause.SUCCEEDED if run.success else HashUpdateCause.FAILED,\n            )\n", "            self._record_outputs(\n                new_out_hashes,\n                HashUpdateCause.SUCCEEDED if run.success else HashUpdateCause.FAILED,\n            )\n", 1).replace("    def _record_written_outputs(self, out_hashes: Mapping[str, FileHash]) -> None:\n", "    def _record_outputs(self, out_hashes, cause) -> None:\n        kept = {}\n        for path, file_hash in out_hashes.items():\n            file = self.workflow.find(File, path)\n            if file is not None and file.get_state() in (FileState.PLANNED, FileState.OUTDATED):\n                kept[path] = file_hash\n        self.workflow.update_file_hashes(kept, cause=cause)\n\n    def _record_written_outputs(self, out_hashes: Mapping[str, FileHash]) -> None:\n", 1)) if "                new_out_hashes,\n                cause=HashUpdateCause.SUCCEEDED if run.success" in t else None, "not behaviour-preserving: a sketch of the F63 repair (selection by state in a recording helper, as the F64 repair did for the inputs); every rule, R-C09-13 included, must be silent on it")
