"""C09 — the stored workflow satisfies its invariants after every transaction (structural clauses)."""
from __future__ import annotations

import ast
import re

from ..engine import finite, flow
from ..engine.mutate import Mutant, Variant, in_function, replace_once, sub_once
from ..engine.runner import Rule
from ..engine.source import AnalysisError
from . import C10
from . import C12
from . import shared
from .common import callee_name, calls_in, kwarg, stmts_of

EXPLANATION = (
    "Static analysis of the persistent graph's integrity mechanisms. Catalogue facts (CHECK constraints, RAISE(ABORT) "
    "triggers with their events and WHEN clauses as truth tables over the enums) are compared with the row invariants; "
    "the compiled write effects of all SQL call sites give table ownership (who may write node.creator/detached, "
    "dependency, file.state, step.state, step_hash); detached-flag maintenance, acyclicity check placement and the "
    "state-transition relation are checked per write site on all paths; the _HASH_TRANSITIONS whitelist is compared "
    "with what each producer of hash updates can hand in and with the file table's CHECK constraints. Decides the "
    "per-site structural clauses, not graph-wide invariants after arbitrary operation sequences. "
    'Also: Step.mark_completed reaches outputs through products(File) in both branches (a step that completes while detached still gets its outputs BUILT).'
    ' R-C09-8 every statement that gives a stored node a new creator is dominated by the creator-chain check (or cannot close a cycle); R-C09-9 the primitive setters perform the write they are named after; R-C09-4 the batched cycle check covers exactly the inserted edges.'
    " R-C09-13 every executor site that records hashes with a literal SUCCEEDED/FAILED cause selects them, where it records them, by the node's current state, and the states let through all have a row for the cause (two sites are known findings F63/F64; two of the same shape without a failing history are listed, not judged); R-C09-14 the declared-again mechanism (R-C12-10) as a necessary condition of row integrity."
)
ASSUMPTIONS = [
    "SQLite enforces CHECK constraints and RAISE(ABORT) triggers as documented",
    "invariants that span several rows (succeeded => all outputs built) are only covered by the per-site pairing rules",
]


def _enum_values(e):
    return [m.value for m in e]


def rule_guards(ctx):
    """R-C09-1: row invariants are guarded by CHECK constraints / RAISE triggers on every event that can falsify them."""
    cat = ctx.cat
    FileState, StepState = ctx.prog.enum("FileState"), ctx.prog.enum("StepState")
    # UNDECLARED => detached
    for name, op in (("file_check_undeclared_detached_ins", "INSERT"), ("file_check_undeclared_detached_upd", "UPDATE")):
        tr = cat.triggers.get(name)
        ok = tr is not None and tr.table == "file" and tr.op == op and tr.raises and (op == "INSERT" or "state" in tr.of_cols)
        why = "trigger missing, on another event, or without RAISE(ABORT)"
        if ok:
            tt = cat.truth_table(tr.when, {"NEW.state": _enum_values(FileState)})
            ok = all(bool(v) == (s == FileState.UNDECLARED.value) for (s,), v in tt.items())
            why = "WHEN clause does not select exactly NEW.state = UNDECLARED"
            ok = ok and re.search(r"NOT\s+node\s*\.\s*detached", tr.body, re.I) is not None
        ctx.check(ok, f"trigger {name}", "UNDECLARED file must be detached", why, "RAISE(ABORT) for attached UNDECLARED", event=f"file {op}")
    # creator kinds
    allowed = {"file": {"step", "st", "root"}, "step": {"step", "root"}, "st": {"step"}}
    kinds = ["file", "step", "st", "root"]
    for name, op in (("node_check_creator_kind_ins", "INSERT"), ("node_check_creator_kind_upd", "UPDATE")):
        tr = cat.triggers.get(name)
        ok = tr is not None and tr.table == "node" and tr.op == op and tr.raises and (op == "INSERT" or "creator" in tr.of_cols)
        why = "trigger missing, on another event, or without RAISE(ABORT)"
        if ok:
            m = re.search(r"AND\s+NOT\s*\((.*)\)\s*;?\s*$", tr.body.strip(), re.S | re.I)
            if not m:
                ok, why = False, "cannot locate the kind predicate in the trigger body"
            else:
                tt = cat.truth_table(m.group(1), {"NEW.kind": kinds, "c.kind": kinds})
                wrong = [(nk, ck) for (nk, ck), v in tt.items() if nk != "root" and bool(v) != (ck in allowed.get(nk, set()))]
                ok, why = not wrong, f"allowed (kind, creator kind) pairs differ at {wrong[:3]}"
            tw = cat.truth_table(tr.when, {"NEW.creator": [None, 5], "NEW.kind": kinds})
            ok = ok and all(bool(v) == (c is not None and k != "root") for (c, k), v in tw.items())
        ctx.check(ok, f"trigger {name}", "creator kind rules", why, "file<-step|st|root, step<-step|root, st<-step", event=f"node {op}")
    # dependency kinds
    tr = cat.triggers.get("dependency_check_kinds_ins")
    ok = tr is not None and tr.table == "dependency" and tr.op == "INSERT" and tr.raises and not tr.when
    why = "trigger missing / conditional / without RAISE"
    if ok:
        m = re.search(r"AND\s+NOT\s*\((.*)\)\s*;?\s*$", tr.body.strip(), re.S | re.I)
        if m:
            tt = cat.truth_table(m.group(1), {"s.kind": kinds, "k.kind": kinds})
            good = {("file", "step"), ("step", "file"), ("st", "file")}
            wrong = [p for p, v in tt.items() if bool(v) != (p in good)]
            ok, why = not wrong, f"allowed edge kinds differ at {wrong[:3]}"
        else:
            ok, why = False, "kind predicate not found"
    ctx.check(ok, "trigger dependency_check_kinds_ins", "dependency edges link files with steps (or trees with files)", why, "3 allowed kind pairs", event="dependency INSERT")
    upd = [s for s in ctx.sql.stmts if any(op == "UPDATE" and t == "dependency" for (op, t, c, trig) in s.writes)]
    ctx.check(not upd, "all SQL call sites", "no statement updates dependency rows", f"dependency rows are updated in place by {[s.site.where for s in upd][:3]}: the insert trigger does not guard updates", "edges are only inserted or deleted")
    updk = [s for s in ctx.sql.stmts if any(op == "UPDATE" and t == "node" and c in ("kind", "label", "i") for (op, t, c, trig) in s.writes)]
    ctx.check(not updk, "all SQL call sites", "node.kind / node.label / node.i are never updated", f"updated by {[s.site.where for s in updk][:3]}", "immutable identity columns")
    # CHECK constraints
    step = cat.tables["step"]
    file = cat.tables["file"]
    node = cat.tables["node"]

    def has_check(table, dom, expect, what):
        for chk in table.checks:
            try:
                tt = cat.truth_table(chk, dom)
            except AnalysisError:
                continue
            if all((v is None or bool(v)) == bool(expect(dict(zip(dom, p)))) for p, v in tt.items()) and any(v is not None and not v for v in tt.values()):
                return True
        return False

    ok = has_check(step, {"deferred": [0, 1], "state": _enum_values(StepState)}, lambda p: (not p["deferred"]) or p["state"] == StepState.PENDING.value, "")
    ctx.check(ok, "step.STEP_SCHEMA", "CHECK deferred => PENDING", "no CHECK constraint with the truth table (NOT deferred OR state = PENDING)", "CHECK present")
    ok = has_check(step, {"_safe_ignoring_hold": [0, 1], "_safe": [0, 1]}, lambda p: p["_safe_ignoring_hold"] >= p["_safe"], "")
    ctx.check(ok, "step.STEP_SCHEMA", "CHECK _safe_ignoring_hold >= _safe", "no such CHECK constraint", "CHECK present")
    need_hash = {FileState.CONFIRMED.value, FileState.BUILT.value, FileState.OUTDATED.value}
    ok = has_check(file, {"state": _enum_values(FileState), "hash": [None, "{}"]}, lambda p: p["state"] not in need_hash or p["hash"] is not None, "")
    ctx.check(ok, "file.FILE_SCHEMA", "CHECK CONFIRMED/BUILT/OUTDATED => hash present", "no CHECK constraint with that truth table", "CHECK present")
    ok = has_check(file, {"state": list(range(min(_enum_values(FileState)) - 1, max(_enum_values(FileState)) + 2))}, lambda p: min(_enum_values(FileState)) <= p["state"] <= max(_enum_values(FileState)), "")
    ctx.check(ok, "file.FILE_SCHEMA", "CHECK state within FileState range", "no range CHECK on file.state", "CHECK present")
    ok = has_check(step, {"state": list(range(min(_enum_values(StepState)) - 1, max(_enum_values(StepState)) + 2))}, lambda p: min(_enum_values(StepState)) <= p["state"] <= max(_enum_values(StepState)), "")
    ctx.check(ok, "step.STEP_SCHEMA", "CHECK state within StepState range", "no range CHECK on step.state", "CHECK present")
    ok = has_check(node, {"kind": ["root", "file"], "creator": [None, 7], "detached": [0, 1]}, lambda p: p["kind"] == "root" or p["creator"] is not None or p["detached"], "")
    ctx.check(ok, "trellis.TRELLIS_SCHEMA", "CHECK creator NULL => detached", "no CHECK (kind = 'root' OR creator IS NOT NULL OR detached)", "CHECK present")
    ok = has_check(node, {"kind": ["root", "file"], "detached": [0, 1]}, lambda p: p["kind"] != "root" or not p["detached"], "")
    ctx.check(ok, "trellis.TRELLIS_SCHEMA", "CHECK root never detached", "no such CHECK", "CHECK present")
    # FK and connection pragma
    fks = {(t.name, f[0], f[1]) for t in cat.tables.values() for f in t.fks}
    need = {("node", "creator", "node"), ("dependency", "source", "node"), ("dependency", "sink", "node"), ("file", "node", "node"), ("step", "node", "node"), ("step_hash", "node", "node"), ("dynamic_dep", "i", "dependency")}
    ctx.check(need <= fks, "schema", "foreign keys of the graph tables", f"missing foreign keys {sorted(need - fks)}", f"{len(need)} foreign keys")
    uniq = [i for i in cat.indexes.values() if i.table == "node" and i.unique and [c[0] for c in i.columns] == ["kind", "label"]]
    ctx.check(bool(uniq), "trellis.TRELLIS_SCHEMA", "UNIQUE (kind, label)", "no unique index on node(kind, label)", "unique index")
    uq = [i for i in cat.indexes.values() if i.table == "dependency" and i.unique and [c[0] for c in i.columns] == ["source", "sink"]]
    ctx.check(bool(uq), "trellis.TRELLIS_SCHEMA", "UNIQUE (source, sink)", "dependency edges are not unique", "unique")


OWNERS = {
    ("node", "creator"): {"trellis.Node.detach", "trellis.Node.reattach", "trellis.Trellis.create", "workflow.Workflow.register_static_tree"},
    ("node", "detached"): {"trellis.Node.detach", "trellis.Node.reattach", "trellis.Trellis.create"},
    ("node", "INSERT"): {"trellis.Trellis.create"},
    ("node", "DELETE"): {"trellis.Trellis.delete_detached"},
    ("dependency", "INSERT"): {"trellis.Node.add_source"},
    ("dependency", "DELETE"): {"trellis.Node.del_sources", "trellis.Node.del_all_sources"},
    ("dynamic_dep", "INSERT"): {"workflow.Workflow.amend_step"},
    ("file", "state"): {"file.File.set_state", "file.File.initialize_row", "workflow.Workflow.update_file_hashes", "finalize.revert_optional_steps"},
    ("file", "hash"): {"workflow.Workflow.update_file_hashes", "finalize.revert_optional_steps"},
    ("file", "INSERT"): {"file.File.initialize_row"},
    ("step", "state"): {"step.Step.set_state", "startup.reset_interrupted_steps", "finalize.revert_optional_steps"},
    ("step", "deferred"): {"step.Step.set_state", "step.Step.reset_for_rerun"},
    ("step", "INSERT"): {"step.Step.initialize_row"},
    ("step", "DELETE"): {"step.Step.initialize_row"},
    ("step_hash", "INSERT"): {"step.Step.set_hash"},
    ("step_hash", "DELETE"): {"step.Step.delete_hash"},
    ("nglob", "INSERT"): {"step.Step.add_nglob"},
    ("nglob", "data"): {"workflow.Workflow.persist_nglob_matches"},
    ("env_var", "INSERT"): {"step.Step.add_env_deps", "step.Step.amend_env_deps"},
}


def rule_ownership(ctx):
    """R-C09-2: only the owning functions write the graph tables (direct writes, not via triggers/cascades)."""
    model = ctx.sql
    if model.failing() or model.unresolved:
        bad = (model.failing() or [None])[0]
        raise AnalysisError(f"SQL census incomplete: {bad.site.where if bad else model.unresolved[0].where}")
    actual = {}
    for st in model.stmts:
        fq = st.site.func.fq.split(".<locals>.")[0]
        for (op, t, c, trig) in st.writes:
            if trig is not None:
                continue
            key = (t, c if op == "UPDATE" else op)
            if key in OWNERS:
                actual.setdefault(key, {}).setdefault(fq, st)
    for key, owners in sorted(OWNERS.items()):
        found = actual.get(key, {})
        for fq, st in sorted(found.items()):
            ctx.check(fq in owners, fq, f"writes {key[0]}.{key[1]}", f"new writer of {key[0]}.{key[1]} outside the owning functions {sorted(owners)}: {re.sub(chr(10), ' ', st.text)[:120]}", "owner", where=f"stepup/core/{st.site.func.module.path.name}:{st.site.lineno}")
        if not found:
            raise AnalysisError(f"no writer of {key} found: ownership table is stale")


def rule_detached_maintenance(ctx):
    """R-C09-3: a write of node.creator/detached is followed by the recursive flag update (or product detach)."""
    for fq in ("trellis.Node.detach", "trellis.Node.reattach"):
        fi = ctx.prog.func(fq)
        paths = flow.paths_of(fi)
        n = 0
        for tr, st in paths:
            for i, e in enumerate(tr):
                if e[0] == "call" and e[1].endswith("db.execute") and e[2].args and "UPDATE node SET creator" in ast.unparse(e[2].args[0]):
                    n += 1
                    after = [x for x in tr[i + 1:] if x[0] == "call" and x[1].endswith("db.execute") and x[2].args and ast.unparse(x[2].args[0]) == "RECURSIVELY_SET_DETACHED"]
                    tests = [(x[1], x[2]) for x in tr[:] if x[0] == "test"]
                    unchanged = fq.endswith("detach") and (("detached", True) in tests or ("not detached", False) in tests)  # already detached: flag does not change
                    raised = st == "raise"
                    ctx.check(bool(after) or unchanged or raised, fq, "creator/detached write is followed by RECURSIVELY_SET_DETACHED",
                              "node.creator/detached written without propagating the flag to the products: detached <=> unreachable breaks", "propagated" if after else "flag provably unchanged (already detached)" if unchanged else "raises", where=ctx.where_of(fi, e[2]))
        if n == 0:
            raise AnalysisError(f"{fq} no longer writes node.creator")
    rsd = ctx.prog.fold("trellis", "RECURSIVELY_SET_DETACHED")
    w = ctx.cat.writes(rsd)
    ctx.check(("UPDATE", "node", "detached", None) in w and "WITH RECURSIVE" in rsd.upper().replace("\n", " "), "trellis.RECURSIVELY_SET_DETACHED", "recursive update of node.detached over creator edges", f"writes {sorted(w, key=str)[:3]}", "recursive CTE over creator")
    # Trellis.create recycle branch: products are detached
    fi = ctx.prog.func("trellis.Trellis.create")
    ok = False
    for n in ast.walk(fi.node):
        if isinstance(n, ast.For) and "products" in ast.unparse(n.iter) and any(callee_name(c) == "detach" for c in calls_in(n)):
            ok = True
    ctx.check(ok, fi.fq, "recycled node's products are detached", "Trellis.create re-parents a node without detaching its old products", "for product in node.products(): product.detach()")
    det = [n for n in ast.walk(fi.node) if isinstance(n, ast.Assign) and ast.unparse(n.targets[0]) == "detached"]
    ok2 = all(ast.unparse(a.value) in ("True", "creator.is_detached()", "True if creator is None else creator.is_detached()") for a in det) and bool(det)
    ctx.check(ok2, fi.fq, "a new node inherits its creator's detached flag", f"detached computed as {[ast.unparse(a.value) for a in det]}", "True for creator None else creator.is_detached()")
    # register_static_tree hand-over: same attachedness (both attached)
    fi = ctx.prog.func("workflow.Workflow.register_static_tree")
    src = ast.unparse(fi.node)
    ok = "NOT node.detached" in src and "UPDATE node SET creator = ? WHERE i = ?" in src
    ctx.check(ok, fi.fq, "hand-over only re-parents attached files to the (attached) new tree", "hand-over query no longer restricted to attached rows", "attached rows only")


def rule_creator_forest(ctx):
    """R-C09-8: creator links stay a forest: every statement that gives a stored node a new non-NULL creator is dominated by the chain check."""
    model = ctx.sql
    try:
        chk = ctx.prog.func("trellis.Node.check_creator_acyclic")
    except AnalysisError:
        chk = None
    ctx.check(chk is not None, "trellis.Node", "a creator-chain check exists", "Node has no check_creator_acyclic: nothing stops a node from being re-created by one of its own products", "present")
    if chk is not None:
        _creator_check_shape(ctx, chk)
    _creator_writers(ctx, model)


def _creator_check_shape(ctx, chk):
    # (a) the check itself: walks creator links upward from the new creator, terminates, and raises a usage error when it meets self
    consts = [ast.unparse(c.args[0]) for c in calls_in(chk.node) if callee_name(c) == "execute" and c.args]
    ctx.check(len(consts) == 1, chk.fq, "runs one query", f"runs {len(consts)} queries", "one query")
    if len(consts) != 1:
        raise AnalysisError(f"{chk.fq}: query not found")
    text = ctx.prog.fold("trellis", consts[0]) if consts[0].isidentifier() else None
    if text is None:
        raise AnalysisError(f"{chk.fq}: query is not a module constant")
    flat = re.sub(r"\s+", " ", text.upper())
    reads = ctx.cat.reads(text)
    ctx.check("WITH RECURSIVE" in flat and ("node", "creator") in reads, chk.fq, "recursive walk over node.creator", f"reads {sorted(reads)[:4]}", "recursive over creator links")
    ctx.check("UNION ALL" not in flat and " UNION " in flat, chk.fq, "the walk uses UNION, so it ends on any stored graph", "UNION ALL: a stored creator cycle makes the check itself spin", "UNION")
    call = [c for c in calls_in(chk.node) if callee_name(c) == "execute"][0]
    seed = ast.unparse(call.args[1]) if len(call.args) > 1 else ""
    params = [a.arg for a in chk.node.args.args]
    ctx.check(len(params) == 2 and re.fullmatch(rf"\({params[1]}\.i,\)", seed) is not None, chk.fq, "the walk starts at the new creator", f"the walk is seeded with {seed}: starting from the node itself looks for the creator among its ancestors, which is the wrong direction", "seeded with the new creator")
    raises = [n for n in ast.walk(chk.node) if isinstance(n, ast.Raise) and n.exc is not None]
    names = {callee_name(r.exc) if isinstance(r.exc, ast.Call) else ast.unparse(r.exc) for r in raises}
    usage = set()
    for nm in names:
        try:
            ci = ctx.prog.cls(f"exceptions.{nm}")
        except AnalysisError:
            continue
        if any(c.name == "UsageError" for c in ctx.prog.mro(ci)):
            usage.add(nm)
    ctx.check(bool(names) and names == usage, chk.fq, "a closing cycle is refused with a usage error", f"raises {sorted(names)}", f"raises {sorted(usage)}")
    tests = [_norm_src(n.test) for n in ast.walk(chk.node) if isinstance(n, ast.If)] + [_norm_src(g) for n in ast.walk(chk.node) if isinstance(n, ast.comprehension) for g in [n.iter]]
    ctx.check("self.i" in ast.unparse(chk.node), chk.fq, "compares the chain with this node", "self.i no longer consulted", "self.i in chain")


def _creator_writers(ctx, model):
    # (b) every writer of a non-NULL node.creator on an existing row
    n_sites = 0
    for st in model.stmts:
        fq = st.site.func.fq.split(".<locals>.")[0]
        w = [x for x in st.writes if x[3] is None and x[1] == "node" and ((x[0] == "UPDATE" and x[2] == "creator"))]
        if not w:
            continue
        flat_st = re.sub(r"\s+", " ", st.text)
        if re.search(r"SET creator = NULL", flat_st, re.I):
            ctx.ok(fq, "sets creator to NULL", "cannot close a cycle", where=f"stepup/core/{st.site.func.module.path.name}:{st.site.lineno}")
            n_sites += 1
            continue
        n_sites += 1
        fi = ctx.prog.func(fq)
        if fq == "workflow.Workflow.register_static_tree":
            # hand-over re-parents file rows under the tree node: files create nothing
            ok = re.search(r"kind\s*=\s*'file'|JOIN file\b|FROM file\b", ast.unparse(fi.node)) is not None
            ctx.check(ok, fq, "hand-over re-parents file nodes only (files have no products)", "the hand-over query is no longer restricted to file nodes", "file rows only", where=f"stepup/core/{st.site.func.module.path.name}:{st.site.lineno}")
            continue
        found = 0
        for cre_none in (True, False):
            ov = {"creator is None": cre_none, "creator is not None": not cre_none}
            for tr, status in finite.feasible_paths(ctx.prog, fi, {}, ov):
                for i, e in enumerate(tr):
                    if e[0] == "call" and e[1].endswith("db.execute") and e[2].args and "UPDATE node SET creator = ?" in ast.unparse(e[2].args[0]):
                        found += 1
                        pre_tests = [(x[1], x[2]) for x in tr[:i] if x[0] == "test"]
                        null = ("creator is None", True) in pre_tests or ("creator is not None", False) in pre_tests
                        checked = any(x[0] == "call" and x[1].split(".")[-1] == "check_creator_acyclic" for x in tr[:i])
                        if not checked and not null:
                            # Trellis.create: the node's own products are cut loose afterwards, so only the node itself must be excluded
                            not_self = any(t in pre_tests for t in (("creator is not None and creator.i == node.i", False), ("creator.i == node.i", False), ("creator is node", False), ("node.i == creator.i", False)))
                            cut = _loops_detach_products(fi) and (status == "raise" or any(x[0] == "loop" and "products()" in str(x[1]) for x in tr[i:]))
                            checked = not_self and cut
                        ctx.check(checked or null, fq, "a stored node gets a new creator only after the creator-chain check", "node.creator is rewritten without checking that the new creator is not the node itself or one of its products: a detached running step that (re)defines itself or its creator closes a creator cycle (IntegrityError, or a recursive query that never returns)", "checked" if checked else "creator is NULL on this path", where=ctx.where_of(fi, e[2]))
        if found == 0:
            raise AnalysisError(f"{fq}: writer of node.creator not found on any path")
    if n_sites < 4:
        raise AnalysisError(f"only {n_sites} writers of node.creator found")


def _loops_detach_products(fi):
    """A `for product in <node>.products(): product.detach()` loop (the path enumerator follows a loop zero or one time)."""
    for n in ast.walk(fi.node):
        if isinstance(n, ast.For) and "products()" in ast.unparse(n.iter) and any(callee_name(c) == "detach" for c in calls_in(n)):
            return True
    return False


def _norm_src(n):
    return re.sub(r"\s+", " ", ast.unparse(n))


def rule_acyclic(ctx):
    """R-C09-4."""
    fi = ctx.prog.func("trellis.Node.add_source")
    a = fi.node.args
    dflt = dict(zip([x.arg for x in (a.posonlyargs + a.args)[-len(a.defaults):]], a.defaults)) if a.defaults else {}
    ok = "skip_cycle_check" in dflt and isinstance(dflt["skip_cycle_check"], ast.Constant) and dflt["skip_cycle_check"].value is False
    ctx.check(ok, fi.fq, "cycle check is on by default", "skip_cycle_check defaults to something other than False", "default False")
    paths = flow.paths_of(fi)
    bad = 0
    for tr, st in paths:
        for i, e in enumerate(tr):
            if e[0] == "call" and e[1].endswith("db.execute") and e[2].args and "INSERT INTO dependency" in ast.unparse(e[2].args[0]):
                tests = [(x[1], x[2]) for x in tr[:i] if x[0] == "test"]
                skipped = ("skip_cycle_check", True) in tests
                checked = any(x[0] == "call" and x[1].endswith("db.execute") and x[2].args and "SELECT_CYCLIC" in ast.unparse(x[2].args[0]) for x in tr[:i]) and ("cur.fetchone()[0] > 0", False) in tests
                if not (skipped or checked):
                    bad += 1
    ctx.check(bad == 0, fi.fq, "insert is preceded by the cycle query unless explicitly skipped", f"{bad} path(s) insert an edge without the cycle check", "checked on all paths")
    n = 0
    for caller, sites in ctx.cg.sites.items():
        for cs in sites:
            if callee_name(cs.node) != "add_source":
                continue
            k = kwarg(cs.node, "skip_cycle_check")
            if k is None and len(cs.node.args) < 2:
                n += 1
                ctx.ok(caller, "add_source(...) with cycle check", "default check", where=ctx.where_of(cs.caller, cs.node))
                continue
            n += 1
            fi2 = cs.caller
            val = ast.unparse(k) if k is not None else ast.unparse(cs.node.args[1])
            # dominated by check_sources_acyclic on the same sink over a superset of the sources
            pre = [c for c in calls_in(fi2.node) if callee_name(c) == "check_sources_acyclic" and c.lineno < cs.node.lineno]
            recv = ast.unparse(cs.node.func.value)
            ok = False
            why = "no preceding check_sources_acyclic on the same sink"
            for c in pre:
                if ast.unparse(c.func.value) == recv and c.args and isinstance(c.args[0], ast.Name):
                    lst = c.args[0].id
                    # new_file_is = [file.i for file, _, _, new_relation in resolved if new_relation]
                    asg = [s for s in stmts_of(fi2) if isinstance(s, ast.Assign) and ast.unparse(s.targets[0]) == lst]
                    # the batch must cover every edge that is inserted: its filter is exactly the insertion condition
                    # (a narrower filter, e.g. `new_relation and not detached`, leaves inserted edges unchecked)
                    guard_ok = any(isinstance(s.value, ast.ListComp) and len(s.value.generators) == 1 and [ast.unparse(i) for i in s.value.generators[0].ifs] in ([], ["new_relation"]) for s in asg)
                    cond_ok = "if new_relation else None" in ast.unparse(cs.node).replace("(", "").replace(")", "") or "if new_relation" in ast.unparse(_enclosing_ifexp(fi2.node, cs.node) or cs.node)
                    ok = guard_ok and cond_ok
                    why = f"check over {lst} (filter on new_relation: {guard_ok}); edge inserted only when new_relation: {cond_ok}"
            ctx.check(ok, caller, f"add_source(..., skip_cycle_check={val})", f"cycle check skipped without a covering batch check: {why}", why, where=ctx.where_of(fi2, cs.node))
    if n < 3:
        raise AnalysisError("add_source call sites not found")


def _enclosing_ifexp(root, node):
    for n in ast.walk(root):
        if isinstance(n, ast.IfExp) and any(c is node for c in ast.walk(n.body)):
            return n
    return None


def _guard_tests(tr, i):
    return [(x[1], x[2]) for x in tr[:i] if x[0] == "test"]


def rule_transitions(ctx):
    """R-C09-5: state-transition relation at the write sites."""
    shared.check_completion_iterates_products(ctx, "outputs of a step that completes while detached keep OUTDATED although the step is SUCCEEDED (a succeeded step has all its outputs built)")
    # file.set_state(OUTDATED) only under == BUILT ; set_state(BUILT) only under == OUTDATED
    n = 0
    for fq in ("workflow.Workflow.mark_file_outdated", "step.Step.mark_completed"):
        fi = ctx.prog.func(fq)
        for tr, st in flow.paths_of(fi):
            for i, e in enumerate(tr):
                if e[0] == "call" and e[1].endswith("set_state") and e[2].args:
                    arg = ast.unparse(e[2].args[0])
                    tests = _guard_tests(tr, i)
                    if arg == "FileState.OUTDATED":
                        n += 1
                        ok = any(t.replace("file.get_state()", "state") == "state == FileState.BUILT" and v for t, v in tests)
                        ctx.check(ok, fq, "set_state(OUTDATED) only from BUILT", "a file is made OUTDATED from a state other than BUILT", "guarded by == BUILT", where=ctx.where_of(fi, e[2]))
                    elif arg == "FileState.BUILT":
                        n += 1
                        ok = any(t == "file.get_state() == FileState.OUTDATED" and v for t, v in tests) and ("new_hash is None", False) in tests
                        ctx.check(ok, fq, "set_state(BUILT) only from OUTDATED on the success branch", "a file is made BUILT outside the success branch or from another state", "guarded", where=ctx.where_of(fi, e[2]))
    if n < 3:
        raise AnalysisError("file state write sites not found")
    # step states: who writes which constant
    table = {}
    for caller, sites in ctx.cg.sites.items():
        for cs in sites:
            if callee_name(cs.node) == "set_state" and cs.node.args and ast.unparse(cs.node.args[0]).startswith("StepState."):
                table.setdefault(ast.unparse(cs.node.args[0]), set()).add(caller.split(".<locals>.")[0])
            elif callee_name(cs.node) == "set_state" and cs.node.args and isinstance(cs.node.args[0], ast.Name) and caller.startswith("scheduler."):
                table.setdefault(f"<{cs.node.args[0].id}>", set()).add(caller)
    expect = {
        "StepState.SUCCEEDED": {"step.Step.mark_completed"},
        "StepState.FAILED": {"step.Step.mark_completed"},
        "StepState.PENDING": {"step.Step.mark_completed", "workflow.Workflow.mark_step_pending", "executor.Executor._reset_step_to_pending", "executor.Executor.validate_dynamic_job", "executor.Executor._restart_if_declared_again", "executor.Executor._drop_verdict_if_declared_again"},
        "<state>": {"scheduler.Scheduler.pop_next_job"},
    }
    for const, owners in expect.items():
        got = table.get(const, set())
        for g in sorted(got):
            ctx.check(g in owners, g, f"step.set_state({const})", f"{const} is written outside {sorted(owners)}", "documented writer")
        if not got:
            raise AnalysisError(f"no writer of {const}")
    for const in table:
        if const in ("StepState.RUNNING", "StepState.CHECKING"):
            for g in sorted(table[const]):
                ctx.bad(g, f"step.set_state({const})", "RUNNING/CHECKING may only be written by dispatch (pop_next_job with the state chosen by _get_next_step)")
    g = ctx.prog.func("scheduler.Scheduler._get_next_step")
    src = ast.unparse(g.node)
    ctx.check("StepState.CHECKING if has_hash else StepState.RUNNING" in src, g.fq, "CHECKING iff the selected row has a stored hash", "dispatch state no longer chosen by _has_hash", "CHECKING if has_hash else RUNNING")
    # SUCCEEDED always together with set_hash; failure branch deletes the hash
    mc = ctx.prog.func("step.Step.mark_completed")
    for tr, st in flow.paths_of(mc):
        calls = [(x[1], ast.unparse(x[2])) for x in tr if x[0] == "call"]
        succ = any(c[0] == "self.set_state" and "SUCCEEDED" in c[1] for c in calls)
        sethash = any(c[0] == "self.set_hash" for c in calls)
        delhash = any(c[0] == "self.delete_hash" for c in calls)
        none = ("new_hash is None", True) in [(x[1], x[2]) for x in tr if x[0] == "test"]
        if succ or not none:
            ctx.check(succ and sethash and not delhash, mc.fq, "SUCCEEDED is written together with set_hash", "a step becomes SUCCEEDED without its hash being stored (or the hash is stored for a non-succeeded step)", "paired")
        else:
            ctx.check(delhash and not sethash and not succ, mc.fq, "unsuccessful completion deletes the hash", "an unsuccessful step keeps a stored hash: it would be skipped later", "delete_hash on the failure branch")
    # delete_hash pairing: other sites
    shared.check_after_recycle_repends(ctx, "after_recycle keeps a SUCCEEDED step that lost its hash while detached (it is never run again), or keeps a FAILED one")
    alp = ctx.prog.func("step.Step.after_lost_product")
    src = ast.unparse(alp.node)
    ok = "self.delete_hash()" in src and re.search(r"creator\.after_lost_product\(\)", src) is not None and "creator_detached" in src
    ctx.check(ok, alp.fq, "lost product invalidates the step and its detached creator chain", "after_lost_product does not pass the invalidation on to the detached creator", "delete_hash + creator chain")
    rsp = ctx.prog.func("executor.Executor._reset_step_to_pending")
    names = [callee_name(c) for c in calls_in(rsp.node)]
    ok = names[:3] == ["reset_for_rerun", "delete_hash", "set_state"] or {"reset_for_rerun", "delete_hash", "set_state"} <= set(names)
    reg = all(flow.region_of(tr, i, lambda s: s.split(".")[-1] == "db") is not None for tr, st in flow.paths_of(rsp) for i in flow.calls(tr, flow.call_named("delete_hash", "set_state", "reset_for_rerun")))
    ctx.check(ok and reg, rsp.fq, "hash deletion and PENDING in one transaction", "delete_hash without set_state(PENDING) in the same region", "one region")
    png = ctx.prog.func("workflow.Workflow.persist_nglob_matches")
    names = [callee_name(c) for c in calls_in(png.node)]
    ctx.check("delete_hash" in names and "mark_step_pending" in names, png.fq, "glob change drops the hash and re-pends the step", "persist_nglob_matches no longer does both", "both")
    # reset_interrupted_steps bound parameters
    StepState = ctx.prog.enum("StepState")
    pairs = set()
    for s in ctx.sql.census.sites_in("startup.reset_interrupted_steps"):
        for p in s.params:
            if isinstance(p, tuple) and len(p) == 2:
                pairs.add(p)
    exp = {(StepState.FAILED.value, StepState.RUNNING.value), (StepState.PENDING.value, StepState.CHECKING.value)}
    ctx.check(pairs == exp, "startup.reset_interrupted_steps", "RUNNING->FAILED, CHECKING->PENDING", f"raw state updates are {sorted(pairs)}", "documented recovery transitions")


HASHLESS = ("MISSING", "PLANNED", "VOLATILE", "UNDECLARED", "UNCONFIRMED")


def rule_whitelist(ctx):
    """R-C09-6 / R-C09-8: the hash-transition whitelist covers its producers and respects the row constraints."""
    FS, HC = ctx.prog.enum("FileState"), ctx.prog.enum("HashUpdateCause")
    ht = ctx.prog.fold("workflow", "_HASH_TRANSITIONS")
    keys = {(k[0].name, k[1].name, k[2]) for k in ht}
    # producers (DESIGN.md appendix A.1): cause -> states x known that can be handed in
    required = {
        ("rescan_files / watcher (attached, relevant states)", "EXTERNAL"): [(s, True) for s in ("MISSING", "CONFIRMED", "BUILT", "OUTDATED", "UNCONFIRMED")] + [(s, False) for s in ("CONFIRMED", "BUILT", "OUTDATED", "UNCONFIRMED")],
        ("declare/define/amend/boot confirmation", "CONFIRMED"): [("UNCONFIRMED", True), ("UNCONFIRMED", False), ("CONFIRMED", True), ("CONFIRMED", False), ("MISSING", True), ("MISSING", False)],
        ("try_skip_job / execute_job outputs on success", "SUCCEEDED"): [("PLANNED", True), ("OUTDATED", True)],
        ("execute_job outputs on failure", "FAILED"): [("PLANNED", True), ("PLANNED", False), ("OUTDATED", True), ("OUTDATED", False)],
        ("_new_run / _classify_execution inputs", "FAILED "): [("BUILT", True), ("BUILT", False), ("CONFIRMED", True), ("CONFIRMED", False)],
    }
    for (producer, cause), combos in required.items():
        cause = cause.strip()
        for st, known in combos:
            ctx.check((cause, st, known) in keys, "workflow._HASH_TRANSITIONS", f"({cause}, {st}, hash_known={known}) for {producer}",
                      "combination a producer can hand in has no row: update_file_hashes raises ConsistencyError", "row present")
    # (cause, state, False) for a hash-less state under EXTERNAL is never applied (unchanged result), see R-C04-2
    rj = ctx.prog.func("executor.Executor._run_hash_job")
    guard = any(isinstance(n, ast.If) and re.sub(r"\s+", " ", ast.unparse(n.test)) == "new_hash != hash_job.old_hash or hash_job.cause == HashUpdateCause.CONFIRMED" and any(callee_name(c) == "update_file_hashes" for c in calls_in(n)) for n in ast.walk(rj.node))
    ctx.check(guard, rj.fq, "unchanged results are applied only for the CONFIRMED cause", "hash jobs apply unchanged results: (EXTERNAL, MISSING, unknown) and similar combinations would reach the whitelist", "guarded")
    # R-C09-8
    need_hash = {"CONFIRMED", "BUILT", "OUTDATED"}
    for k, v in ht.items():
        new_state = v[0].name
        if new_state in need_hash:
            ctx.check(k[2] is True, "workflow._HASH_TRANSITIONS", f"{k[0].name},{k[1].name},{k[2]} -> {new_state}", "a transition to a state that requires a hash is keyed on hash_known=False: the bulk UPDATE aborts on the file table's CHECK", "hash known")
    tr = ctx.cat.triggers.get("file_clear_hash")
    if tr is None:
        raise AnalysisError("trigger file_clear_hash not found")
    tt = ctx.cat.truth_table(tr.when, {"NEW.state": _enum_values(FS), "OLD.state": _enum_values(FS), "NEW.hash": ["{}"]})
    cleared = {FS(ns).name for (ns, os_, h), v in tt.items() if v}
    ctx.check(not (cleared & need_hash), "file.FILE_SCHEMA", "file_clear_hash never nulls a hash the CHECK requires", f"trigger nulls the hash for {sorted(cleared & need_hash)}", f"clears for {sorted(cleared)}")
    ctx.check({"MISSING", "PLANNED", "VOLATILE"} <= cleared, "file.FILE_SCHEMA", "file_clear_hash clears MISSING/PLANNED/VOLATILE", f"hash survives in {sorted({'MISSING', 'PLANNED', 'VOLATILE'} - cleared)}", "cleared")
    actions = {v[1] for v in ht.values()}
    ufh = ctx.prog.func("workflow.Workflow.update_file_hashes")
    src = ast.unparse(ufh.node)
    handled = {a for a in ("updated", "deleted", "completed") if f"action_lists['{a}']" in src}
    ctx.check(actions - {None} <= handled, ufh.fq, "every action tag of the table has a handler loop", f"tags without handler: {sorted(a for a in actions - {None} if a not in handled)}", f"{sorted(handled)}")
    ctx.check("raise_unexpected" in src and "_HASH_TRANSITIONS.get(" in src, ufh.fq, "a missing key raises instead of guessing", "missing transitions are no longer rejected", "raise_unexpected")
    # watcher: states filtered by the cause it applies
    gfh = ctx.prog.func("workflow.Workflow.get_file_hashes")
    src = re.sub(r"\s+", " ", ast.unparse(gfh.node))
    ok = "for c, state, _ in _HASH_TRANSITIONS if c == cause" in src and "file.state IN" in src
    ctx.check(ok, gfh.fq, "cause filter derives its states from the whitelist keys", "get_file_hashes(cause=...) no longer restricts to states with a row for that cause", "derived from _HASH_TRANSITIONS")
    w = ctx.prog.func("watcher.Watcher.run_once")
    gcalls = [c for c in calls_in(w.node) if callee_name(c) == "get_file_hashes"]
    ok = bool(gcalls) and all(kwarg(c, "cause") is not None and ast.unparse(kwarg(c, "cause")) == "HashUpdateCause.EXTERNAL" for c in gcalls)
    causes = {ast.unparse(n) for n in ast.walk(w.node) if isinstance(n, ast.Attribute) and isinstance(n.value, ast.Name) and n.value.id == "HashUpdateCause"}
    ctx.check(ok and causes == {"HashUpdateCause.EXTERNAL"}, w.fq, "watcher selects only rows with an EXTERNAL transition and applies EXTERNAL",
              "the watcher feeds rows in states without an EXTERNAL row (e.g. detached UNDECLARED matching a glob) to update_file_hashes: ConsistencyError kills the director", "cause=EXTERNAL on both sides", where=ctx.where_of(w))
    # rescan_files: selected states and cause choice
    FSv = {s.name: s.value for s in FS}
    rs = ctx.sql.census.sites_in("startup.rescan_files")
    excl = set()
    for s in rs:
        for p in s.params:
            if isinstance(p, tuple):
                excl |= set(p)
    # closure under a second report: several steps that were dispatched together can report the same input under the
    # FAILED cause one after the other (there are awaits between dispatch and report), so the state the first report
    # leaves behind must have rows of its own
    trans0 = ctx.prog.fold("workflow", "_HASH_TRANSITIONS")
    HC0 = ctx.prog.enum("HashUpdateCause")
    have0 = {(c, st_, k) for (c, st_, k) in trans0}
    missing_rows = sorted({(new_state.name, k2) for (c, st_, k), (new_state, _a) in trans0.items() if c == HC0.FAILED for k2 in (True, False) if (HC0.FAILED, new_state, k2) not in have0})
    ctx.check(not missing_rows, "workflow._HASH_TRANSITIONS", "the FAILED rows are closed under a second report of the same file",
              f"no row for (FAILED, state, on disk) = {missing_rows}: when two steps that run together both notice the change of a shared input, the second report finds a state without a transition, update_file_hashes raises ConsistencyError and the director dies", "closed")
    # every state the rescan hands in has a transition row for the cause it is handed in with
    trans = ctx.prog.fold("workflow", "_HASH_TRANSITIONS")
    HC = ctx.prog.enum("HashUpdateCause")
    have = {(c, st_) for (c, st_, _chg) in trans}
    attached_only = any(re.search(r"\bNOT\s+(node\s*\.\s*)?detached\b", t) for s_ in rs for t in s_.full_texts())
    # an UNDECLARED node is always detached (trigger file_check_undeclared_detached_*)
    selected = [m for m in FS if m.value not in excl and not (attached_only and m == FS.UNDECLARED)]
    bad = [m.name for m in selected if ((HC.CONFIRMED if m == FS.UNCONFIRMED else HC.EXTERNAL), m) not in have]
    ctx.check(bool(excl) and not bad, "startup.rescan_files", "every state handed to the startup rescan has a transition for its cause", f"states {bad} have no row in _HASH_TRANSITIONS for the cause rescan_files uses: update_file_hashes raises ConsistencyError and the director dies at startup", f"selected {sorted(m.name for m in selected)}")
    rf = ctx.prog.func("startup.rescan_files")
    src = re.sub(r"\s+", " ", ast.unparse(rf.node))
    ok = "HashUpdateCause.CONFIRMED if FileState(state) == FileState.UNCONFIRMED else HashUpdateCause.EXTERNAL" in src
    ctx.check(ok, rf.fq, "stray UNCONFIRMED rows use the CONFIRMED cause", "cause selection changed", "CONFIRMED iff UNCONFIRMED")


def rule_consistency_check(ctx):
    """R-C09-7 (reduced): the open-time consistency check covers reachability and is not skippable."""
    t = ctx.prog.func("trellis.Trellis._check_consistency")
    src = ast.unparse(t.node)
    ctx.check("CHECK_DETACHED_REACHABILITY" in src and "validate_row" in src, t.fq, "reachability query and per-node row validation", "open-time check lost the reachability query or row validation", "both present")
    w = ctx.prog.func("workflow.Workflow._check_consistency")
    names = [ast.unparse(c.func) for c in calls_in(w.node)]
    ctx.check("super()._check_consistency" in names, w.fq, "calls the base check", "Workflow check no longer chains to Trellis check", "chained")
    q = ctx.prog.fold("trellis", "CHECK_DETACHED_REACHABILITY")
    ctx.check(ctx.cat.compiles(q) is None and "node.detached = (all_products.current IS NOT NULL)" in re.sub(r"\s+", " ", q), "trellis.CHECK_DETACHED_REACHABILITY", "reports detached<->reachable mismatches", "query changed", "compiles; mismatch predicate")


SETTERS = {
    # function -> the write it is named after (rules elsewhere decide that it is *called*; here: that it writes)
    "step.Step.set_state": ("UPDATE", "step", "state"),
    "step.Step.set_hash": ("INSERT", "step_hash", None),
    "step.Step.delete_hash": ("DELETE", "step_hash", None),
    "step.Step.set_env_overrides": ("UPDATE", "step", "env_overrides"),
    "step.Step.add_env_deps": ("INSERT", "env_var", None),
    "step.Step.amend_env_deps": ("INSERT", "env_var", None),
    "step.Step.refresh_env_dep": ("UPDATE", "env_var", "value"),
    "step.Step.add_nglob": ("INSERT", "nglob", None),
    "step.Step.hold": ("UPDATE", "step", "_holding"),
    "step.Step.release": ("UPDATE", "step", "_holding"),
    "file.File.set_state": ("UPDATE", "file", "state"),
}


def rule_setters_write(ctx):
    """R-C09-9: the primitive setters of the graph perform the write they are named after, unconditionally.

    Many rules decide that a setter is called at the right place (set_hash together with SUCCEEDED, delete_hash on
    failure, set_env_overrides on recycle, ...).  Those rules say nothing if the setter itself stops writing.
    """
    for fq, want in sorted(SETTERS.items()):
        fi = ctx.prog.func(fq)
        hits = [s_ for s_ in ctx.sql.stmts_in(fq) if any((w[0], w[1], w[2]) == want and w[3] is None for w in s_.writes)]
        parents = {}
        for n in ast.walk(fi.node):
            for c in ast.iter_child_nodes(n):
                parents[c] = n
        def conditional(node):
            while node in parents:
                node = parents[node]
                if isinstance(node, (ast.If, ast.IfExp, ast.Try, ast.For, ast.While)):
                    return True
            return False
        ok = any(not conditional(h.site.call) for h in hits)
        ctx.check(ok, fq, f"writes {want[1]}{'.' + want[2] if want[2] else ''} ({want[0]}) unconditionally", f"{len(hits)} statement(s) with that effect, none unconditional: every caller believes the value is stored", "one unconditional statement", where=ctx.where_of(fi))


def rule_transitions_applied(ctx):
    """R-C09-11: update_file_hashes applies what the transition table says, for every record.

    R-C09-6 decides that the table covers every (cause, state, known) a producer can deliver.  This rule decides the
    interpreter: the table is consulted with that triple, a missing row raises, the new state and hash are written for
    every record, and each action is dispatched to its handler.
    """
    uf = ctx.prog.func("workflow.Workflow.update_file_hashes")
    src = re.sub(r"\s+", " ", ast.unparse(uf.node))
    ctx.check("_HASH_TRANSITIONS.get((cause, old_state, not new_fh.is_unknown))" in src, uf.fq, "the table is consulted with (cause, old state, hash known)", "lookup key changed", "(cause, old_state, not new_fh.is_unknown)")
    # a missing row raises
    miss = [n for n in ast.walk(uf.node) if isinstance(n, ast.If) and re.sub(r"\s+", " ", ast.unparse(n.test)) == "transition is None"]
    ok = bool(miss) and any(isinstance(x, ast.Raise) or (isinstance(x, ast.Call) and callee_name(x) == "raise_unexpected") for n in miss for st_ in n.body for x in ast.walk(st_))
    inner = [f for f in ast.walk(uf.node) if isinstance(f, ast.FunctionDef) and f.name == "raise_unexpected"]
    ok = ok and bool(inner) and any(isinstance(x, ast.Raise) and "ConsistencyError" in ast.unparse(x) for x in ast.walk(inner[0]))
    ctx.check(ok, uf.fq, "a triple without a row raises ConsistencyError", "an unlisted transition is silently skipped: the file keeps a state that contradicts what was just observed", "raise")
    filled, consumed, detail = shared.wiring(uf, "new_states_hashes", "executemany")
    upd = [s_ for s_ in ctx.sql.stmts_in(uf.fq) if s_.kind == "UPDATE" and ("UPDATE", "file", "state", None) in s_.writes and ("UPDATE", "file", "hash", None) in s_.writes]
    ctx.check(filled and consumed and len(upd) == 1, uf.fq, "the new state and hash of every record are written", f"{detail}; UPDATE file SET state, hash statements: {len(upd)}", "new_states_hashes -> UPDATE file SET state = ?, hash = ?")
    # the append is unconditional inside the record loop (every record with a row gets its new state)
    parents = {}
    for n in ast.walk(uf.node):
        for c in ast.iter_child_nodes(n):
            parents[c] = n
    cond = False
    for n in ast.walk(uf.node):
        if isinstance(n, ast.Call) and isinstance(n.func, ast.Attribute) and n.func.attr == "append" and ast.unparse(n.func.value) == "new_states_hashes":
            node = n
            while node in parents and not isinstance(parents[node], (ast.For, ast.AsyncFor)):
                node = parents[node]
                if isinstance(node, (ast.If, ast.Try, ast.IfExp)):
                    cond = True
    ctx.check(not cond, uf.fq, "no record is left out of the write", "the append is conditional", "unconditional append")
    handlers = {"updated": "handle_updated_file", "deleted": "handle_deleted_file", "completed": "mark_consuming_steps_pending"}
    for action, handler in handlers.items():
        loops = [l for l in ast.walk(uf.node) if isinstance(l, ast.For) and re.sub(r"\s+", "", ast.unparse(l.iter)) in (f"action_lists['{action}']", f'action_lists["{action}"]') and any(callee_name(c) == handler for c in calls_in(l))]
        ctx.check(len(loops) == 1, uf.fq, f"action '{action}' is dispatched to {handler}", f"{len(loops)} loop(s) over action_lists['{action}'] calling {handler}: the state is written but the steps that consume the file are not told", "one loop", where=ctx.where_of(uf))
    ctx.check("action_lists[action].append((i, path))" in src, uf.fq, "actions are collected per record", "actions are not collected", "action_lists[action].append")


def rule_declaration_wired(ctx):
    """R-C09-12: what a step declares (or amends) is written into the graph: edges to its outputs, its environment
    variables, and the mark that tells a run-time edge from a declared one."""
    ds = ctx.prog.func("workflow.Workflow.define_step")
    ctx.check(any(callee_name(c) == "add_env_deps" and c.args and ast.unparse(c.args[0]) == "env_deps" for c in calls_in(ds.node)), ds.fq, "declared environment variables are stored", "env_deps of a new step are dropped: the step is not rerun when they change", "step.add_env_deps(env_deps)")
    for coll, state in (("out_paths", "FileState.PLANNED"), ("vol_paths", "FileState.VOLATILE")):
        loops = [l for l in ast.walk(ds.node) if isinstance(l, ast.For) and ast.unparse(l.iter) == coll]
        ok = any(any(callee_name(c) == "_declare_file" and len(c.args) >= 3 and ast.unparse(c.args[2]) == state for c in calls_in(l)) and any(callee_name(c) == "add_source" and c.args and ast.unparse(c.args[0]) == "step" for c in calls_in(l)) for l in loops)
        ctx.check(ok, ds.fq, f"every path of {coll} is declared ({state.split('.')[-1]}) and linked to the step", f"a declared output has no edge from its step (or is not declared): a SUCCEEDED step is not checked for that output, cleanup and the need computation do not see it", "_declare_file + file.add_source(step)", where=ctx.where_of(ds))
    am = ctx.prog.func("workflow.Workflow.amend_step")
    ctx.check(any(callee_name(c) == "amend_env_deps" and c.args and ast.unparse(c.args[0]) == "env_deps" for c in calls_in(am.node)), am.fq, "amended environment variables are stored as dynamic", "amended env_deps are dropped", "step.amend_env_deps(env_deps)")
    filled, consumed, detail = shared.wiring(am, "dynamic_ideps", "executemany")
    ins = [s_ for s_ in ctx.sql.stmts_in(am.fq) if s_.kind == "INSERT" and any(w[0] == "INSERT" and w[1] == "dynamic_dep" for w in s_.writes)]
    ctx.check(filled and consumed and len(ins) == 1, am.fq, "every edge added by an amend is marked dynamic", f"{detail}; INSERT INTO dynamic_dep: {len(ins)}: an amended edge that is not marked survives the next rerun as if it were declared", "dynamic_ideps -> INSERT INTO dynamic_dep")
    n_app = sum(1 for c in calls_in(am.node) if isinstance(c.func, ast.Attribute) and c.func.attr == "append" and ast.unparse(c.func.value) == "dynamic_ideps")
    ctx.check(n_app >= 3, am.fq, "inputs, outputs and volatile outputs of an amend all contribute their edge ids", f"{n_app} append site(s) (3 confirmed by hand: inputs, outputs, volatile outputs)", f"{n_app} sites")


# Sites of the same shape as those for which a failing history exists (F63; F64, repaired), confirmed by reading, one reason each.
RUN_REPORT_SIBLINGS_NOT_JUDGED = {
    "executor.Executor.try_skip_job": "the mapping holds only outputs whose stored hash object differs while every digest and mode agrees (otherwise the check does not skip); tried with touch and chmod: empty, or no skip",
}


def _states_let_through(ctx, fi):
    """States accepted by the `get_state() in X` / `get_state() not in X` test of a recording function (None: not understood)."""
    FS = ctx.prog.enum("FileState")
    roles = ctx.prog.fold("enums", "FILE_STATES_BY_ROLE")
    by_role = {k.name: {x.name for x in v} for k, v in roles.items()}
    for n in ast.walk(fi.node):
        if not (isinstance(n, ast.Compare) and len(n.ops) == 1 and isinstance(n.ops[0], (ast.In, ast.NotIn)) and isinstance(n.left, ast.Call) and callee_name(n.left) == "get_state"):
            continue
        rhs = n.comparators[0]
        named = None
        if isinstance(rhs, ast.Subscript) and ast.unparse(rhs.value) == "FILE_STATES_BY_ROLE" and isinstance(rhs.slice, ast.Attribute) and ast.unparse(rhs.slice.value) == "FileRole":
            named = by_role.get(rhs.slice.attr)
        elif isinstance(rhs, (ast.Tuple, ast.Set, ast.List)) and all(isinstance(e, ast.Attribute) and ast.unparse(e.value) == "FileState" for e in rhs.elts):
            named = {e.attr for e in rhs.elts}
        if named is None:
            return None
        return named if isinstance(n.ops[0], ast.In) else {m.name for m in FS} - named
    return None


def rule_run_reports_filtered(ctx):
    """R-C09-13: a step run reports hashes only for nodes that still have the role they were collected in.

    A run collects the paths of its inputs and outputs in one transaction, computes hashes in a thread (or runs the command)
    and records them in a later transaction with cause SUCCEEDED or FAILED.  In between, a new declaration can give a path
    another role, for which _HASH_TRANSITIONS has no row of that cause: update_file_hashes raises ConsistencyError in the
    director.  Each site that records such a report must therefore select, in the recording function, by the node's current
    state (as Executor._record_written_outputs does).  Hash jobs (cause taken from the job: CONFIRMED / EXTERNAL) are another
    mechanism and are listed, not judged.
    """
    n_sites = 0
    seen_causes = set()
    execs = sorted((f for f in ctx.prog.all_functions() if f.module.name == "executor" and f.parent is None), key=lambda f: f.fq)
    for fi in execs:
        for c in calls_in(fi.node):
            if callee_name(c) != "update_file_hashes":
                continue
            cause = kwarg(c, "cause")
            names = sorted({n.attr for n in ast.walk(cause) if isinstance(n, ast.Attribute) and isinstance(n.value, ast.Name) and n.value.id == "HashUpdateCause"}) if cause is not None else []
            own_params = [a.arg for a in fi.node.args.args + fi.node.args.kwonlyargs]
            if not names and isinstance(cause, ast.Name) and cause.id in own_params:
                # a recording helper that takes the cause from its callers: the causes are those the callers name
                pos = [a.arg for a in fi.node.args.args if a.arg != "self"]
                for g in execs:
                    for c2 in calls_in(g.node):
                        if callee_name(c2) != fi.name:
                            continue
                        arg = kwarg(c2, cause.id)
                        if arg is None and cause.id in pos and pos.index(cause.id) < len(c2.args):
                            arg = c2.args[pos.index(cause.id)]
                        if arg is not None:
                            names = sorted(set(names) | {n.attr for n in ast.walk(arg) if isinstance(n, ast.Attribute) and isinstance(n.value, ast.Name) and n.value.id == "HashUpdateCause"})
            if not names:
                ctx.ok(fi.fq, "hash job: the cause comes with the job (listed, not judged by this rule)", "out of scope", where=ctx.where_of(fi, c))
                continue
            n_sites += 1
            seen_causes |= set(names)
            if fi.fq in RUN_REPORT_SIBLINGS_NOT_JUDGED:
                ctx.ok(fi.fq, f"report with cause {'/'.join(names)}: same shape as the judged sites, no failing history shown (listed, not judged)", RUN_REPORT_SIBLINGS_NOT_JUDGED[fi.fq], where=ctx.where_of(fi, c))
                continue
            params = {a.arg for a in fi.node.args.args}
            first = c.args[0] if c.args else None
            bound_here = isinstance(first, ast.Name) and first.id not in params and any(isinstance(n, ast.Assign) and len(n.targets) == 1 and isinstance(n.targets[0], ast.Name) and n.targets[0].id == first.id and isinstance(n.value, (ast.Dict, ast.DictComp)) for n in ast.walk(fi.node))
            tests_state = any(isinstance(n, ast.Compare) and any(isinstance(k, ast.Call) and callee_name(k) == "get_state" for k in ast.walk(n)) for n in ast.walk(fi.node))
            if bound_here and tests_state:
                # the states the selection lets through all have a row for every cause the site can report
                allowed = _states_let_through(ctx, fi)
                HCn = ctx.prog.enum("HashUpdateCause")
                rows = {(k[0].name, k[1].name, k[2]) for k in ctx.prog.fold("workflow", "_HASH_TRANSITIONS")}
                no_row = sorted((cn, st) for cn in names for st in (allowed or ()) if not ({(cn, st, True), (cn, st, False)} & rows))
                ctx.check(allowed is not None and not no_row, fi.fq,
                          f"the states that the selection lets through have a transition for cause {'/'.join(names)}",
                          f"the selection lets through states without a row for the cause ({no_row if allowed is not None else 'selection not understood'}): a path that was given another role is still recorded, update_file_hashes raises ConsistencyError",
                          f"lets through {sorted(allowed or ())}", where=ctx.where_of(fi, c))
            ctx.check(bound_here and tests_state, fi.fq,
                      f"hashes reported with cause {'/'.join(names)} are restricted, where they are recorded, to nodes still in the role they were collected in",
                      "the mapping was collected before the command or a hashing thread and is recorded as it is: a path that a new declaration gave another role meanwhile has no transition for this cause, update_file_hashes raises ConsistencyError and the director dies",
                      "selected by get_state() in the recording function", where=ctx.where_of(fi, c))
    ctx.control(n_sites >= 3 and {"SUCCEEDED", "FAILED"} <= seen_causes, "step-run report sites found in executor", f"only {n_sites} update_file_hashes sites with causes {sorted(seen_causes)} (confirmed by hand: outputs at completion and at a skip with SUCCEEDED, outputs and changed inputs with FAILED)")


RULES = [
    Rule("R-C09-14", "a step declared again while running or being checked keeps its row, and no verdict is applied to the re-created row", C12.rule_redeclared_running_step, min_instances=24),
    Rule("R-C09-13", "a step run reports hashes only for nodes still in the role they were collected in", rule_run_reports_filtered, min_instances=7),
    Rule("R-C09-12", "declarations and amendments are written into the graph", rule_declaration_wired, min_instances=6),
    Rule("R-C09-11", "update_file_hashes applies the transition table", rule_transitions_applied, min_instances=8),
    Rule("R-C09-10", "the cached readiness follows every change of an input's attachment or state (a stale _ready lets _derive_job meet a state it rejects as internal error)", C10.rule_flag_coverage, min_instances=62),
    Rule("R-C09-9", "primitive setters perform their write", rule_setters_write, min_instances=11),
    Rule("R-C09-1", "row invariants guarded by CHECK / RAISE triggers", rule_guards, min_instances=17),
    Rule("R-C09-2", "table ownership", rule_ownership, min_instances=25),
    Rule("R-C09-3", "detached flag maintenance", rule_detached_maintenance, min_instances=5),
    Rule("R-C09-4", "acyclicity check placement", rule_acyclic, min_instances=5),
    Rule("R-C09-5", "state-transition relation at write sites", rule_transitions, min_instances=15),
    Rule("R-C09-6", "hash-transition whitelist covers producers and constraints", rule_whitelist, min_instances=30),
    Rule("R-C09-8", "creator links stay a forest", rule_creator_forest, min_instances=9),
    Rule("R-C09-7", "open-time consistency check", rule_consistency_check, min_instances=3),
]


def _drop_trigger(name, file):
    return Mutant(f"drop-{name}", file, sub_once(r"CREATE TRIGGER IF NOT EXISTS " + name + r"\b.*?\nEND;\n", "", flags=re.S), ("R-C09-1", "R-C09-6"))


MUTANTS = [
    Mutant("changed-inputs-recorded-whatever-they-became", "executor.py", in_function("Executor._record_changed_inputs", replace_once("        self.workflow.update_file_hashes(still_recorded, cause=HashUpdateCause.FAILED)\n", "        self.workflow.update_file_hashes(inp_hashes, cause=HashUpdateCause.FAILED)\n")), ("R-C09-13",)),
    Mutant("changed-inputs-selection-lets-volatile-through", "executor.py", in_function("Executor._record_changed_inputs", replace_once("                FileState.BUILT,\n            ):", "                FileState.BUILT,\n                FileState.VOLATILE,\n            ):")), ("R-C09-13",)),
    Mutant("changed-inputs-before-the-command-recorded-directly", "executor.py", in_function("Executor._new_run", replace_once("                self._record_changed_inputs(new_inp_hashes)\n", "                self.workflow.update_file_hashes(new_inp_hashes, cause=HashUpdateCause.FAILED)\n")), ("R-C09-13",)),
    Mutant("recording-helper-with-cause-parameter-unfiltered", "executor.py", lambda t: (t.replace("                self._record_written_outputs(new_out_hashes)\n", "                self._record_any(new_out_hashes, HashUpdateCause.FAILED)\n", 1).replace("    def _record_written_outputs(self, out_hashes: Mapping[str, FileHash]) -> None:\n", "    def _record_any(self, out_hashes, cause) -> None:\n        self.workflow.update_file_hashes(out_hashes, cause=cause)\n\n    def _record_written_outputs(self, out_hashes: Mapping[str, FileHash]) -> None:\n", 1)) if "                self._record_written_outputs(new_out_hashes)\n" in t else None, ("R-C09-13",)),
    Mutant("dropped-run-report-negative-selection", "executor.py", in_function("Executor._record_written_outputs", replace_once("file.get_state() in FILE_STATES_BY_ROLE[FileRole.OUTPUT]", "file.get_state() not in FILE_STATES_BY_ROLE[FileRole.STATIC]")), ("R-C09-13",)),
    Mutant("dropped-run-report-unfiltered", "executor.py", in_function("Executor._record_written_outputs", replace_once("        self.workflow.update_file_hashes(still_outputs, cause=HashUpdateCause.FAILED)\n", "        self.workflow.update_file_hashes(out_hashes, cause=HashUpdateCause.FAILED)\n")), ("R-C09-13",)),
    Mutant("dropped-run-report-state-test-gone", "executor.py", in_function("Executor._record_written_outputs", replace_once("            if file is not None and file.get_state() in FILE_STATES_BY_ROLE[FileRole.OUTPUT]:\n", "            if file is not None:\n")), ("R-C09-13",)),
    Mutant("output-declared-without-edge", "workflow.py", in_function("Workflow.define_step", replace_once("            file = self._declare_file(step, out_path, FileState.PLANNED)\n            file.add_source(step)\n", "            file = self._declare_file(step, out_path, FileState.PLANNED)\n")), ("R-C09-12",)),
    Mutant("declared-env-deps-dropped", "workflow.py", in_function("Workflow.define_step", replace_once("        step.add_env_deps(env_deps)\n", "")), ("R-C09-12",)),
    Mutant("amended-inputs-not-marked-dynamic", "workflow.py", in_function("Workflow.amend_step", replace_once("                dynamic_ideps.append((info.new_idep,))\n", "                pass\n")), ("R-C09-12",)),
    Mutant("transitions-looked-up-not-written", "workflow.py", in_function("Workflow.update_file_hashes", replace_once("            new_states_hashes.append((i, new_state, new_fh))\n", "")), ("R-C09-11",)),
    Mutant("unlisted-transition-skipped", "workflow.py", in_function("Workflow.update_file_hashes", replace_once("                raise_unexpected(path, old_state, new_fh)\n", "                continue\n")), ("R-C09-11",)),
    Mutant("updated-action-not-dispatched", "workflow.py", in_function("Workflow.update_file_hashes", replace_once("            self.handle_updated_file(File(self, i, path))\n", "            pass\n")), ("R-C09-11",)),
    Mutant("actions-not-collected", "workflow.py", in_function("Workflow.update_file_hashes", replace_once("                action_lists[action].append((i, path))\n", "                pass\n")), ("R-C09-11",)),
    Mutant("set-env-overrides-writes-nothing", "step.py", in_function("Step.set_env_overrides", lambda t: __import__("re").sub(r"\n        self\.db\.execute\(\s*\"UPDATE step SET env_overrides = \?[^\n]*\n(?:[^\n]*\n)*?\s*\)\n|\n        self\.db\.execute\(\"UPDATE step SET env_overrides = \? WHERE node = \?\", \(value, self\.i\)\)\n", "\n        pass\n", t, count=1) if "UPDATE step SET env_overrides" in t else None), ("R-C09-9",)),
    Mutant("delete-hash-deletes-nothing", "step.py", in_function("Step.delete_hash", lambda t: t.replace("self.db.execute(", "(lambda *a: None)(", 1) if "self.db.execute(" in t else None), ("R-C09-9",)),
    Mutant("cycle-check-skips-detached-inputs", "workflow.py", in_function("Workflow._supply_files", replace_once("new_file_is = [file.i for file, _, _, new_relation in resolved if new_relation]", "new_file_is = [file.i for file, _, detached, new_relation in resolved if new_relation and not detached]")), ("R-C09-4",)),
    Mutant("reattach-no-creator-chain-check", "trellis.py", in_function("Node.reattach", replace_once("        self.check_creator_acyclic(new_creator)\n", "")), ("R-C09-8",)),
    Mutant("create-no-self-creator-check", "trellis.py", in_function("Trellis.create", replace_once("            if creator is not None and creator.i == node.i:\n                raise CyclicError(f\"Node ({node.key()}) cannot be created by itself.\")\n", "")), ("R-C09-8",)),
    Mutant("creator-chain-wrong-direction", "trellis.py", in_function("Node.check_creator_acyclic", lambda s: s.replace("(new_creator.i,)", "(self.i,)", 1).replace("row[0] == self.i", "row[0] == new_creator.i", 1) if "(new_creator.i,)" in s else None), ("R-C09-8",)),
    Mutant("creator-chain-union-all", "trellis.py", lambda t: t.replace("    SELECT ?\n    UNION\n    SELECT node.creator FROM node INNER JOIN chain", "    SELECT ?\n    UNION ALL\n    SELECT node.creator FROM node INNER JOIN chain", 1) if "INNER JOIN chain" in t else None, ("R-C09-8",)),
    Mutant("creator-chain-consistency-error", "trellis.py", in_function("Node.check_creator_acyclic", replace_once("            raise CyclicError(", "            raise ConsistencyError(")), ("R-C09-8",)),
    Mutant("completion-via-sinks", "step.py", in_function("Step.mark_completed", lambda s: s.replace("            for file in self.products(File):\n                if file.get_state() == FileState.OUTDATED:", "            for file in self.sinks(File):\n                if file.get_state() == FileState.OUTDATED:") if "if file.get_state() == FileState.OUTDATED:" in s else None), ("R-C09-5",)),
    _drop_trigger("file_check_undeclared_detached_upd", "file.py"),
    _drop_trigger("node_check_creator_kind_upd", "workflow.py"),
    _drop_trigger("dependency_check_kinds_ins", "workflow.py"),
    Mutant("creator-kind-file-creates", "workflow.py", lambda t: t.replace("OR (NEW.kind = '{StaticTree.kind()}' AND c.kind = '{Step.kind()}')", "OR (NEW.kind = '{StaticTree.kind()}' AND c.kind IN ('{Step.kind()}', '{File.kind()}'))", 1) if "OR (NEW.kind = '{StaticTree.kind()}' AND c.kind = '{Step.kind()}')" in t else None, ("R-C09-1",)),
    Mutant("drop-check-deferred", "step.py", replace_once("    CHECK (NOT deferred OR state = {StepState.PENDING.value})\n", "    CHECK (deferred IN (0, 1))\n"), ("R-C09-1",)),
    Mutant("drop-check-hash", "file.py", sub_once(r"  CHECK \(\n    state NOT IN \(\{FileState\.CONFIRMED\.value\}.*?\n  \),\n", "", flags=re.S), ("R-C09-1",)),
    Mutant("new-writer-detached", "workflow.py", in_function("Workflow.delete_detached", replace_once("                    file.detach()\n", '                    self.db.execute("UPDATE node SET creator = NULL, detached = TRUE WHERE i = ?", (file.i,))\n')), ("R-C09-2",)),
    Mutant("new-writer-step-state", "workflow.py", in_function("Workflow.mark_step_pending", replace_once("        step.set_state(StepState.PENDING)\n", '        self.db.execute("UPDATE step SET state = ?, deferred = 0 WHERE node = ?", (StepState.PENDING.value, step.i))\n')), ("R-C09-2",)),
    Mutant("detach-no-recursion", "trellis.py", in_function("Node.detach", replace_once("            if not detached:\n                self.db.execute(RECURSIVELY_SET_DETACHED, (self.i, True))\n", "")), ("R-C09-3",)),
    Mutant("reattach-no-recursion", "trellis.py", in_function("Node.reattach", replace_once("        self.db.execute(RECURSIVELY_SET_DETACHED, (self.i, detached))\n", "")), ("R-C09-3",)),
    Mutant("skip-cycle-default", "trellis.py", replace_once('def add_source(self, source: "Node", skip_cycle_check: bool = False) -> int:', 'def add_source(self, source: "Node", skip_cycle_check: bool = True) -> int:'), ("R-C09-4",)),
    Mutant("no-batch-cycle-check", "workflow.py", in_function("Workflow._supply_files", replace_once("        if len(new_file_is) > 0:\n            step.check_sources_acyclic(new_file_is)\n", "")), ("R-C09-4",)),
    Mutant("outdate-any-state", "workflow.py", in_function("Workflow.mark_file_outdated", lambda s: s.replace("        if state == FileState.BUILT:\n", "        if state != FileState.OUTDATED:\n", 1).replace("        elif state != FileState.OUTDATED:\n            raise ConsistencyError(f\"Cannot make file outdated when its state is {state.name}\")\n", "") if "elif state != FileState.OUTDATED" in s else None), ("R-C09-5",)),
    Mutant("succeed-without-hash", "step.py", in_function("Step.mark_completed", replace_once("            self.set_hash(new_hash)\n", "")), ("R-C09-5",)),
    Mutant("failed-keeps-hash", "step.py", in_function("Step.mark_completed", replace_once("            # An unsuccessful step is not skippable, so we're removing its hash.\n            self.delete_hash()\n", "")), ("R-C09-5",)),
    Mutant("recycle-keeps-hashless-succeeded", "step.py", in_function("Step.after_recycle", replace_once("        if state == StepState.FAILED or (\n            state == StepState.SUCCEEDED and (self.get_hash() is None or hashed_args_changed)\n        ):", "        if state == StepState.FAILED:")), ("R-C09-5",)),
    Mutant("lost-product-no-chain", "step.py", in_function("Step.after_lost_product", replace_once("        if isinstance(creator, Step) and creator_detached:\n            creator.after_lost_product()\n", "")), ("R-C09-5",)),
    Mutant("interrupted-running-to-pending", "startup.py", replace_once("(StepState.FAILED.value, StepState.RUNNING.value),", "(StepState.PENDING.value, StepState.RUNNING.value),"), ("R-C09-5",)),
    Mutant("drop-transition-row", "workflow.py", replace_once('    (HashUpdateCause.EXTERNAL, FileState.OUTDATED, False): (FileState.PLANNED, "deleted"),\n', ""), ("R-C09-6",)),
    Mutant("transition-built-unknown", "workflow.py", replace_once('(HashUpdateCause.FAILED, FileState.OUTDATED, False): (FileState.PLANNED, None),', '(HashUpdateCause.FAILED, FileState.OUTDATED, False): (FileState.OUTDATED, None),'), ("R-C09-6",)),
    Mutant("watcher-unfiltered", "watcher.py", replace_once("self.updated | self.deleted, cause=HashUpdateCause.EXTERNAL\n", "self.updated | self.deleted\n"), ("R-C09-6",)),
    Mutant("apply-unchanged", "executor.py", in_function("Executor._run_hash_job", replace_once("        if new_hash != hash_job.old_hash or hash_job.cause == HashUpdateCause.CONFIRMED:", "        if True:")), ("R-C09-6",)),
    Mutant("clear-hash-built", "file.py", replace_once("        {FileState.MISSING.value},\n        {FileState.PLANNED.value},", "        {FileState.MISSING.value},\n        {FileState.OUTDATED.value},\n        {FileState.PLANNED.value},"), ("R-C09-6",)),
    Mutant("no-consistency-chain", "workflow.py", in_function("Workflow._check_consistency", replace_once("        super()._check_consistency()\n", "")), ("R-C09-7",)),
]

# the declared-again mechanism is shared with C12 (R-C12-10): its mutants are replayed for this property's copy of the rule
MUTANTS += [Mutant("shared-" + m.name, m.file, m.transform, ("R-C09-14",), m.note) for m in C12.MUTANTS if m.name in ['redeclared-running-row-reset', 'checking-row-reset-by-redeclaration', 'dropped-run-outputs-recorded-whatever-their-role', 'redeclared-running-loses-holds']]

VARIANTS = [
    shared.REPAIR_SKETCH_F63,
    Variant("reorder-transition-rows", "workflow.py", lambda t: t.replace('    (HashUpdateCause.EXTERNAL, FileState.MISSING, True): (FileState.CONFIRMED, "updated"),\n    (HashUpdateCause.EXTERNAL, FileState.CONFIRMED, True): (FileState.CONFIRMED, "updated"),\n', '    (HashUpdateCause.EXTERNAL, FileState.CONFIRMED, True): (FileState.CONFIRMED, "updated"),\n    (HashUpdateCause.EXTERNAL, FileState.MISSING, True): (FileState.CONFIRMED, "updated"),\n')),
    Variant("check-rewrite", "step.py", replace_once("    CHECK (NOT deferred OR state = {StepState.PENDING.value})\n", "    CHECK (deferred = 0 OR state IN ({StepState.PENDING.value}))\n")),
]
