"""C11 — exactly the needed steps are executed (structural clauses, weak)."""
from __future__ import annotations

import ast
import re

from ..engine import finite, flow
from ..engine.mutate import Mutant, Variant, in_function, replace_once
from ..engine.runner import Rule
from ..engine.source import AnalysisError
from ..engine.sqlfront import all_where_clauses, split_conjuncts
from . import shared
from .common import callee_name, calls_in

EXPLANATION = (
    "Static analysis of the need mechanism's wiring. Dispatch binds `_implied_need > need_threshold`, the threshold is "
    "DEFAULT iff targets or target directories were given (finite-domain table) and the static dispatch predicate "
    "alone excludes OPTIONAL. The read set of the need recomputation (SQL compiler) contains the declared need, the "
    "implied need of consuming steps two dependency hops away, attachedness, output state, labels and both target "
    "tables; reconcile_targets flags stale TARGET values and producers of matching outputs before the first tick. "
    "One shared 'regular output' predicate (constant identity + truth table) is used by the recomputation (both "
    "arms), the reconciliation and the missing-target report. _normalize_targets classifies by trailing separator "
    "only (no file-system predicate reachable). Optional revert filter and forbidden target states are truth tables. "
    "That _implied_need equals the least fixed point of the need definition for every graph, and that the executed "
    "set equals the needed set, is NOT decided; the MAX algebra of the SQL formula is deliberately not matched. "
    'Also: statements that flag steps for recomputation are not narrowed (single-conjunct stale-TARGET reset; recursive subtree CTEs without a detached filter; the edge-delete trigger flags suppliers); targets are normalised before the process changes directory; targets are reconciled after the startup rescans on a resumed database.'
    ' R-C11-6 a step becomes RUNNING only in a transaction that first removes what its previous run created; no raw statement writes RUNNING.'
)
ASSUMPTIONS = ["cached columns are recomputed when their inputs change (C10)", "the need definition's algebra is correct (not decided)"]


def _norm(s):
    return re.sub(r"\s+", " ", s).strip()


def rule_threshold(ctx):
    """R-C11-1."""
    Need = ctx.prog.enum("Need")
    nt = ctx.prog.cls("workflow.Workflow").methods["need_threshold"]
    for t, d in ((0, 0), (1, 0), (0, 1), (1, 1)):
        fp = finite.feasible_paths(ctx.prog, nt, {}, {"self.targets": ["x"] * t, "self.target_dirs": ["d/"] * d, "self.targets or self.target_dirs": bool(t or d)})
        rets = {e[1] for tr, s in fp for e in tr if e[0] == "return"}
        ctx.check(rets == {"Need.DEFAULT if self.targets or self.target_dirs else Need.OPTIONAL"}, nt.fq, f"targets={t} target_dirs={d}", f"{rets}", "DEFAULT iff any target")
    sel = _norm(ctx.prog.fold("scheduler", "SELECT_NEXT_STEP"))
    ctx.check("step._implied_need > ?" in sel, "scheduler.SELECT_NEXT_STEP", "dispatch compares the implied need with the threshold parameter", "dispatch uses the declared need or no threshold", "_implied_need > ?")
    g = ctx.prog.func("scheduler.Scheduler._get_next_step")
    ctx.check("self.workflow.need_threshold.value" in ast.unparse(g.node), g.fq, "threshold bound from workflow.need_threshold", "constant threshold", "bound")
    w = _norm(ctx.prog.fold("step", "STEP_DISPATCH_WHERE"))
    ctx.check(f"step._implied_need > {Need.OPTIONAL.value}" in w, "step.STEP_DISPATCH_WHERE", "OPTIONAL steps are never dispatched on their own", "optional steps dispatch without being needed", "> OPTIONAL")
    cs = ctx.prog.func("workflow.Workflow.count_required_steps")
    ctx.check("self.need_threshold.value" in ast.unparse(cs.node), cs.fq, "progress counts use the same threshold", "another threshold", "same")
    vals = {n.name: n.value for n in Need}
    ctx.check(vals["OPTIONAL"] < vals["DEFAULT"] < vals["TARGET"] < vals["PLAN"], "enums.Need", "OPTIONAL < DEFAULT < TARGET < PLAN", f"{vals}", "ordered")
    wf = ctx.prog.cls("workflow.Workflow")
    ctx.check("targets" in wf.fields and "frozenset" in wf.fields["targets"], wf.fq, "targets are immutable for the lifetime of the director", "targets can change under the scheduler's feet", "frozenset")


def rule_read_set(ctx):
    """R-C11-2."""
    sql = ctx.prog.fold("scheduler", "UPDATE_CHECK_AFTER")
    reads = {(e[1], e[2]) for e in ctx.cat.effects(sql) if e[0] == "READ" and (e[3] is None or e[3] not in ctx.cat.triggers)}
    need = {("step", "need"), ("step", "_implied_need"), ("dependency", "source"), ("dependency", "sink"), ("node", "detached"), ("file", "state"), ("node", "label"),
            ("target_path", "path"), ("target_dir", "path"), ("target_dir", "upper"), ("step", "duration"), ("step", "_tail_time")}
    ctx.check(need <= reads, "scheduler.UPDATE_CHECK_AFTER", "reads declared need, sinks' implied need (two hops), attachedness, output state, labels, both target tables", f"read set lacks {sorted(need - reads)}: that ingredient of the need definition is ignored", f"{len(reads)} columns")
    flat = _norm(sql)
    ctx.check("LEFT JOIN dependency AS dep1 ON dep1.source = check_after.i LEFT JOIN dependency AS dep2 ON dep2.source = dep1.sink" in flat, "scheduler.UPDATE_CHECK_AFTER", "consumers are reached through two dependency hops (step -> file -> step)", "hop structure changed", "two hops")
    ctx.check("sink_node.i = dep2.sink AND NOT sink_node.detached" in flat, "scheduler.UPDATE_CHECK_AFTER", "detached consumers do not imply need", "detached consumers keep optional steps needed", "NOT sink_node.detached")
    Need = ctx.prog.enum("Need")
    ctx.check(f"WHEN step.need = {Need.DEFAULT.value} AND EXISTS" in flat, "scheduler.UPDATE_CHECK_AFTER", "directory targets elevate DEFAULT-need producers only", "directory targets sweep in OPTIONAL steps", "need = DEFAULT guard")
    w = ctx.cat.writes(sql)
    ctx.check({("UPDATE", "step", "_implied_need", None), ("UPDATE", "step", "_tail_time", None)} <= w, "scheduler.UPDATE_CHECK_AFTER", "writes _implied_need and _tail_time", f"{sorted(w, key=str)[:4]}", "both")
    shared.check_edge_delete_flags_suppliers(ctx, "an OPTIONAL producer keeps the need it inherited from a consumer whose (amended) input edge was dropped: it is still built, and never reverted, although nothing requires its output any more")
    rt = ctx.prog.func("workflow.Workflow.reconcile_targets")
    src = _norm(ast.unparse(rt.node))
    # every step whose cached need is TARGET is re-examined when the target set may have changed: the statement that
    # flags them has that single conjunct (exact targets elevate OPTIONAL and DEFAULT steps alike)
    stale = []
    for st_ in ctx.sql.stmts_in(rt.fq):
        if st_.kind == "UPDATE" and ("UPDATE", "step", "_check_after", None) in st_.writes:
            for wh in all_where_clauses(st_.text):
                conj = sorted(re.sub(r"\s*\.\s*", ".", _norm(c)) for c in split_conjuncts(wh))
                if any(re.fullmatch(rf"(step\.)?_implied_need = {Need.TARGET.value}", c) for c in conj):
                    stale.append(conj)
    ctx.check(len(stale) >= 1 and all(len(c) == 1 for c in stale), rt.fq, "every step with a cached TARGET need is flagged for recomputation",
              f"the flagging statement is narrowed to {stale}: a step elevated by a target of the previous run (e.g. an OPTIONAL producer named exactly) keeps TARGET for ever", "single conjunct _implied_need = TARGET")
    # the two recursive flagging statements of Step.detach/reattach walk the whole product subtree: the recursion must
    # not look at `detached` (products are already marked detached when Step.detach runs them)
    for const in ("RECURSIVE_CHECK_WITH_PRODUCTS", "RECURSIVE_CHECK_AFTER_SOURCES"):
        text = _norm(re.sub(r"--[^\n]*", "", ctx.prog.fold("step", const)))
        m = re.search(r"WITH RECURSIVE (\w+)\s*\(\s*node\s*\) AS \(", text)
        if not m:
            ctx.bad(f"step.{const}", "the recursion covers every product step, attached or not", "the statement no longer walks the product subtree recursively: only the step itself is visited, so suppliers (or products) deeper in a dropped sub-plan keep stale scheduling attributes")
            continue
        depth, k = 1, m.end()
        while k < len(text) and depth:
            depth += {"(": 1, ")": -1}.get(text[k], 0)
            k += 1
        cte = text[m.end():k - 1]
        ctx.check("UNION ALL" in cte and "creator" in cte and not re.search(r"\bdetached\b", cte), f"step.{const}", "the recursion covers every product step, attached or not",
                  "the recursion over product steps is filtered on `detached`: below the first level nothing is visited, so suppliers (or products) deeper in a dropped sub-plan keep stale scheduling attributes", "no detached filter in the CTE")
    ctx.check("self.db.execute('UPDATE step SET _check_after = 1 WHERE node = ?', (creator.i,))" in src and "self.db.execute(RECONCILE_TARGET_DIRS)" in src, rt.fq, "producers of exact and directory targets are flagged", "newly targeted producers are not recomputed", "flagged")
    shared.check_targets_reconciled_after_resume(ctx, "targets are judged against states that the startup rescans have not updated yet: a target whose declaration is about to be replaced by an edited plan.py is rejected (or a stale elevation is kept)")
    prop = _norm(ctx.prog.fold("scheduler", "PROPAGATE_CHECK_AFTER"))
    ctx.check("WHERE NOT source_node.detached AND dep2.sink IN ( SELECT dep1.source FROM dependency AS dep1 WHERE dep1.sink IN (SELECT i FROM changed_after) )" in prop, "scheduler.PROPAGATE_CHECK_AFTER", "changes propagate to the (attached) suppliers two hops upstream", "propagation direction or hop count changed", "upstream two hops")
    si = ctx.prog.func("scheduler.Scheduler.initialize")
    src = _norm(ast.unparse(si.node))
    ctx.check("((str(path),) for path in sorted(self.workflow.targets))" in src and "for path in sorted(self.workflow.target_dirs)" in src, si.fq, "target tables are filled from the workflow's targets", "target tables filled from elsewhere", "workflow.targets / target_dirs")


def rule_shared_output_predicate(ctx):
    """R-C11-3."""
    FS = ctx.prog.enum("FileState")
    pred = ctx.prog.fold("file", "REGULAR_OUTPUT_WHERE")
    tt = ctx.cat.truth_table(pred, {"onode.detached": [0, 1], "ofile.state": [s.value for s in FS]})
    ok = all(bool(v) == (not d and s != FS.VOLATILE.value) for (d, s), v in tt.items())
    ctx.check(ok, "file.REGULAR_OUTPUT_WHERE", "regular output = attached ∧ state ≠ VOLATILE", f"{tt}", "16 points")
    p = _norm(pred)
    for mod, const, count in (("scheduler", "UPDATE_CHECK_AFTER", 2), ("workflow", "RECONCILE_TARGET_DIRS", 1)):
        text = _norm(ctx.prog.fold(mod, const))
        ctx.check(text.count(p) == count, f"{mod}.{const}", f"embeds REGULAR_OUTPUT_WHERE ({count}x)", f"found {text.count(p)} occurrence(s): the sites disagree on what a regular output is", "shared")
    for mod in ("scheduler", "workflow"):
        ctx.check(ctx.prog.const_origin(mod, "REGULAR_OUTPUT_WHERE") == ("file", "REGULAR_OUTPUT_WHERE"), mod, "imports the predicate from file.py", "private copy", "imported")
    hr = ctx.prog.func("workflow.Workflow.has_regular_output_under")
    txt = " ".join(_norm(s.text) for s in ctx.sql.stmts_in(hr.fq))
    ctx.check(_norm(pred).replace(".", " . ") in txt or p in txt.replace(" . ", "."), hr.fq, "missing-target report uses the same predicate", "the report has its own idea of a regular output", "shared")
    io = ctx.prog.func("workflow.Workflow.is_regular_output")
    ctx.check("file.get_state() in FILE_STATES_BY_ROLE[FileRole.OUTPUT]" in ast.unparse(io.node) and "isinstance(file.creator(), Step)" in ast.unparse(io.node), io.fq, "exact-target report: attached output-role file created by a step", "changed", "ok")


def rule_pure_classifier(ctx):
    """R-C11-4."""
    nt = ctx.prog.func("tui._normalize_targets")
    fs_calls = [ast.unparse(c.func) for c in calls_in(nt.node) if callee_name(c) in ("exists", "is_dir", "is_file", "isdir", "isfile", "stat", "lstat", "iterdir", "glob", "listdir", "realpath", "resolve", "readlink", "islink")]
    ctx.check(not fs_calls, nt.fq, "classification never looks at the file system", f"{fs_calls}: whether a target is a directory depends on what happens to exist", "pure")
    src = _norm(ast.unparse(nt.node))
    ctx.check("is_dir_target = raw_target.endswith(os.sep)" in src and "if is_dir_target: target_dirs.append(target_rel / '')" in src, nt.fq, "directory target iff trailing separator; stored with trailing separator", "classifier changed", "trailing separator")
    ctx.check("target_rel = target_abs.relpath(stepup_root).normpath()" in src, nt.fq, "targets are normalised root-relative like labels", "targets are spelled differently from labels", "relpath + normpath")
    # relative targets are meant relative to where the user typed them: they are normalised before the process
    # changes its working directory to the project root
    ab = ctx.prog.func("tui._async_build")
    npaths = 0
    for tr, st in flow.paths_of(ab):
        k_norm = [k for k, e in enumerate(tr) if e[0] == "call" and e[1] == "_normalize_targets"]
        k_cd = [k for k, e in enumerate(tr) if e[0] == "call" and e[1].endswith(".cd")]
        if not k_norm:
            continue
        npaths += 1
        ctx.check(not k_cd or k_norm[0] < k_cd[0], ab.fq, "targets are normalised before the working directory changes", "targets are resolved after `cd` to the project root: a relative target typed in a subdirectory names another file", "before cd()", where=ctx.where_of(ab))
    if npaths == 0:
        raise AnalysisError("tui._async_build no longer normalises targets")


def rule_forbidden_and_revert(ctx):
    """R-C11-5."""
    FS, Need = ctx.prog.enum("FileState"), ctx.prog.enum("Need")
    forb = ctx.prog.fold("enums", "TARGET_FORBIDDEN_STATES")
    ctx.check({s.name for s in forb} == {"UNCONFIRMED", "MISSING", "CONFIRMED", "VOLATILE"}, "enums.TARGET_FORBIDDEN_STATES", "targets may not be static or volatile", f"{sorted(s.name for s in forb)}", "STATIC ∪ VOLATILE")
    q = _norm(ctx.prog.fold("finalize", "CREATE_OPTIONAL_STEP_TABLE"))
    m = re.search(r"WHERE (.*)$", q)
    tt = ctx.cat.truth_table(m.group(1), {"_implied_need": [n.value for n in Need], "node.detached": [0, 1]})
    ctx.check(all(bool(v) == (n == Need.OPTIONAL.value and not d) for (n, d), v in tt.items()), "finalize.CREATE_OPTIONAL_STEP_TABLE", "reverted = attached steps that ended up not needed (implied need OPTIONAL)", "revert filter uses the declared need or includes needed steps", "_implied_need = OPTIONAL")
    bf = ctx.prog.func("builder.Builder.finalize")
    ctx.check("revert_optional_steps" in ast.unparse(bf.node), bf.fq, "unneeded optional outputs are reverted at the end of an unrestricted build", "never reverted", "(guards in R-C06-4)")


def _state_name(node):
    """StepState.X -> 'X'; anything else -> None."""
    if isinstance(node, ast.Attribute) and isinstance(node.value, ast.Name) and node.value.id == "StepState":
        return node.attr
    return None


def _running_overrides(v):
    """Spellings of 'v is RUNNING' (v ranges over CHECKING/RUNNING at the dispatch site)."""
    return {
        f"{v} == StepState.RUNNING": True, f"{v} is StepState.RUNNING": True, f"StepState.RUNNING == {v}": True,
        f"{v} != StepState.RUNNING": False, f"{v} is not StepState.RUNNING": False,
        f"{v} == StepState.CHECKING": False, f"{v} is StepState.CHECKING": False,
        f"{v} != StepState.CHECKING": True, f"{v} is not StepState.CHECKING": True,
    }


def rule_running_sheds_products(ctx):
    """R-C11-6: a step enters RUNNING only in a transaction that first removes what its previous run created.

    The dispatch predicate treats the products of a RUNNING step as definitions made by the run in
    progress.  Between the moment a step is marked RUNNING and the moment its old products are detached,
    a step that the current plan may no longer define is dispatchable and can be executed.
    """
    SS = ctx.prog.enum("StepState")
    sites = 0
    for caller, cs_list in ctx.cg.sites.items():
        for cs in cs_list:
            if callee_name(cs.node) != "set_state" or not cs.node.args:
                continue
            fi = cs.caller
            arg = cs.node.args[0]
            nm = _state_name(arg)
            if nm is None and not isinstance(arg, ast.Name):
                continue  # File.set_state(FileState.X) and friends
            if nm is not None and nm not in SS.__members__:
                continue
            if nm is not None:
                if nm != "RUNNING":
                    continue
            else:
                # a variable: which states can it hold?  (only handled: bound from a helper returning (step, state))
                src = ast.unparse(fi.node)
                if "FileState" in src and "StepState" not in src:
                    continue
            sites += 1
            recv = ast.unparse(cs.node.func.value)
            ok_paths, bad_paths = 0, 0
            for tr, status in finite.feasible_paths(ctx.prog, fi, {}, _running_overrides(ast.unparse(arg)) if nm is None else {}):
                idx = [k for k, e in enumerate(tr) if e[0] == "call" and e[2] is cs.node]
                for k in idx:
                    reg = flow.region_of(tr, k, lambda s_: s_.split(".")[-1] == "db")
                    lo = reg[0] if reg else 0
                    inside = tr[lo:k]
                    reset = any(e[0] == "call" and e[1] == f"{recv}.reset_for_rerun" for e in inside)
                    aw = [e for e in inside if e[0] == "await" and not e[1].startswith("<a")]
                    if reg is not None and reset and not aw:
                        ok_paths += 1
                    else:
                        bad_paths += 1
            ctx.check(ok_paths > 0 and bad_paths == 0, fi.fq, f"{recv}.set_state({ast.unparse(arg)}) to RUNNING is preceded by {recv}.reset_for_rerun() in the same transaction", f"on {bad_paths} path(s) the step becomes RUNNING while the steps and files its previous run created are still attached: the next pop finds their creator RUNNING, takes them for safe and can execute a step that no plan defines anymore", "products of the previous run are gone before the state changes", where=ctx.where_of(fi, cs.node))
    if sites == 0:
        raise AnalysisError("no Step.set_state site that can write RUNNING found")
    # the variable at the dispatch site ranges over CHECKING/RUNNING only, decided by the stored hash
    gn = ctx.prog.func("scheduler.Scheduler._get_next_step")
    vals = set()
    for n in ast.walk(gn.node):
        if isinstance(n, ast.Assign) and any(isinstance(t, ast.Name) and t.id == "state" for t in n.targets):
            for m in ast.walk(n.value):
                if _state_name(m):
                    vals.add(_state_name(m))
    ctx.check(vals == {"CHECKING", "RUNNING"}, gn.fq, "a popped step becomes CHECKING or RUNNING", f"states: {sorted(vals)}", "CHECKING | RUNNING")
    # raw SQL writers of step.state never write RUNNING
    R = SS.RUNNING.value
    n_raw = 0
    for st in ctx.sql.stmts:
        if not any(w[0] == "UPDATE" and w[1] == "step" and w[2] == "state" and w[3] is None for w in st.writes):
            continue
        fq = st.site.func.fq.split(".<locals>.")[0]
        if fq.endswith("Step.set_state"):
            continue
        n_raw += 1
        flat = re.sub(r"\s+", " ", st.text)
        m = re.search(r"SET state = (\S+)", flat)
        val = m.group(1).rstrip(",") if m else "?"
        if val.isdigit():
            ctx.check(int(val) != R, fq, f"raw write of step.state = {val}", "a raw statement marks steps RUNNING without shedding their old products", "not RUNNING", where=f"stepup/core/{st.site.func.module.path.name}:{st.site.lineno}")
        else:
            call = getattr(st.site, "call", None)
            src = ast.unparse(call) if call is not None else ""
            first = None
            if call is not None and len(call.args) > 1 and isinstance(call.args[1], (ast.Tuple, ast.List)) and call.args[1].elts:
                first = ast.unparse(call.args[1].elts[0])
            ctx.check(first is not None and "RUNNING" not in first, fq, f"raw write of step.state = {first or val}", f"cannot show that the written state is not RUNNING ({src[:100]})", "not RUNNING", where=f"stepup/core/{st.site.func.module.path.name}:{st.site.lineno}")
    if n_raw < 2:
        raise AnalysisError(f"only {n_raw} raw writers of step.state found")


def rule_failed_step_sheds_products(ctx):
    """R-C11-7: the steps created by a run that ends FAILED are detached at once, not at the next rerun.

    A failed plan may have defined steps before it failed.  They stay attached under a FAILED creator: not
    dispatchable, but counted, reported and defended as claims until the creator runs again.
    """
    mc = ctx.prog.func("step.Step.mark_completed")
    hits = []
    for n in ast.walk(mc.node):
        if isinstance(n, ast.If) and "StepState.FAILED" in ast.unparse(n.test) and any(callee_name(c) == "_detach_created_steps" for st_ in n.body for c in calls_in(st_)):
            hits.append(n)
    direct = [c for c in calls_in(mc.node) if callee_name(c) == "_detach_created_steps"]
    ctx.check(bool(hits) and len(direct) >= 1, mc.fq, "a FAILED completion detaches the steps the run created", "mark_completed no longer detaches the products of a failed run", "if state is FAILED: _detach_created_steps()", where=ctx.where_of(mc))
    # and only then: a deferred step keeps its products (they may be what it waits for)
    succ = [n for n in ast.walk(mc.node) if isinstance(n, ast.If) and n.orelse and any(callee_name(c) == "set_state" and c.args and ast.unparse(c.args[0]) == "StepState.SUCCEEDED" for st_ in n.orelse for c in calls_in(st_))]
    ok = all(not any(callee_name(c) == "_detach_created_steps" for st_ in n.orelse for c in calls_in(st_)) for n in succ) and bool(succ)
    ctx.check(ok, mc.fq, "a successful completion keeps the created steps", "the success branch detaches what the run created", "no detach on success")


RULES = [
    Rule("R-C11-7", "a failed run sheds the steps it created", rule_failed_step_sheds_products, min_instances=2),
    Rule("R-C11-1", "threshold binding", rule_threshold, min_instances=9),
    Rule("R-C11-2", "read set and flagging of the need recomputation", rule_read_set, min_instances=10),
    Rule("R-C11-3", "one shared regular-output predicate", rule_shared_output_predicate, min_instances=7),
    Rule("R-C11-4", "pure target classifier", rule_pure_classifier, min_instances=3),
    Rule("R-C11-5", "forbidden targets and optional revert filter", rule_forbidden_and_revert, min_instances=3),
    Rule("R-C11-6", "a step sheds the products of its previous run before it counts as running", rule_running_sheds_products, min_instances=5),
]

MUTANTS = [
    Mutant("failed-run-keeps-products", "step.py", in_function("Step.mark_completed", replace_once("                self._detach_created_steps()\n", "                pass\n")), ("R-C11-7",)),
    Mutant("running-keeps-old-products", "scheduler.py", in_function("Scheduler.pop_next_job", replace_once("                step.reset_for_rerun()\n", "                pass\n")), ("R-C11-6",)),
    Mutant("running-sheds-after-state", "scheduler.py", in_function("Scheduler.pop_next_job", lambda s: s.replace("            step.set_state(state)\n", "", 1).replace("            if state == StepState.RUNNING:\n", "            step.set_state(state)\n            if state == StepState.RUNNING:\n", 1) if "            if state == StepState.RUNNING:\n" in s else None), ("R-C11-6",)),
    Mutant("checking-sheds-instead", "scheduler.py", in_function("Scheduler.pop_next_job", replace_once("            if state == StepState.RUNNING:\n", "            if state == StepState.CHECKING:\n")), ("R-C11-6",)),
    Mutant("startup-marks-running", "startup.py", in_function("reset_interrupted_steps", replace_once("(StepState.PENDING.value, StepState.CHECKING.value)", "(StepState.RUNNING.value, StepState.CHECKING.value)")), ("R-C11-6",)),
    Mutant("reconcile-before-resume", "director.py", in_function("serve", lambda s: s.replace("    if initialized:\n        await reporter(\"STARTUP\", \"(Re)initialized boot script\")\n    else:\n        await resume_from_db(handler.workflow, reporter, handler.builder)\n", "", 1).replace("    await _run_tasks(", "    if initialized:\n        await reporter(\"STARTUP\", \"(Re)initialized boot script\")\n    else:\n        await resume_from_db(handler.workflow, reporter, handler.builder)\n    await _run_tasks(", 1) if "        await resume_from_db(handler.workflow, reporter, handler.builder)\n" in s else None), ("R-C11-2",)),
    Mutant("targets-after-cd", "tui.py", in_function("_async_build", lambda s: s.replace("    targets, target_dirs = _normalize_targets(args.targets, stepup_root)\n", "", 1).replace("    _reset_stepup_dir()\n", "    targets, target_dirs = _normalize_targets(args.targets, stepup_root)\n    _reset_stepup_dir()\n", 1) if "    targets, target_dirs = _normalize_targets(args.targets, stepup_root)\n" in s and "    _reset_stepup_dir()\n" in s else None), ("R-C11-4",)),
    Mutant("edge-delete-skips-suppliers", "step.py", replace_once("    UPDATE step SET _check_after = 1\n    WHERE node IN (SELECT source FROM dependency WHERE sink = OLD.source);\n", ""), ("R-C11-2",)),
    Mutant("detached-subtree-one-level", "step.py", replace_once("        JOIN subtree ON node.creator = subtree.node\n        WHERE node.kind = 'step'\n", "        JOIN subtree ON node.creator = subtree.node\n        WHERE node.kind = 'step' AND NOT node.detached\n"), ("R-C11-2",)),
    Mutant("stale-target-default-only", "workflow.py", in_function("Workflow.reconcile_targets", replace_once('f"UPDATE step SET _check_after = 1 WHERE _implied_need = {Need.TARGET.value}"', 'f"UPDATE step SET _check_after = 1 WHERE _implied_need = {Need.TARGET.value} AND need = {Need.DEFAULT.value}"')), ("R-C11-2",)),
    Mutant("constant-threshold", "workflow.py", in_function("Workflow.need_threshold", replace_once("return Need.DEFAULT if self.targets or self.target_dirs else Need.OPTIONAL", "return Need.OPTIONAL")), ("R-C11-1",)),
    Mutant("dispatch-declared-need", "scheduler.py", replace_once("    step._implied_need > ? AND\n", "    step.need > ? AND\n"), ("R-C11-1",)),
    Mutant("target-arm-removed", "scheduler.py", lambda t: t.replace("                  AND onode.label IN (SELECT path FROM target_path)\n            ) THEN {Need.TARGET.value}\n            WHEN", "                  AND 0\n            ) THEN {Need.TARGET.value}\n            WHEN", 1) if "AND onode.label IN (SELECT path FROM target_path)" in t else None, ("R-C11-2",)),
    Mutant("detached-consumers-count", "scheduler.py", replace_once("        sink_node.i = dep2.sink\n        AND NOT sink_node.detached\n", "        sink_node.i = dep2.sink\n"), ("R-C11-2",)),
    Mutant("no-reconcile", "director.py", in_function("serve", lambda s: s.replace("            handler.workflow.reconcile_targets()\n", "            pass\n") if "handler.workflow.reconcile_targets()" in s else None), ("R-C11-2",)),
    Mutant("private-output-predicate", "workflow.py", lambda t: t.replace("    JOIN file AS ofile ON ofile.node = onode.i\n    WHERE {REGULAR_OUTPUT_WHERE}\n)", "    JOIN file AS ofile ON ofile.node = onode.i\n    WHERE NOT onode.detached\n)", 1) if "    WHERE {REGULAR_OUTPUT_WHERE}\n)" in t else None, ("R-C11-3",)),
    Mutant("volatile-is-output", "file.py", replace_once('REGULAR_OUTPUT_WHERE = f"NOT onode.detached AND ofile.state != {FileState.VOLATILE.value}"', 'REGULAR_OUTPUT_WHERE = f"NOT onode.detached AND ofile.state != {FileState.UNDECLARED.value}"'), ("R-C11-3",)),
    Mutant("classifier-looks-at-disk", "tui.py", in_function("_normalize_targets", replace_once("        is_dir_target = raw_target.endswith(os.sep)\n", "        is_dir_target = raw_target.endswith(os.sep) or Path(raw_target).is_dir()\n")), ("R-C11-4",)),
    Mutant("revert-by-declared-need", "finalize.py", replace_once("WHERE _implied_need = {Need.OPTIONAL.value}\nAND NOT node.detached", "WHERE need = {Need.OPTIONAL.value}\nAND NOT node.detached"), ("R-C11-5",)),
]

VARIANTS = [
    Variant("running-test-by-identity", "scheduler.py", in_function("Scheduler.pop_next_job", replace_once("            if state == StepState.RUNNING:\n", "            if state is not StepState.CHECKING:\n"))),
    Variant("shed-before-deriving-flag", "scheduler.py", in_function("Scheduler.pop_next_job", lambda s: s.replace("            if state == StepState.RUNNING:\n", "            goes_running = state == StepState.RUNNING\n            if goes_running:\n", 1) if "            if state == StepState.RUNNING:\n" in s else None)),
]
