"""C01 — an incremental build is equivalent to a build from scratch (structural clauses)."""
from __future__ import annotations

import ast
import itertools
import re

from ..engine import finite, flow
from ..engine.mutate import Mutant, Variant, in_function, replace_once
from ..engine.runner import Rule
from ..engine.source import AnalysisError
from ..engine.sqlfront import all_where_clauses, split_conjuncts
from . import C07
from . import C09
from . import shared
from .common import callee_name, calls_in, kwarg

EXPLANATION = (
    "Static analysis of the mechanisms that make an incremental build agree with a fresh one. Staleness must reach "
    "memories: every selector of steps/files on a change-reaction path (file content, environment variables, glob "
    "match sets, completion) must include detached nodes (keyword include_detached=True on sinks/sources calls, no "
    "detached filter in the SQL selectors), because detached steps are recycled with state and hash. The hash-based "
    "skip is reached only past both digest comparisons; success is recorded only for a clean run; a rerun starts from "
    "the declared state (reset_for_rerun's effects by compiled SQL and resolved callees, in one region before the "
    "command); a lost product invalidates its creator (chain); the propagation chain update_file_hashes -> handlers -> "
    "mark_step_pending -> mark_file_outdated is intact and each handler reacts per state (finite-domain tables); "
    "full recycle compares all four declaration lists; startup runs its scans in order before the builder resumes. "
    "Decides these necessary mechanisms, not equality of outputs and graphs for all histories. "
    'Also: every Python-level OUTDATED->BUILT revalidation is followed by the consumer notification on the same path; after_recycle overwrites every declaration attribute on every path; after_lost_product hands the invalidation up the detached creator chain; can_recycle compares each list with its own initial (dynamic=False) counterpart.'
    ' R-C01-10 reset_for_rerun drops or detaches everything a run added (eight obligations with def-use from each query to its action); R-C01-11 a reverted optional step is reset like a rerun.'
    ' R-C01-14 also rejects a selection between the launched and the stored shell flag / overrides by truth value (False and {} are values).'
)
ASSUMPTIONS = ["step hashes are sound (C13)", "the finite set of change reactions enumerated here is complete (files, env vars, globs)"]

DBCTX = lambda s: s.split(".")[-1] == "db"  # noqa: E731


def _norm(s):
    return re.sub(r"\s+", " ", s).strip()


REACTION_FUNCS = [
    "workflow.Workflow.mark_consuming_steps_pending", "workflow.Workflow.mark_step_pending", "workflow.Workflow.mark_file_outdated",
    "workflow.Workflow.handle_updated_file", "workflow.Workflow.handle_deleted_file", "workflow.Workflow.update_file_hashes",
    "workflow.Workflow.process_nglob_changes", "workflow.Workflow.persist_nglob_matches", "step.Step.mark_completed",
    "startup.rescan_nglobs", "startup.rescan_env_vars",
]


def rule_staleness_reaches_memories(ctx):
    """R-C01-1."""
    n = 0
    for fq in REACTION_FUNCS:
        fi = ctx.prog.func(fq)
        for c in calls_in(fi.node):
            nm = callee_name(c)
            if nm in ("sinks", "sources"):
                n += 1
                k = kwarg(c, "include_detached")
                pos = c.args[1] if len(c.args) > 1 else None
                val = ast.unparse(k) if k is not None else ast.unparse(pos) if pos is not None else "False (default)"
                ctx.check(val == "True", fq, f"{ast.unparse(c)}", "change reaction iterates attached nodes only: a detached step or output keeps a stale state and is recycled as up to date", "include_detached=True", where=ctx.where_of(fi, c))
            elif nm == "nglob_registrations":
                n += 1
                k = kwarg(c, "include_detached")
                val = ast.unparse(k) if k is not None else "False (default)"
                ctx.check(val == "True", fq, f"{ast.unparse(c)}", "glob match sets of detached steps are never refreshed: a recycled plan step is skipped with a stale match set", "include_detached=True", where=ctx.where_of(fi, c))
            elif nm in ("nodes", "steps") and fq.startswith(("workflow.Workflow.process", "startup.rescan")):
                n += 1
                ctx.bad(fq, ast.unparse(c), "change reaction selects through an attached-only helper", where=ctx.where_of(fi, c))
    # mark_completed: outputs are reached through products (no detached filter)
    mc = ctx.prog.func("step.Step.mark_completed")
    loops = [ast.unparse(nn.iter) for nn in ast.walk(mc.node) if isinstance(nn, ast.For)]
    ctx.check(loops and all(l == "self.products(File)" for l in loops), mc.fq, "outputs are iterated through products(File)", f"completion iterates {loops}: a selector with a detached filter leaves outputs of a detached step in the wrong state", "products(File) x2", where=ctx.where_of(mc))
    # SQL selectors of the reaction roots must not filter on detached
    for fq in ("startup.rescan_env_vars",):
        fi = ctx.prog.func(fq)
        for st in ctx.sql.stmts_in(fq):
            if st.kind != "SELECT":
                continue
            n += 1
            ws = " ".join(all_where_clauses(st.text))
            ctx.check(not re.search(r"\bdetached\b", ws) and not re.search(r"\bdetached\b", st.text), fq, "env_var selector does not filter on detached", "tracked environment variables of detached steps are not re-examined at startup", "no detached filter", where=f"stepup/core/{fi.module.path.name}:{st.site.lineno}")
    shared.check_detach_repends_attached_consumers(ctx, "a consumer declared by another plan stays SUCCEEDED on the detached output of a step that the plan no longer defines: the build ends with status 0 and both files stay, where a build from scratch leaves the consumer pending on a missing input")
    shared.check_changes_reach_detached_files(ctx, "an edit made while the node is detached (sub-plan switched off, failed or uncleaned build) is never noticed; when the sub-plan comes back its steps are recycled and skipped on a stale hash, and the output is stale")
    ng = ctx.prog.func("workflow.Workflow.nglob_registrations")
    src = _norm(ast.unparse(ng.node))
    ctx.check("if not include_detached: sql += ' WHERE NOT node.detached'" in src, ng.fq, "detached filter only without include_detached", "include_detached no longer removes the detached filter", "conditional filter")
    ufh = ctx.prog.func("workflow.Workflow.update_file_hashes")
    sel = [s for s in ctx.sql.stmts_in(ufh.fq) if s.kind == "SELECT"]
    ctx.check(bool(sel) and all("detached" not in s.text for s in sel), ufh.fq, "hash updates reach detached rows", "update_file_hashes filters out detached rows: their hash goes stale and they are recycled as current", "no detached filter")
    if n < 5:
        raise AnalysisError("selectors of the change reactions not found")


def rule_skip_after_digests(ctx):
    """R-C01-2."""
    fi = ctx.prog.func("executor.Executor.try_skip_job")
    n = 0
    for tr, st in flow.paths_of(fi):
        for k, e in enumerate(tr):
            if e[0] == "call" and e[1] == "step.mark_completed":
                n += 1
                tests = [(x[1], x[2]) for x in tr[:k] if x[0] == "test"]
                ok = ("step_hash.inp_digest != new_hash.inp_digest", False) in tests and ("step_hash.out_digest != new_hash.out_digest", False) in tests
                args = [ast.unparse(a) for a in e[2].args]
                ctx.check(ok and args == ["new_hash", "False"], fi.fq, "skip only after input and output digests matched", f"a step is recorded as done without both digest comparisons (tests before: {tests[-4:]})", "both digests compared", where=ctx.where_of(fi, e[2]))
                reg = flow.region_of(tr, k, DBCTX)
                upd = [j for j, x in enumerate(tr) if x[0] == "call" and x[1].endswith("update_file_hashes")]
                ctx.check(reg is not None and upd and reg[0] < upd[-1] < k, fi.fq, "output hashes and completion in one transaction", "skip completion split over transactions", "one region")
        tests = [(x[1], x[2]) for x in tr if x[0] == "test"]
        for t in ("step_hash.inp_digest != new_hash.inp_digest", "step_hash.out_digest != new_hash.out_digest"):
            if (t, True) in tests:
                rs = any(x[0] == "call" and x[1].endswith("_reset_step_to_pending") for x in tr)
                ctx.check(rs and st == "return", fi.fq, f"{t} => reset to pending and return", "a digest mismatch does not put the step back to PENDING without hash", "reset + return")
    if n == 0:
        raise AnalysisError("try_skip_job has no completion path")
    vd = ctx.prog.func("executor.Executor.validate_dynamic_job")
    for tr, st in flow.paths_of(vd):
        tests = [(x[1], x[2]) for x in tr if x[0] == "test"]
        if ("step_hash.inp_digest != new_hash.inp_digest", True) in tests:
            ctx.check(any(x[0] == "call" and x[1].endswith("_reset_step_to_pending") for x in tr), vd.fq, "changed inputs discard the dynamic info", "stale amended dependencies survive changed inputs", "reset")
    dj = ctx.prog.func("scheduler.Scheduler._derive_job")
    src = _norm(ast.unparse(dj.node))
    ctx.check("step_hash = step.get_hash()" in src and "RunJob(step, inp_hashes, env_deps, step_hash, job_i=job_i)" in src, dj.fq, "the compared hash is the step's stored hash", "stored hash provenance changed", "step.get_hash()")
    rj = ctx.prog.cls("job.RunJob").methods["runs_command"]
    ctx.check("return self.step_hash is None" in ast.unparse(rj.node), rj.fq, "a job runs the command iff there is no stored hash", "job kind no longer follows the stored hash", "step_hash is None")


def rule_rerun_from_declared_state(ctx):
    """R-C01-4."""
    rf = ctx.prog.func("step.Step.reset_for_rerun")
    reach = ctx.cg.reachable(rf.fq, include_by_name=False)
    writes = set()
    for f in reach | {rf.fq}:
        for s in ctx.sql.stmts_in(f):
            for (op, t, c, trig) in s.writes:
                if trig is None:
                    writes.add((op, t, c))
    need = {("DELETE", "dynamic_dep", None): "dynamic dependencies", ("DELETE", "dependency", None): "dynamic edges", ("DELETE", "nglob", None): "recorded globs",
            ("DELETE", "env_var", None): "dynamic environment variables", ("UPDATE", "node", "detached"): "created nodes are detached", ("UPDATE", "file", "state"): "BUILT outputs are outdated",
            ("DELETE", "step_outcome", None): "stored output", ("DELETE", "step_subprocess", None): "recorded subprocesses"}
    for ev, what in need.items():
        ctx.check(ev in writes, rf.fq, f"drops/resets {what}", f"reset_for_rerun no longer has the effect {ev}: the rerun starts from leftovers of the previous run", "effect present")
    callees = {callee_name(c) for c in calls_in(rf.node)}
    for nm, what in (("_detach_created_steps", "created steps"), ("detach", "static files / trees / dynamic sinks"), ("mark_file_outdated", "BUILT outputs"), ("del_sources", "dynamic source edges")):
        ctx.check(nm in callees, rf.fq, f"calls {nm} ({what})", f"{nm} no longer called", "called")
    env = [s for s in ctx.sql.stmts_in(rf.fq) if "env_var" in s.text]
    ctx.check(any(re.search(r"dynamic = 1", s.text) for s in env), rf.fq, "only dynamic environment variables are dropped", "declared environment variables are dropped too (or none)", "dynamic = 1")
    src = _norm(ast.unparse(rf.node))
    ctx.check("kind = 'st'" in src and "FILE_STATES_BY_ROLE[FileRole.STATIC]" in src, rf.fq, "detaches static trees and static-role files the step declared", "static declarations of the previous run stay attached", "trees + static files")
    ex = ctx.prog.func("executor.Executor.execute_job")
    for tr, st in flow.paths_of(ex):
        rc = [k for k, e in enumerate(tr) if e[0] == "call" and e[1].endswith("_run_command")]
        if rc:
            rr = [k for k, e in enumerate(tr[:rc[0]]) if e[0] == "call" and e[1] == "step.reset_for_rerun"]
            ok = bool(rr) and flow.region_of(tr, rr[0], DBCTX) is not None
            ctx.check(ok, ex.fq, "reset_for_rerun (in a transaction) precedes the command", "the command runs without resetting the step to its declared state", "before the command", where=ctx.where_of(ex))
    rs = ctx.prog.func("executor.Executor._reset_step_to_pending")
    for tr, st in flow.paths_of(rs):
        idx = [k for k, e in enumerate(tr) if e[0] == "call" and e[1].split(".")[-1] in ("reset_for_rerun", "delete_hash", "set_state")]
        regs = {flow.region_of(tr, k, DBCTX) for k in idx}
        ctx.check(len(idx) == 3 and len(regs) == 1 and None not in regs, rs.fq, "reset, hash deletion and PENDING in one region", "the three effects are not atomic", "one region")


def rule_lost_product(ctx):
    """R-C01-5."""
    for fq, what in (("trellis.Trellis.create", "recycle branch"), ("trellis.Node.reattach", "re-parenting")):
        fi = ctx.prog.func(fq)
        n = 0
        for tr, st in flow.paths_of(fi):
            for k, e in enumerate(tr):
                if e[0] == "call" and e[1].endswith("db.execute") and e[2].args and "UPDATE node SET creator = ?" in ast.unparse(e[2].args[0]):
                    n += 1
                    tests = [(x[1], x[2]) for x in tr[k:] if x[0] == "test"]
                    if ("old_creator is not None", False) in tests or st == "raise":
                        continue
                    ok = any(x[0] == "call" and x[1] == "old_creator.after_lost_product" for x in tr[k:])
                    ctx.check(ok, fq, f"take-over ({what}) notifies the old creator", "a node is taken away from its creator without after_lost_product: the creator keeps a hash that no longer describes a complete run", "after_lost_product", where=ctx.where_of(fi, e[2]))
        if n == 0:
            raise AnalysisError(f"{fq} no longer re-parents nodes")
    dd = ctx.prog.func("trellis.Trellis.delete_detached")
    src = _norm(ast.unparse(dd.node))
    ctx.check("self.node_from_row(creator_i, kind, label).after_lost_product()" in src and "creator_is.add(creator_i)" in src, dd.fq, "surviving creators of deleted nodes are notified", "deleting a product does not invalidate its surviving creator", "notified after the loop")
    shared.check_lost_product_chain(ctx, "only the immediate creator is invalidated: a plan further up the detached chain keeps its hash, is recycled and skipped, and what it used to declare never comes back")
    alp = ctx.prog.func("step.Step.after_lost_product")
    reach = ctx.cg.reachable(alp.fq, include_by_name=False)
    ctx.check("step.Step.delete_hash" in reach, alp.fq, "reaches delete_hash", "a step that lost a product keeps its hash and is skipped later", "delete_hash")
    rst = ctx.prog.func("workflow.Workflow.register_static_tree")
    src = _norm(ast.unparse(rst.node))
    ctx.check("if existing_creator != creator.i: raise GraphError" in src, rst.fq, "hand-over exception: only the declaring creator's own files are re-parented", "files of another creator are re-parented without notifying it", "same creator only")


def rule_propagation_chain(ctx):
    """R-C01-8."""
    root = "workflow.Workflow.update_file_hashes"
    reach = ctx.cg.reachable(root, include_by_name=False)
    for tgt in ("workflow.Workflow.handle_updated_file", "workflow.Workflow.handle_deleted_file", "workflow.Workflow.mark_consuming_steps_pending", "workflow.Workflow.mark_step_pending", "workflow.Workflow.mark_file_outdated", "step.Step.set_state", "file.File.set_state"):
        ctx.check(tgt in reach, root, f"reaches {tgt.split('.')[-2]}.{tgt.split('.')[-1]}", f"propagation chain broken: {tgt} is no longer reachable from update_file_hashes", "reachable")
    ufh = ctx.prog.func(root)
    src = _norm(ast.unparse(ufh.node))
    for tag, handler in (("updated", "self.handle_updated_file(File(self, i, path))"), ("deleted", "self.handle_deleted_file(File(self, i, path))"), ("completed", "self.mark_consuming_steps_pending(File(self, i, path))")):
        ctx.check(f"for i, path in action_lists['{tag}']: {handler}" in src, root, f"action '{tag}' is consumed by its handler", f"rows tagged '{tag}' are not handed to {handler.split('(')[0]}", "consumed")
    FS, SS = ctx.prog.enum("FileState"), ctx.prog.enum("StepState")
    hu = ctx.prog.func("workflow.Workflow.handle_updated_file")
    for st in FS:
        fp = finite.feasible_paths(ctx.prog, hu, {}, {"file.get_state()": st})
        eff = {e[1] for tr, s in fp for e in tr if e[0] == "call" and e[1] in ("self.mark_consuming_steps_pending", "self.mark_step_pending")}
        if st == FS.CONFIRMED:
            ctx.check(eff == {"self.mark_consuming_steps_pending"}, hu.fq, "CONFIRMED: consumers are re-pended", f"effects {sorted(eff)}", "consumers")
        elif st in (FS.PLANNED, FS.OUTDATED):
            ctx.check("self.mark_step_pending" in eff, hu.fq, f"{st.name}: the creator is re-pended", f"effects {sorted(eff)}: an externally changed output is not rebuilt", "creator")
    hd = ctx.prog.func("workflow.Workflow.handle_deleted_file")
    for st in (FS.PLANNED, FS.MISSING):
        fp = finite.feasible_paths(ctx.prog, hd, {}, {"file.get_state()": st})
        effs = [[e[1] for e in tr if e[0] == "call" and e[1] in ("self.mark_consuming_steps_pending", "self.mark_step_pending")] for tr, s in fp]
        ok = bool(effs) and all("self.mark_consuming_steps_pending" in eff for eff in effs) and (st != FS.PLANNED or any("self.mark_step_pending" in eff for eff in effs))
        ctx.check(ok, hd.fq, f"{st.name}: consumers always, creator (when it is a step) for PLANNED", f"effects per path {effs}", "ok")
    ms = ctx.prog.func("workflow.Workflow.mark_step_pending")
    for st in SS:
        fp = finite.feasible_paths(ctx.prog, ms, {}, {"step.get_state()": st})
        for tr, s in fp:
            sets = [e for e in tr if e[0] == "call" and e[1] == "step.set_state"]
            loops = [e for e in tr if e[0] == "loop" and "step.sinks(File" in e[1]]
            if st in (SS.RUNNING, SS.CHECKING):
                ctx.check(not sets, ms.fq, f"{st.name}: ignored", "a running/checking step is re-pended under its own feet", "ignored")
            else:
                ctx.check(bool(sets), ms.fq, f"{st.name}: becomes PENDING", "step not re-pended", "PENDING")
                if st in (SS.SUCCEEDED, SS.FAILED):
                    ctx.check(bool(loops), ms.fq, f"{st.name}: BUILT outputs are outdated", "outputs of a re-pended step stay BUILT: consumers see them as current", "outputs visited")
    mo = ctx.prog.func("workflow.Workflow.mark_file_outdated")
    for st in FS:
        fp = finite.feasible_paths(ctx.prog, mo, {}, {"file.get_state()": st})
        for tr, s in fp:
            eff = [e[1] for e in tr if e[0] == "call" and e[1] in ("file.set_state", "self.mark_consuming_steps_pending")]
            if st == FS.BUILT:
                ctx.check(eff == ["file.set_state", "self.mark_consuming_steps_pending"], mo.fq, "BUILT: outdated and consumers re-pended", f"effects {eff}", "recurses into consumers")
            elif st == FS.OUTDATED:
                ctx.check(eff == [] and s != "raise", mo.fq, "OUTDATED: nothing to do", f"effects {eff}", "no-op")
    shared.check_built_notifies(ctx, "a file is revalidated as BUILT without notifying its consumers: a step deferred on it stays parked")
    mcp = ctx.prog.func("workflow.Workflow.mark_consuming_steps_pending")
    ctx.check("self.mark_step_pending(step)" in ast.unparse(mcp.node), mcp.fq, "re-pends every consuming step", "consumers not re-pended", "mark_step_pending")
    png = ctx.prog.func("workflow.Workflow.persist_nglob_matches")
    names = [callee_name(c) for c in calls_in(png.node)]
    ctx.check({"delete_hash", "mark_step_pending"} <= set(names), png.fq, "glob change: hash dropped and step re-pended", "a changed glob match set does not force the step to run", "both")
    pn = ctx.prog.func("workflow.Workflow.process_nglob_changes")
    ctx.check("evolved = ng.will_change(deleted, updated)" in _norm(ast.unparse(pn.node)) and "self.persist_nglob_matches(i, step, evolved)" in _norm(ast.unparse(pn.node)), pn.fq, "changed registrations are persisted", "watch-side glob reaction broken", "will_change -> persist")
    # the stored value of a tracked variable is what the next restart compares the environment with: once a change has
    # been acted upon, the stored value has to follow it (else A -> B -> A is invisible the second time)
    reach = {"startup.rescan_env_vars"} | ctx.cg.reachable("startup.rescan_env_vars", include_by_name=True)
    writes_value = any(("UPDATE", "env_var", "value", None) in st_.writes or any(w[0] in ("INSERT",) and w[1] == "env_var" for w in st_.writes)
                       for fq in reach if fq.startswith(("startup.", "step.Step.refresh", "step.Step.add_env", "step.Step.amend_env")) for st_ in ctx.sql.stmts_in(fq))
    ctx.check(writes_value, "startup.rescan_env_vars", "the stored value of a changed variable is updated when the change is acted upon",
              "env_var.value is only written when a step is defined or amends: after the variable changed (and the step was rerun) the stored value still is the old one, so when the variable changes back the rescan sees no difference, the step is not rerun and its output keeps the result of the intermediate value", "UPDATE env_var SET value reachable from rescan_env_vars")
    re_ = ctx.prog.func("startup.rescan_env_vars")
    src = _norm(ast.unparse(re_.node))
    ctx.check("new_value = os.getenv(name)" in src and "if new_value == old_value: continue" in src and "workflow.mark_step_pending(step)" in src, re_.fq, "a changed variable re-pends its steps", "environment reaction broken", "compare + re-pend")


def rule_recycle_compare(ctx):
    """R-C01-9."""
    cr = ctx.prog.func("step.Step.can_recycle")
    shared.check_can_recycle_compares_roles(ctx, "can_recycle no longer compares {p} on its own: a redefinition with different {p} is recycled with its old state and hash")
    rets = [n for n in ast.walk(cr.node) if isinstance(n, ast.Return)]
    falses = [r for r in rets if isinstance(r.value, ast.Constant) and r.value.value is False]
    others = [r for r in rets if r not in falses]
    ctx.check(len(falses) >= 3 and len(others) == 1 and isinstance(others[0].value, ast.Compare), cr.fq, "the only way to answer True is the final comparison, after every earlier mismatch returned False", f"{len(falses)} `return False`, other returns: {[ast.unparse(r) for r in others][:3]}", "early refusals + one final comparison")
    # what can_recycle does not compare is overwritten from the new declaration, on every path of after_recycle
    ar = ctx.prog.func("step.Step.after_recycle")
    for tr, st in flow.paths_of(ar):
        if st == "raise":
            continue
        got = {e[1]: e[2] for e in tr if e[0] == "call"}
        for setter, arg in (("self.set_resources", "resources"), ("self.set_env_overrides", "env_overrides")):
            c = got.get(setter)
            ctx.check(c is not None and len(c.args) == 1 and ast.unparse(c.args[0]) == arg, ar.fq, f"{setter.split('.')[1]}({arg}) on every path",
                      f"a recycled step keeps the {arg} of its previous declaration on some path: the graph differs from a build from scratch", "unconditional", where=ctx.where_of(ar))
    upd = [s for s in ctx.sql.stmts_in(ar.fq) if s.kind == "UPDATE"]
    ctx.check(any(re.search(r"SET need = \? , shell = \?", s.text) for s in upd), ar.fq, "need and shell are overwritten from the new declaration", "need/shell of the previous declaration survive a recycle", "UPDATE step SET need, shell")
    ds = ctx.prog.func("workflow.Workflow.define_step")
    call = [c for c in calls_in(ds.node) if callee_name(c) == "try_recycle"]
    if not call:
        raise AnalysisError("define_step no longer calls try_recycle")
    kws = {k.arg: ast.unparse(k.value) for k in call[0].keywords}
    for p in ("inp_paths", "env_deps", "out_paths", "vol_paths"):
        ctx.check(kws.get(p) == p, ds.fq, f"passes {p} to try_recycle", f"{p} is not passed to the compatibility test", "passed")
    tr_ = ctx.prog.func("trellis.Trellis.try_recycle")
    src = _norm(ast.unparse(tr_.node))
    ctx.check("if node is None or not detached or (not node.can_recycle(**kwargs)): return None" in src.replace("or not node.can_recycle(**kwargs)", "or (not node.can_recycle(**kwargs))"), tr_.fq, "recycle requires a detached node that accepts the declaration", "try_recycle guard changed", "guarded")
    shared.check_initialize_row_carry_over(ctx, "a recycled BUILT output is trusted as up to date (or a fresh row is outdated needlessly)")
    shared.check_after_recycle_repends(ctx, "a recycled step is trusted although it failed or lost its hash (or is re-run needlessly)")
    shared.check_can_recycle_counts_own_outputs(ctx, "an edge to an output that an earlier re-declaration dropped survives the partial recycle; when the step is detached and declared with that output again, can_recycle takes the stale edge for a declaration, the step is recycled as complete, and the output (an orphan without creator) is deleted by the cleanup although the plan declares it")


def rule_startup_order(ctx):
    """R-C01-7."""
    sv = ctx.prog.func("director.serve")
    for tr, st in flow.paths_of(sv):
        res = [k for k, e in enumerate(tr) if e[0] == "call" and e[1].endswith("builder.resume.set")]
        if not res:
            continue
        tests = [(e[1], e[2]) for e in tr[:res[0]] if e[0] == "test"]
        if ("initialized", False) in tests:
            ok = any(e[0] == "call" and e[1] == "resume_from_db" for e in tr[:res[0]])
            ctx.check(ok, sv.fq, "resume_from_db precedes builder.resume.set() on the resumed path", "the builder can start before the startup rescans", "before resume")
        ib = [k for k, e in enumerate(tr) if e[0] == "call" and e[1].endswith("initialize_boot")]
        ctx.check(bool(ib) and ib[0] < res[0], sv.fq, "boot initialisation precedes the builder", "", "before resume")
    rd = ctx.prog.func("startup.resume_from_db")
    seq = [callee_name(c) for c in calls_in(rd.node) if callee_name(c).startswith(("reset_", "rescan_"))]
    ctx.check(seq == ["reset_interrupted_steps", "rescan_env_vars", "rescan_files", "rescan_nglobs"], rd.fq, "reset interrupted -> env vars -> files -> globs", f"startup order is {seq}", "order kept")
    ri = ctx.prog.func("startup.reset_interrupted_steps")
    src = _norm(ast.unparse(ri.node))
    shared.check_failed_steps_retried(ctx, "a step that failed (or was interrupted) while detached comes back FAILED when an ancestor is recycled and skipped, and is never retried: the incremental build fails where a build from scratch succeeds")


def rule_rerun_starts_clean(ctx):
    """R-C01-10: a step that runs again starts from its declaration."""
    shared.check_reset_for_rerun(ctx, "what the previous run amended, registered or created survives into the next run: the step keeps inputs, outputs, globs or products that its script no longer asks for, which a build from scratch never has")


def rule_recreated_node_starts_clean(ctx):
    """R-C01-12: a node that Trellis.create reuses starts from the new declaration.

    Reusing the row of a detached node (partial recycle) keeps its id and nothing else: its input edges are cut, its
    products are cut loose (R-C09-3), and the row is initialised and validated from the new arguments on every path.
    """
    fi = ctx.prog.func("trellis.Trellis.create")
    n_ret = 0
    for tr, st in flow.paths_of(fi):
        if st != "return":
            continue
        n_ret += 1
        calls = [e[1] for e in tr if e[0] == "call"]
        tests = [(e[1], e[2]) for e in tr if e[0] == "test"]
        reused = ("node is not None", True) in tests
        ok_init = "node.initialize_row" in calls and "node.validate_row" in calls and calls.index("node.initialize_row") < calls.index("node.validate_row")
        ok_cut = (not reused) or "node.del_all_sources" in calls
        if not (ok_init and ok_cut):
            ctx.bad(fi.fq, "every path initialises and validates the row; a reused node loses its old input edges first", f"path (reused={reused}): initialise+validate={ok_init}, inputs cut={ok_cut}: a re-created step keeps the inputs (or the row) of its previous definition, which a build from scratch never has", where=ctx.where_of(fi))
            return
    ctx.check(n_ret >= 3, fi.fq, "every path initialises and validates the row; a reused node loses its old input edges first", f"{n_ret} returning paths", f"{n_ret} paths")
    da = ctx.prog.func("trellis.Node.del_all_sources")
    dels = [s_ for s_ in ctx.sql.stmts_in(da.fq) if s_.kind == "DELETE" and ("DELETE", "dependency", None, None) in s_.writes and "sink = ?" in re.sub(r"\s+", " ", s_.text).replace(" . ", ".")]
    ctx.check(len(dels) == 1, da.fq, "del_all_sources deletes every edge into the node", f"{len(dels)} matching DELETE", "DELETE FROM dependency WHERE sink = ?")


def rule_hash_of_what_ran(ctx):
    """R-C01-14: the step hash recorded after a command is made of the shell flag and the overrides the command was started
    with; a step whose declaration changed meanwhile is checked again.

    A running step can be declared again (full recycle) with another shell flag or other env_overrides.  after_recycle
    stores the new values and cannot re-pend a RUNNING step.  If the hash after the command is computed from the stored
    values, the step is SUCCEEDED for a declaration that never ran, and every later build skips it.
    """
    rc = ctx.prog.func("executor.Executor._run_command")
    sets = {}
    for a in ast.walk(rc.node):
        if isinstance(a, ast.Assign) and len(a.targets) == 1 and isinstance(a.targets[0], ast.Attribute) and isinstance(a.targets[0].value, ast.Name) and a.targets[0].value.id == "run":
            sets[a.targets[0].attr] = ast.unparse(a.value)
    shell_attr = [k for k, v in sets.items() if v == "shell"]
    env_attr = [k for k, v in sets.items() if "env_overrides" in v and k not in shell_attr]
    ctx.check(bool(shell_attr) and bool(env_attr), rc.fq, "the shell flag and the overrides handed to the command are kept on the run", f"run attributes set from them: {sets}", f"run.{(shell_attr or ['?'])[0]}, run.{(env_attr or ['?'])[0]}", where=ctx.where_of(rc))
    if not (shell_attr and env_attr):
        return
    sa, ea = shell_attr[0], env_attr[0]
    launch = [c for c in calls_in(rc.node) if callee_name(c) == "launch_command"]
    ok = bool(launch) and any(k.arg == "shell" and ast.unparse(k.value) == "shell" for k in launch[0].keywords)
    ctx.check(ok, rc.fq, "the command is launched with the very values that are kept", "launch_command gets another shell flag than the one recorded", "shell=shell")
    cf = ctx.prog.func("executor.Executor._compute_full_step_hash")
    fi_call = [c for c in calls_in(cf.node) if callee_name(c) == "from_inp"]
    if not fi_call:
        raise AnalysisError("_compute_full_step_hash: StepHash.from_inp call not found")
    kws = {k.arg: k.value for k in fi_call[0].keywords}

    def derives_from_run(expr, attr):
        if isinstance(expr, ast.Name):
            defs = [a.value for a in ast.walk(cf.node) if isinstance(a, ast.Assign) and len(a.targets) == 1 and isinstance(a.targets[0], ast.Name) and a.targets[0].id == expr.id]
            return any(any(isinstance(x, ast.Attribute) and x.attr == attr and isinstance(x.value, ast.Name) and x.value.id == "run" for x in ast.walk(d)) for d in defs)
        return any(isinstance(x, ast.Attribute) and x.attr == attr and isinstance(x.value, ast.Name) and x.value.id == "run" for x in ast.walk(expr))

    ctx.check("shell" in kws and derives_from_run(kws["shell"], sa), cf.fq, "the recorded hash uses the shell flag the command was started with", f"shell comes from the database after the command: a step declared again with another flag while it ran is SUCCEEDED for the new flag with the output of the old one", f"run.{sa}", where=ctx.where_of(cf))
    ctx.check("env_overrides" in kws and derives_from_run(kws["env_overrides"], ea), cf.fq, "the recorded hash uses the overrides the command was started with", "env_overrides come from the database after the command", f"run.{ea}", where=ctx.where_of(cf))
    # a recorded False / {} is a value, not an absence: a selection between the recorded and the stored value may only ask
    # whether something was recorded (is None), never whether it is truthy
    def is_run_attr(x, attr):
        return isinstance(x, ast.Attribute) and x.attr == attr and isinstance(x.value, ast.Name) and x.value.id == "run"

    for attr, what in ((sa, "shell flag"), (ea, "overrides")):
        by_truth = []
        for n in ast.walk(cf.node):
            if isinstance(n, ast.BoolOp) and any(is_run_attr(v, attr) for v in n.values):
                by_truth.append(ast.unparse(n))
            elif isinstance(n, (ast.IfExp, ast.If)):
                t = n.test.operand if isinstance(n.test, ast.UnaryOp) and isinstance(n.test.op, ast.Not) else n.test
                if is_run_attr(t, attr):
                    by_truth.append(ast.unparse(n.test))
        ctx.check(not by_truth, cf.fq, f"the recorded {what} is used whenever one was recorded, also when it is False or empty",
                  f"selected by truth value ({by_truth}): a command launched with {'shell=False' if attr == sa else 'no overrides'} is hashed with the values of a later declaration and ends SUCCEEDED for a declaration that never ran",
                  "selected by `is None`, or used directly", where=ctx.where_of(cf))
    ej = ctx.prog.func("executor.Executor.execute_job")
    hits = [n for n in ast.walk(ej.node) if isinstance(n, ast.If) and f"run.{sa}" in ast.unparse(n.test) and f"run.{ea}" in ast.unparse(n.test) and any(callee_name(c) == "mark_step_pending" for st_ in n.body for c in calls_in(st_))]
    ctx.check(len(hits) == 1, ej.fq, "a step whose shell flag or overrides were re-declared while it ran is made pending again", "nothing compares the declaration with what was launched: the build ends with an output that does not belong to the final declaration", "compare + mark_step_pending", where=ctx.where_of(ej))


RULES = [
    Rule("R-C01-14", "the recorded hash describes the command that ran", rule_hash_of_what_ran, min_instances=7),
    Rule("R-C01-13", "an observed change of a file is written and its consumers are told (update_file_hashes applies its table)", C09.rule_transitions_applied, min_instances=8),
    Rule("R-C01-12", "a reused node starts from the new declaration", rule_recreated_node_starts_clean, min_instances=2),
    Rule("R-C01-11", "a reverted optional step forgets what its run amended (same end state as a build that never ran it)", C07.rule_revert_forgets_run, min_instances=5),
    Rule("R-C01-10", "a rerun starts from the declaration", rule_rerun_starts_clean, min_instances=10),
    Rule("R-C01-1", "staleness reaches memories (detached-inclusive selectors)", rule_staleness_reaches_memories, min_instances=8),
    Rule("R-C01-2", "skip only after both digests matched", rule_skip_after_digests, min_instances=7),
    Rule("R-C01-4", "a rerun starts from the declared state", rule_rerun_from_declared_state, min_instances=16),
    Rule("R-C01-5", "a lost product invalidates the creator", rule_lost_product, min_instances=5),
    Rule("R-C01-7", "startup order", rule_startup_order, min_instances=4),
    Rule("R-C01-8", "the propagation chain is intact", rule_propagation_chain, min_instances=25),
    Rule("R-C01-9", "full recycle compares the whole declaration", rule_recycle_compare, min_instances=20),
]

MUTANTS = [
    Mutant("recorded-empty-overrides-taken-for-absent", "executor.py", in_function("Executor._compute_full_step_hash", lambda t: __import__("re").sub(r"env_overrides = \(\s*run\.step\.get_env_overrides\(\)\s*if run\.launched_env_overrides is None\s*else run\.launched_env_overrides\s*\)", "env_overrides = run.launched_env_overrides or run.step.get_env_overrides()", t, count=1) if __import__("re").search(r"if run\.launched_env_overrides is None", t) else None), ("R-C01-14",)),
    Mutant("recorded-false-shell-taken-for-absent", "executor.py", in_function("Executor._compute_full_step_hash", replace_once("shell = run.step.uses_shell() if run.launched_shell is None else run.launched_shell", "shell = run.launched_shell or run.step.uses_shell()")), ("R-C01-14",)),
    Mutant("hash-from-redeclared-shell", "executor.py", in_function("Executor._compute_full_step_hash", replace_once("            shell = run.step.uses_shell() if run.launched_shell is None else run.launched_shell\n", "            shell = run.step.uses_shell()\n")), ("R-C01-14",)),
    Mutant("redeclared-running-step-not-rechecked", "executor.py", in_function("Executor.execute_job", replace_once("                self.workflow.mark_step_pending(step)\n", "                pass\n")), ("R-C01-14",)),
    Mutant("launched-overrides-not-kept", "executor.py", in_function("Executor._run_command", replace_once("        run.launched_env_overrides = dict(env_overrides)\n", "")), ("R-C01-14",)),
    Mutant("recreated-node-keeps-inputs", "trellis.py", in_function("Trellis.create", replace_once("            node.del_all_sources()\n", "")), ("R-C01-12",)),
    Mutant("recreated-row-not-initialised", "trellis.py", in_function("Trellis.create", replace_once("        node.initialize_row(**kwargs)\n", "")), ("R-C01-12",)),
    Mutant("del-all-sources-deletes-nothing", "trellis.py", in_function("Node.del_all_sources", lambda t: t.replace('self.db.execute("DELETE FROM dependency WHERE sink = ?", (self.i,))', "pass", 1) if 'DELETE FROM dependency WHERE sink = ?' in t else None), ("R-C01-12",)),
    Mutant("reset-keeps-deferred-flag", "step.py", in_function("Step.reset_for_rerun", replace_once('        self.db.execute("UPDATE step SET deferred = FALSE WHERE node = ? AND deferred", (self.i,))\n', "")), ("R-C01-10",)),
    Mutant("rerun-keeps-dynamic-input-rows", "step.py", in_function("Step.reset_for_rerun", replace_once('        self.db.executemany("DELETE FROM dynamic_dep WHERE i = ?", ((row[0],) for row in rows))\\n'.replace("\\n", "\n"), ''.replace("\\n", "\n"))), ("R-C01-10",)),
    Mutant("rerun-keeps-dynamic-input-edges", "step.py", in_function("Step.reset_for_rerun", replace_once('        self.del_sources([self.graph.node_from_row(i, kind, label) for _, i, label, kind in rows])\\n'.replace("\\n", "\n"), ''.replace("\\n", "\n"))), ("R-C01-10",)),
    Mutant("rerun-keeps-dynamic-output-rows", "step.py", in_function("Step.reset_for_rerun", replace_once('        self.db.executemany("DELETE FROM dynamic_dep WHERE i = ?", ideps_sink)\\n'.replace("\\n", "\n"), ''.replace("\\n", "\n"))), ("R-C01-10",)),
    Mutant("rerun-keeps-dynamic-output-edge", "step.py", in_function("Step.reset_for_rerun", replace_once('            node.del_sources([self])\\n'.replace("\\n", "\n"), ''.replace("\\n", "\n"))), ("R-C01-10",)),
    Mutant("rerun-keeps-dynamic-output-attached", "step.py", in_function("Step.reset_for_rerun", replace_once('            node.del_sources([self])\\n            node.detach()\\n'.replace("\\n", "\n"), '            node.del_sources([self])\\n'.replace("\\n", "\n"))), ("R-C01-10",)),
    Mutant("rerun-keeps-static-files", "step.py", in_function("Step.reset_for_rerun", replace_once('            file.detach()\\n'.replace("\\n", "\n"), '            pass\\n'.replace("\\n", "\n"))), ("R-C01-10",)),
    Mutant("rerun-keeps-static-trees", "step.py", in_function("Step.reset_for_rerun", replace_once('            st.detach()\\n'.replace("\\n", "\n"), '            pass\\n'.replace("\\n", "\n"))), ("R-C01-10",)),
    Mutant("created-steps-loop-detaches-nothing", "step.py", in_function("Step._detach_created_steps", replace_once('            step.detach()\\n'.replace("\\n", "\n"), '            pass\\n'.replace("\\n", "\n"))), ("R-C01-10",)),
    Mutant("r10-rerun-keeps-globs", "step.py", in_function("Step.reset_for_rerun", replace_once('        self.db.execute("DELETE FROM nglob WHERE node = ?", (self.i,))\\n'.replace("\\n", "\n"), ''.replace("\\n", "\n"))), ("R-C01-10",)),
    Mutant("rerun-keeps-dynamic-env", "step.py", in_function("Step.reset_for_rerun", replace_once('        self.db.execute("DELETE FROM env_var WHERE node = ? AND dynamic = 1", (self.i,))\\n'.replace("\\n", "\n"), ''.replace("\\n", "\n"))), ("R-C01-10",)),
    Mutant("rerun-detaches-attached-products-only", "step.py", in_function("Step._detach_created_steps", replace_once('sql = "SELECT i, label FROM node WHERE creator = ? AND kind = \'step\'"'.replace("\\n", "\n"), 'sql = "SELECT i, label FROM node WHERE creator = ? AND kind = \'step\' AND NOT detached"'.replace("\\n", "\n"))), ("R-C01-10",)),
    Mutant("env-change-not-recorded", "startup.py", in_function("rescan_env_vars", replace_once("                steps_to_rerun[node_i].refresh_env_dep(name)\n", "                pass\n")), ("R-C01-8",)),
    Mutant("recycle-counts-stale-output-edges", "step.py", in_function("Step.can_recycle", lambda s: s.replace(" if r.path in own_paths)", ")") if " if r.path in own_paths)" in s else None), ("R-C01-9",)),
    Mutant("recycle-ignores-new-overrides", "step.py", in_function("Step.after_recycle", replace_once("state == StepState.SUCCEEDED and (self.get_hash() is None or hashed_args_changed)", "state == StepState.SUCCEEDED and self.get_hash() is None")), ("R-C01-9",)),
    Mutant("lost-product-one-level", "step.py", in_function("Step.after_lost_product", replace_once("creator.after_lost_product()", "creator.delete_hash()")), ("R-C01-5",)),
    Mutant("consumers-attached-only", "workflow.py", in_function("Workflow.mark_consuming_steps_pending", replace_once("file.sinks(Step, include_detached=True)", "file.sinks(Step)")), ("R-C01-1",)),
    Mutant("outputs-attached-only", "workflow.py", in_function("Workflow.mark_step_pending", replace_once("step.sinks(File, include_detached=True)", "step.sinks(File)")), ("R-C01-1",)),
    Mutant("env-attached-only", "startup.py", replace_once('sql = "SELECT node, label, name, value FROM env_var JOIN node ON env_var.node = node.i"', 'sql = "SELECT node, label, name, value FROM env_var JOIN node ON env_var.node = node.i WHERE NOT node.detached"'), ("R-C01-1",)),
    Mutant("nglob-rescan-attached-only", "startup.py", replace_once("workflow.nglob_registrations(include_detached=True)", "workflow.nglob_registrations()"), ("R-C01-1",)),
    Mutant("completion-via-sinks", "step.py", in_function("Step.mark_completed", lambda s: s.replace("            for file in self.products(File):\n                if file.get_state() == FileState.OUTDATED:", "            for file in self.sinks(File):\n                if file.get_state() == FileState.OUTDATED:") if "if file.get_state() == FileState.OUTDATED:" in s else None), ("R-C01-1",)),
    Mutant("skip-ignores-outputs", "executor.py", in_function("Executor.try_skip_job", lambda s: s.replace("        if step_hash.out_digest != new_hash.out_digest:", "        if False:") if "if step_hash.out_digest != new_hash.out_digest:" in s else None), ("R-C01-2",)),
    Mutant("skip-mismatch-no-reset", "executor.py", in_function("Executor.try_skip_job", lambda s: s.replace("            await self._noskip(run, step_hash, new_hash)\n            await self._reset_step_to_pending(step)\n            return\n\n        # Compute the output part", "            await self._noskip(run, step_hash, new_hash)\n            return\n\n        # Compute the output part") if "# Compute the output part" in s else None), ("R-C01-2",)),
    Mutant("rerun-keeps-globs", "step.py", in_function("Step.reset_for_rerun", replace_once('        self.db.execute("DELETE FROM nglob WHERE node = ?", (self.i,))\n', "")), ("R-C01-4",)),
    Mutant("rerun-keeps-created-steps", "step.py", in_function("Step.reset_for_rerun", replace_once("        self._detach_created_steps()\n", "")), ("R-C01-4",)),
    Mutant("no-reset-before-run", "executor.py", in_function("Executor.execute_job", replace_once("        async with self.db:\n            step.reset_for_rerun()\n", "")), ("R-C01-4",)),
    Mutant("create-no-lost-product", "trellis.py", in_function("Trellis.create", replace_once("                old_creator.after_lost_product()\n", "                pass\n")), ("R-C01-5",)),
    Mutant("lost-product-keeps-hash", "step.py", in_function("Step.after_lost_product", replace_once("        self.delete_hash()\n", "")), ("R-C01-5",)),
    Mutant("resume-before-rescan", "director.py", in_function("serve", lambda s: s.replace("    else:\n        await resume_from_db(handler.workflow, reporter, handler.builder)\n", "", 1).replace("    handler.builder.resume.set()\n", "    handler.builder.resume.set()\n    if not initialized:\n        await resume_from_db(handler.workflow, reporter, handler.builder)\n", 1) if "await resume_from_db(handler.workflow, reporter, handler.builder)" in s else None), ("R-C01-7",)),
    Mutant("confirmed-update-ignored", "workflow.py", in_function("Workflow.handle_updated_file", lambda s: s.replace("        if state == FileState.CONFIRMED:\n            self.mark_consuming_steps_pending(file)\n        elif", "        if", 1) if "if state == FileState.CONFIRMED:" in s else None), ("R-C01-8",)),
    Mutant("completed-not-propagated", "workflow.py", in_function("Workflow.update_file_hashes", replace_once('        for i, path in action_lists["completed"]:\n            self.mark_consuming_steps_pending(File(self, i, path))\n', "")), ("R-C01-8",)),
    Mutant("outdated-not-recursive", "workflow.py", in_function("Workflow.mark_file_outdated", replace_once("            file.set_state(FileState.OUTDATED)\n            self.mark_consuming_steps_pending(file)\n", "            file.set_state(FileState.OUTDATED)\n")), ("R-C01-8",)),
    Mutant("revalidated-not-propagated", "step.py", in_function("Step.mark_completed", replace_once("                    file.set_state(FileState.BUILT)\n                    self.graph.mark_consuming_steps_pending(file)\n", "                    file.set_state(FileState.BUILT)\n")), ("R-C01-8",)),
    Mutant("repend-running", "workflow.py", in_function("Workflow.mark_step_pending", replace_once("        if state in (StepState.RUNNING, StepState.CHECKING):\n            return\n", "")), ("R-C01-8",)),
    Mutant("recycle-keeps-overrides", "step.py", in_function("Step.after_recycle", replace_once("        self.set_env_overrides(env_overrides)\n", "        if state == StepState.FAILED:\n            self.set_env_overrides(env_overrides)\n")), ("R-C01-9",)),
    Mutant("recycle-ignores-env", "step.py", in_function("Step.can_recycle", replace_once("        if old_env_vars != sorted(env_deps):\n            return False\n", "")), ("R-C01-9",)),
    Mutant("recycle-trusts-built", "file.py", in_function("File.initialize_row", replace_once("        if state == FileState.BUILT:\n            self.graph.mark_file_outdated(self)\n", "")), ("R-C01-9",)),
]

VARIANTS = [
    Variant("positional-include-detached", "workflow.py", in_function("Workflow.mark_consuming_steps_pending", replace_once("file.sinks(Step, include_detached=True)", "file.sinks(Step, True)"))),
]
