"""C18 — 'under this directory' selects exactly the paths under it.

Decided clauses (DESIGN.md §4 C18): every selection of stored labels by a directory prefix, in SQL
or in Python, is written in an idiom that is exact byte for byte; the range upper bound comes from
``dir_range_upper``; tree labels end in a separator and file labels never do; every selection whose
directory operand can be the project root special-cases it.
"""
from __future__ import annotations

import ast
import re

from ..engine.mutate import Mutant, Variant, in_function, replace_once, sub_once
from ..engine.runner import Rule
from ..engine.source import AnalysisError, Evaluator, FoldError
from ..engine.sqlfront import Catalogue, split_statements, tokenize, untokenize
from .common import callee_name, calls_in, is_sep, same, stmts_of

EXPLANATION = (
    "Static analysis of every prefix selection over stored labels. All 241 SQL call sites are folded to their "
    "statement texts and tokenised; each use of a label column under LIKE/GLOB/substr()/range comparison/COLLATE/"
    "lower()/upper() is classified against the table of exact idioms (byte-exact substr equality, half-open range "
    "whose upper bound is dir_range_upper of the lower bound by def-use, label = substr(?,1,length(label))). "
    "Python-side startswith() selections are required to have a separator-terminated operand on every path. "
    "dir_range_upper itself is folded on probe strings; label normal forms (tree labels end in '/', file labels "
    "never) and root awareness of each selection are checked structurally. Decides the structural clauses, not the "
    "value-level equality of the selected sets (which follows from them under the assumption below). "
    'Also: BETWEEN on a label is classified (inclusive upper bound) and the three sibling sites that select outputs under a directory target must each keep the half-open range.'
)
ASSUMPTIONS = [
    "SQLite's BINARY collation compares UTF-8 text with memcmp and '=' on a BINARY column is byte equality",
    "node labels are stored in normal form (no leading './'), which C20's rules check on the client side",
]

LABEL_COLS = {"label"}
# Non-prefix uses of LIKE/GLOB on a label column: (function, reason)
LIKE_EXEMPT = {
    "workflow.Workflow.format_dot_dependency": "suffix test LIKE '%/' that hides directory nodes in a drawing; not a selection under a directory",
    "workflow.Workflow._format_dot_generic": "executes the drawing queries passed by format_dot_dependency (suffix test LIKE '%/')",
    "browse": "interactive search box: the user types a GLOB pattern",
}
SCOPE_MODULES = ("workflow", "clean", "scheduler", "sqlite3", "watcher", "finalize", "file", "trellis", "step", "startup",
                 "pending", "builder", "director", "path", "executor", "hash_queue")


def _label_operand_at(toks, i):
    """If toks[i] starts an operand that is a label column, return the index after it."""
    t = toks[i]
    if t.kind != "id":
        return None
    j = i
    name = [t.text]
    while j + 2 < len(toks) and toks[j + 1].text == "." and toks[j + 2].kind == "id":
        name.append(toks[j + 2].text)
        j += 2
    if name[-1].lower() in LABEL_COLS and not (j + 1 < len(toks) and toks[j + 1].text == "("):
        # not preceded by a dot (would be the tail of a longer chain handled earlier)
        if i > 0 and toks[i - 1].text == ".":
            return None
        return j + 1
    return None


def classify_statement(stmt: str):
    """Yield (idiom, detail) for every prefix-like use of a label column in one statement."""
    toks = tokenize(stmt)
    n = len(toks)
    i = 0
    out = []
    while i < n:
        end = _label_operand_at(toks, i)
        if end is None:
            i += 1
            continue
        operand = untokenize(toks[i:end])
        nxt = toks[end] if end < n else None
        nxt_up = nxt.up if nxt is not None else ""
        prev = toks[i - 1] if i > 0 else None
        prev2 = toks[i - 2] if i > 1 else None
        # wrapped in a case-changing function?
        if prev is not None and prev.text == "(" and prev2 is not None and prev2.kind == "id" and prev2.up in ("LOWER", "UPPER"):
            out.append(("casefold-function", f"{prev2.text}({operand})"))
        if nxt_up == "COLLATE":
            coll = toks[end + 1].text if end + 1 < n else "?"
            if coll.upper() != "BINARY":
                out.append(("collate", f"{operand} COLLATE {coll}"))
        k = end
        if nxt_up == "NOT" and k + 1 < n and toks[k + 1].up in ("LIKE", "GLOB"):
            k += 1
            nxt_up = toks[k].up
        if nxt_up == "NOT" and k + 1 < n and toks[k + 1].up == "BETWEEN":
            k += 1
            nxt_up = "BETWEEN"
        if nxt_up == "BETWEEN":
            out.append(("between", f"{operand} BETWEEN …"))
        elif nxt_up in ("LIKE", "GLOB"):
            # pattern operand up to the next top-level keyword
            j = k + 1
            d = toks[k].depth
            while j < n and not (toks[j].depth <= d and toks[j].kind == "id" and toks[j].up in ("AND", "OR", "ORDER", "GROUP", "LIMIT", "THEN", "ELSE", "END")) and not (toks[j].depth < d):
                j += 1
            pat = toks[k + 1:j]
            pat_txt = untokenize(pat)
            has_escape = any(p.kind == "id" and p.up == "ESCAPE" for p in pat)
            first = pat[0] if pat else None
            if first is not None and first.kind == "str" and first.text.startswith("'%"):
                out.append(("suffix-like", f"{operand} {nxt_up} {pat_txt}"))
            else:
                out.append((nxt_up.lower(), f"{operand} {nxt_up} {pat_txt}" + ("" if has_escape else " (no ESCAPE)")))
        elif nxt_up in (">=", ">", "<", "<="):
            # range idiom: label >= A AND label < B
            if nxt_up == ">=":
                j = end + 1
                d = toks[end].depth
                lo = []
                while j < n and not (toks[j].depth == d and toks[j].kind == "id" and toks[j].up == "AND"):
                    if toks[j].depth < d:
                        break
                    lo.append(toks[j])
                    j += 1
                if j < n and toks[j].up == "AND":
                    e2 = _label_operand_at(toks, j + 1)
                    if e2 is not None and untokenize(toks[j + 1:e2]) == operand and e2 < n and toks[e2].text == "<":
                        m = e2 + 1
                        hi = []
                        while m < n and toks[m].depth >= d and not (toks[m].depth == d and (toks[m].text == ")" or (toks[m].kind == "id" and toks[m].up in ("AND", "OR", "ORDER", "LIMIT", "GROUP")))):
                            hi.append(toks[m])
                            m += 1
                        out.append(("range", f"{operand} >= {untokenize(lo)} AND {operand} < {untokenize(hi)}"))
                        i = m
                        continue
                out.append(("open-range", f"{operand} {nxt_up} …"))
            else:
                out.append(("open-range", f"{operand} {nxt_up} …"))
        elif nxt_up in ("=", "==") and end + 1 < n and toks[end + 1].kind == "id" and toks[end + 1].up == "SUBSTR":
            # label = substr(?, 1, length(label))
            j = end + 2
            d = toks[j].depth if j < n else 0
            m = j + 1
            while m < n and not (toks[m].text == ")" and toks[m].depth == d):
                m += 1
            args = untokenize(toks[j + 1:m])
            ok = re.fullmatch(r"(\?|:\w+)\s*,\s*1\s*,\s*length\s*\(\s*" + re.escape(operand).replace(r"\ ", r"\s*") + r"\s*\)", args, re.I) is not None
            out.append(("eq-substr-of-arg" if ok else "substr-other", f"{operand} = substr({args})"))
        elif prev is not None and prev.text == "(" and prev2 is not None and prev2.kind == "id" and prev2.up == "SUBSTR":
            # substr(label, 1, n) = ?
            d = prev.depth
            m = end
            while m < n and not (toks[m].text == ")" and toks[m].depth == d):
                m += 1
            args = untokenize(toks[end:m])
            after = toks[m + 1] if m + 1 < n else None
            rhs = toks[m + 2] if m + 2 < n else None
            ok = (
                re.fullmatch(r",\s*1\s*,\s*(\d+|\?|:\w+|⟦[^⟧]*⟧)", args.strip()) is not None
                and after is not None and after.text in ("=", "==")
                and rhs is not None and rhs.kind in ("param", "str")
            )
            out.append(("substr-prefix-eq" if ok else "substr-other", f"substr({operand}{args}) {after.text if after else ''} {rhs.text if rhs else ''}"))
        i = end
    return out


ACCEPTED = {"range", "eq-substr-of-arg", "substr-prefix-eq"}


def _case_sensitive_like_set(ctx) -> bool:
    """Is ``PRAGMA case_sensitive_like = ON`` executed unconditionally in sqlite3.connect()?"""
    fi = ctx.prog.func("sqlite3.connect")
    for s in fi.node.body:  # top-level statements only: unconditional
        for c in calls_in(s):
            if callee_name(c) in ("execute", "executescript") and c.args:
                try:
                    v = Evaluator(ctx.prog, fi.module, {}).ev(c.args[0])
                except Exception:
                    continue
                if isinstance(v, str) and re.search(r"case_sensitive_like\s*=\s*(ON|1|TRUE)", v, re.I):
                    return True
    return False


def rule_idioms(ctx):
    """R-C18-1 (SQL side)."""
    # positive controls of the classifier
    ctx.control([k for k, _ in classify_statement("SELECT 1 FROM node WHERE label LIKE ? ESCAPE '\\'")] == ["like"], "LIKE on label is classified", "classifier lost LIKE")
    ctx.control([k for k, _ in classify_statement("SELECT 1 FROM node WHERE node.label COLLATE NOCASE = ?")] == ["collate"], "COLLATE NOCASE is classified", "classifier lost COLLATE")
    ctx.control([k for k, _ in classify_statement("SELECT 1 FROM node WHERE lower(label) = ?")] == ["casefold-function"], "lower(label) is classified", "classifier lost lower()")
    ctx.control([k for k, _ in classify_statement("SELECT 1 FROM node WHERE label >= ? AND label < ?")] == ["range"], "range is classified", "classifier lost range")
    ctx.control([k for k, _ in classify_statement("SELECT 1 FROM node WHERE label BETWEEN ? AND ?")] == ["between"], "BETWEEN is classified", "classifier lost BETWEEN")
    ctx.control([k for k, _ in classify_statement("SELECT 1 FROM node WHERE substr(node.label, 1, 4) = ?")] == ["substr-prefix-eq"], "substr prefix is classified", "classifier lost substr")

    model = ctx.sql
    if model.failing():
        s = model.failing()[0]
        raise AnalysisError(f"SQL statement does not compile against the folded schema: {s.site.where}: {s.error}")
    cs_like = _case_sensitive_like_set(ctx)
    seen = set()
    # label collation must be BINARY for '=' and range comparisons to be byte-exact
    node = ctx.cat.tables.get("node")
    if node is None or "label" not in node.columns:
        raise AnalysisError("table node(label) not found in the folded schema")
    coll_ok = not re.search(r"label\s+TEXT[^,]*COLLATE\s+(?!BINARY)", node.sql, re.I)
    ctx.check(coll_ok, "trellis.TRELLIS_SCHEMA", "node.label collation", "node.label is declared with a non-BINARY collation: '=' and range comparisons are no longer byte-exact", "BINARY (default) collation")
    for idx in ctx.cat.indexes.values():
        if idx.table == "node":
            for cname, coll, _ in idx.columns:
                if cname == "label":
                    ctx.check(coll.upper() == "BINARY", f"index {idx.name}", "label collation in index", f"index {idx.name} orders label with collation {coll}", f"collation {coll}")
    for st in model.stmts:
        fq = st.site.func.fq
        if st.kind in ("CREATE", "DROP", "PRAGMA", "BEGIN"):
            continue
        for idiom, detail in classify_statement(st.text):
            key = (fq, idiom, re.sub(r"\s+", " ", detail))
            if key in seen:
                continue
            seen.add(key)
            where = f"stepup/core/{st.site.func.module.path.name}:{st.site.lineno}"
            if idiom == "suffix-like" or any(fq == k or fq.startswith(k + ".") or st.site.func.module.name == k for k in LIKE_EXEMPT) and idiom in ("like", "glob", "suffix-like"):
                reason = next((v for k, v in LIKE_EXEMPT.items() if fq == k or fq.startswith(k + ".") or st.site.func.module.name == k), None)
                if reason is None:
                    ctx.bad(fq, f"{idiom}: {detail}", "suffix LIKE on a label outside the exemption table (frozen: one drawing helper)", where=where)
                else:
                    ctx.ok(fq, f"{idiom}: {detail}", f"exempt: {reason}", where=where)
                continue
            if idiom in ACCEPTED:
                ctx.ok(fq, f"{idiom}: {detail}", "exact idiom", where=where)
            elif idiom == "like":
                if "(no ESCAPE)" in detail:
                    ctx.bad(fq, f"{idiom}: {detail}", "LIKE without ESCAPE: '%', '_' in names act as wildcards", where=where)
                elif not cs_like:
                    ctx.bad(fq, f"{idiom}: {detail}", "LIKE compares ASCII letters case-insensitively (no unconditional PRAGMA case_sensitive_like in connect()): prefix 'sub/' also selects 'Sub/…'", where=where)
                else:
                    ctx.ok(fq, f"{idiom}: {detail}", "LIKE ... ESCAPE with case_sensitive_like pragma", where=where)
            elif idiom == "glob":
                ctx.bad(fq, f"{idiom}: {detail}", "GLOB on a label: '*', '?', '[' in names act as wildcards", where=where)
            elif idiom in ("collate", "casefold-function"):
                ctx.bad(fq, f"{idiom}: {detail}", "case-folding comparison of labels", where=where)
            elif idiom == "between":
                ctx.bad(fq, f"{idiom}: {detail}", "BETWEEN is inclusive at both ends: the path equal to dir_range_upper(P) (the sibling 'P0' of directory 'P/') is selected as being under P/", where=where)
            elif idiom == "open-range":
                ctx.bad(fq, f"{idiom}: {detail}", "one-sided or unpaired range comparison on a label (accepted form: label >= P AND label < U)", where=where)
            else:
                ctx.bad(fq, f"{idiom}: {detail}", "unrecognised prefix idiom on a label column", where=where)


def _tuple_pairs_with_upper(fi):
    """Tuples (A, dir_range_upper(A)) in a function."""
    out = []
    for n in ast.walk(fi.node):
        if isinstance(n, ast.Tuple) and len(n.elts) == 2:
            a, b = n.elts
            if isinstance(b, ast.Call) and callee_name(b) == "dir_range_upper" and len(b.args) == 1 and same(a, b.args[0]):
                out.append(n)
    return out


def rule_prefix_clause(ctx):
    """R-C18-1 companion: prefix_clause compares exactly len(prefix) leading characters with prefix."""
    fi = ctx.prog.func("sqlite3.prefix_clause")
    rets = [n for n in ast.walk(fi.node) if isinstance(n, ast.Return)]
    ok = False
    how = "no return of (clause, argument)"
    if len(rets) == 1 and isinstance(rets[0].value, ast.Tuple) and len(rets[0].value.elts) == 2:
        clause, arg = rets[0].value.elts
        params = fi.params()
        if isinstance(clause, ast.JoinedStr) and isinstance(arg, ast.Name) and len(params) == 2 and arg.id == params[1]:
            fvs = [v for v in clause.values if isinstance(v, ast.FormattedValue)]
            lens = [v for v in fvs if isinstance(v.value, ast.Call) and callee_name(v.value) == "len" and len(v.value.args) == 1
                    and isinstance(v.value.args[0], ast.Name) and v.value.args[0].id == arg.id]
            text = "".join(v.value if isinstance(v, ast.Constant) else "{}" for v in clause.values)
            if lens and re.fullmatch(r"substr\(\{\}, 1, \{\}\) = \?", text.strip()):
                ok = True
                how = "substr({column}, 1, {len(prefix)}) = ? bound to prefix itself"
            else:
                how = f"clause text {text!r} is not the byte-exact prefix comparison of len(prefix) characters"
        else:
            how = "the bound argument is not the prefix parameter itself"
    users = sorted({s.site.func.fq for s in ctx.sql.stmts for k, d in classify_statement(s.text) if k == "substr-prefix-eq" and "⟦" in d})
    ctx.check(ok or not users, fi.fq, "clause compares len(prefix) leading characters with the bound prefix", how, how, where=ctx.where_of(fi), users=users)
    for u in users:
        ufi = ctx.prog.func(u.split(".<locals>.")[0])
        uses = any(callee_name(c) == "prefix_clause" for c in calls_in(ufi.node))
        ctx.check(uses, u, "substr prefix length comes from prefix_clause", "substr(label, 1, n) = ? with a computed n that does not come from prefix_clause", "clause built by prefix_clause")


def rule_range_bounds(ctx):
    """R-C18-2: the upper bound of every range idiom is dir_range_upper(lower bound)."""
    model = ctx.sql
    # a statement whose text cannot be folded cannot be classified: that is a lost site, never a pass
    if model.failing() or model.unresolved:
        bad = (model.failing() or [None])[0]
        raise AnalysisError(f"SQL census incomplete: {bad.site.where if bad else model.unresolved[0].where}")
    # 1. dir_range_upper itself, folded on probes
    fi = ctx.prog.func("path.dir_range_upper")
    from ..engine.source import RepoFunc

    rf = RepoFunc(ctx.prog, fi)
    probes = ["a/", "sub/dir/", "/", "ä/", "a%_\\/", "A/"]
    good = True
    why = ""
    for p in probes:
        try:
            v = rf.call([p], {})
        except Exception as exc:
            good, why = False, f"does not fold on {p!r}: {exc}"
            break
        if v != p[:-1] + "0":
            good, why = False, f"dir_range_upper({p!r}) folds to {v!r}, expected {p[:-1] + '0'!r} ('/' replaced by the next byte)"
            break
    if good:
        try:
            rf.call(["abc"], {})
            good, why = False, "accepts a parent without trailing separator"
        except FoldError:
            pass
        except Exception as exc:
            good, why = False, f"unexpected {exc}"
    ctx.check(good, "path.dir_range_upper", "upper bound = parent[:-1] + chr(ord('/') + 1), separator required", why, "folded on 6 probe strings; rejects unterminated parent", where=ctx.where_of(fi))
    # 2. every range idiom: provenance of its bounds
    seen = set()
    for st in model.stmts:
        for idiom, detail in classify_statement(st.text):
            if idiom != "range":
                continue
            fq = st.site.func.fq
            key = (fq, re.sub(r"\s+", " ", detail))
            if key in seen:
                continue
            seen.add(key)
            where = f"stepup/core/{st.site.func.module.path.name}:{st.site.lineno}"
            m = re.search(r">= (.*?) AND .* < (.*)$", detail)
            lo, hi = (m.group(1).strip(), m.group(2).strip()) if m else ("", "")
            if re.fullmatch(r"\?|:\w+", lo) and re.fullmatch(r"\?|:\w+", hi):
                pairs = _tuple_pairs_with_upper(st.site.func)
                ctx.check(bool(pairs), fq, f"range bounds: {detail}", "no parameter tuple (P, dir_range_upper(P)) in the function that binds the range", "bound by (P, dir_range_upper(P))", where=where)
            elif re.fullmatch(r"target_dir\s*\.\s*path", lo) and re.fullmatch(r"target_dir\s*\.\s*upper", hi):
                # columns populated by Scheduler.initialize
                init = ctx.prog.func("scheduler.Scheduler.initialize")
                ok = False
                for c in calls_in(init.node):
                    if callee_name(c) == "executemany" and c.args and ast.unparse(c.args[0]) == "INSERT_TARGET_DIR" and len(c.args) > 1:
                        gen = c.args[1]
                        for n in ast.walk(gen):
                            if isinstance(n, ast.Tuple) and len(n.elts) == 2 and isinstance(n.elts[1], ast.Call) and callee_name(n.elts[1]) == "dir_range_upper" and same(n.elts[0], n.elts[1].args[0]):
                                ok = True
                ins = ctx.prog.fold("scheduler", "INSERT_TARGET_DIR")
                ok = ok and isinstance(ins, str) and re.search(r"INSERT\s+INTO\s+target_dir\s+VALUES\s*\(\s*\?\s*,\s*\?\s*\)", ins, re.I) is not None
                writers = {s.site.func.fq for s in model.writers_of("target_dir", op="INSERT")}
                ok = ok and writers == {"scheduler.Scheduler.initialize"}
                ctx.check(ok, fq, f"range bounds: {detail}", "target_dir.(path, upper) is not populated only by Scheduler.initialize with (P, dir_range_upper(P))", "target_dir rows are (P, dir_range_upper(P)) from Scheduler.initialize", where=where, writers=sorted(writers))
            else:
                ctx.bad(fq, f"range bounds: {detail}", "range bounds of unknown provenance", where=where)
    # 3. the sites that select "outputs under a directory target" are siblings: each of them keeps the range
    have = {fq for fq, _ in seen}
    for fq, what in RANGE_SITES.items():
        ctx.prog.func(fq)
        ctx.check(fq in have, fq, f"selects by label range ({what})", f"{fq} no longer restricts its selection to the label range of the directory: it selects outputs anywhere ({what}), unlike its sibling sites {sorted(have)}", "range present")


# functions whose SQL selects the outputs under a directory target (confirmed by reading; appendix A.7)
RANGE_SITES = {
    "scheduler.Scheduler._update_meta_after": "elevation of DEFAULT producers under a directory target",
    "workflow.Workflow.reconcile_targets": "flagging of producers under a newly named directory target",
    "workflow.Workflow.has_regular_output_under": "the 'directory target matched nothing' report",
}


def _sep_terminated(fi, arg, call) -> tuple[bool, str]:
    """Is ``arg`` of a startswith call separator-terminated on every path reaching the call?"""
    if isinstance(arg, ast.Constant) and isinstance(arg.value, str):
        return arg.value.endswith("/"), "literal"
    if isinstance(arg, ast.Tuple) and all(isinstance(e, ast.Constant) and isinstance(e.value, str) for e in arg.elts):
        return all(e.value.endswith("/") for e in arg.elts), "literal tuple"
    if isinstance(arg, ast.BinOp) and isinstance(arg.op, ast.Add) and is_sep(arg.right):
        return True, "X + os.sep"
    if isinstance(arg, ast.Name):
        name = arg.id
        # (a) comprehension / for target over a list of tree labels
        for n in ast.walk(fi.node):
            if isinstance(n, ast.comprehension) and isinstance(n.target, ast.Name) and n.target.id == name and any(c is call for c in ast.walk(_parent_of_comp(fi.node, n) or n)):
                it = ast.unparse(n.iter)
                if it == "tree_labels":
                    return True, "element of tree_labels (static-tree labels end in a separator, R-C18-3)"
                return False, f"iterates {it}"
        # (b) normalisation / guard earlier in the function
        for s in fi.node.body:
            if s.lineno >= call.lineno:
                break
            if isinstance(s, ast.If):
                t = s.test
                neg = isinstance(t, ast.UnaryOp) and isinstance(t.op, ast.Not)
                inner = t.operand if neg else t
                if (isinstance(inner, ast.Call) and callee_name(inner) == "endswith" and isinstance(inner.func, ast.Attribute)
                        and isinstance(inner.func.value, ast.Name) and inner.func.value.id == name and inner.args and is_sep(inner.args[0]) and neg):
                    body = s.body
                    if len(body) == 1 and isinstance(body[0], ast.AugAssign) and isinstance(body[0].target, ast.Name) and body[0].target.id == name and is_sep(body[0].value):
                        return True, f"normalised by `if not {name}.endswith(os.sep): {name} += os.sep`"
                    if len(body) == 1 and isinstance(body[0], (ast.Return, ast.Raise, ast.Continue)):
                        return True, f"guarded by early exit when not {name}.endswith(os.sep)"
            if isinstance(s, ast.Assign) and len(s.targets) == 1 and isinstance(s.targets[0], ast.Name) and s.targets[0].id == name:
                v = s.value
                if isinstance(v, ast.IfExp) and isinstance(v.test, ast.Call) and callee_name(v.test) == "endswith" and v.test.args and is_sep(v.test.args[0]):
                    other = v.orelse
                    if isinstance(other, ast.BinOp) and isinstance(other.op, ast.Add) and is_sep(other.right) and same(v.body, v.test.func.value) and same(other.left, v.body):
                        return True, "x if x.endswith(os.sep) else x + os.sep"
                if isinstance(v, ast.BinOp) and isinstance(v.op, ast.Add) and is_sep(v.right):
                    return True, "X + os.sep"
                if isinstance(v, ast.BinOp) and isinstance(v.op, ast.Div) and isinstance(v.right, ast.Constant) and v.right.value == "":
                    return True, 'Path(x) / ""'
        # (c) the closest preceding assignment anywhere in the function (nested blocks included) builds a terminated value,
        #     and it is in a block that encloses the call
        cands = [a for a in ast.walk(fi.node) if isinstance(a, ast.Assign) and len(a.targets) == 1 and isinstance(a.targets[0], ast.Name) and a.targets[0].id == name and a.lineno < call.lineno]
        if cands:
            last = max(cands, key=lambda a: a.lineno)
            v = last.value
            terminated = (isinstance(v, ast.BinOp) and isinstance(v.op, ast.Div) and isinstance(v.right, ast.Constant) and v.right.value == "") or (isinstance(v, ast.BinOp) and isinstance(v.op, ast.Add) and is_sep(v.right))
            encloses = any(last in getattr(blk, fld, []) and any(c is call for st_ in getattr(blk, fld)[getattr(blk, fld).index(last):] for c in ast.walk(st_)) for blk in ast.walk(fi.node) for fld in ("body", "orelse", "finalbody") if isinstance(getattr(blk, fld, None), list))
            if terminated and encloses:
                return True, f"`{ast.unparse(last)}` in the same block, before the call"
        return False, "no separator normalisation or guard dominates the call"
    return False, f"unrecognised operand {ast.unparse(arg)}"


def _parent_of_comp(root, comp):
    for n in ast.walk(root):
        if isinstance(n, (ast.GeneratorExp, ast.ListComp, ast.SetComp, ast.DictComp)) and comp in n.generators:
            return n
    return None


PY_SCOPE = ("workflow", "clean", "watcher", "finalize", "scheduler", "startup", "trellis", "file", "step", "pending")


def rule_python_prefix(ctx):
    """R-C18-1 (Python side): startswith() selections have a separator-terminated operand."""
    n = 0
    for mod in PY_SCOPE:
        m = ctx.prog.module(mod)
        for fi in m.all_funcs.values():
            if ".<locals>." in fi.qualname:
                continue
            for c in calls_in(fi.node, skip_nested=False):
                if callee_name(c) != "startswith" or not c.args:
                    continue
                ok, how = _sep_terminated(fi, c.args[0], c)
                n += 1
                ctx.check(ok, fi.fq, f"{ast.unparse(c)}", f"prefix test whose operand is not separator-terminated on every path ({how}): a sibling that merely shares a name prefix is selected", how, where=ctx.where_of(fi, c))
            # other prefix helpers that are never exact
            for c in calls_in(fi.node, skip_nested=False):
                if callee_name(c) in ("commonprefix",) or (callee_name(c) in ("lower", "casefold", "upper") and isinstance(c.func, ast.Attribute) and "label" in ast.unparse(c.func.value)):
                    ctx.bad(fi.fq, ast.unparse(c), "character-wise or case-folding prefix helper applied to a label", where=ctx.where_of(fi, c))


def rule_label_forms(ctx):
    """R-C18-3: tree labels end in a separator, file labels never do."""
    fi = ctx.prog.func("workflow.Workflow.register_static_tree")
    found = False
    for c in calls_in(fi.node):
        if callee_name(c) == "create" and c.args and ast.unparse(c.args[0]) == "StaticTree":
            found = True
            label = c.args[2] if len(c.args) > 2 else None
            ok = False
            how = "label argument missing"
            if isinstance(label, ast.Name):
                last = None
                for s in stmts_of(fi):
                    if s.lineno < c.lineno and isinstance(s, ast.Assign) and len(s.targets) == 1 and isinstance(s.targets[0], ast.Name) and s.targets[0].id == label.id:
                        last = s
                if last is not None:
                    v = last.value
                    ok = isinstance(v, ast.BinOp) and isinstance(v.op, ast.Div) and isinstance(v.right, ast.Constant) and v.right.value == ""
                    how = f"last assignment: {ast.unparse(last)}"
                else:
                    how = "label is the raw parameter"
            ctx.check(ok, fi.fq, "create(StaticTree, …, label)", f"static-tree label is not normalised with `/ \"\"` before the node is created ({how})", how, where=ctx.where_of(fi, c))
    if not found:
        raise AnalysisError("register_static_tree no longer creates a StaticTree node")
    fa = ctx.prog.func("file.File.adjust_label")
    ok = False
    for s in fa.node.body:
        if isinstance(s, ast.If) and isinstance(s.test, ast.Call) and callee_name(s.test) == "endswith" and s.test.args and is_sep(s.test.args[0]) and any(isinstance(b, ast.Raise) for b in s.body):
            ok = True
    ctx.check(ok, fa.fq, "file label with trailing separator is rejected", "File.adjust_label accepts a label that ends in a separator: file and tree labels are no longer distinguishable by their last byte", "raises PathError", where=ctx.where_of(fa))
    st = ctx.prog.func("static_tree.StaticTree.kind") if ctx.prog.has_func("static_tree.StaticTree.kind") else None
    if st is not None:
        ctx.ok(st.fq, "kind()", "static tree kind is folded by the catalogue rules")


ROOT_SPELLINGS = {".", "./", ""}
ROOT_TABLE = {
    # function -> why the directory operand can be the root
    "workflow.Workflow.register_static_tree": "static('./') would own nothing and block nothing",
    "clean.search_matching_paths": "stepup clean . means the whole project",
    "workflow.Workflow._is_justified_without_node": "a glob match './' contains every label",
    "tui._normalize_targets": "stepup build ./ names the project root as a directory target",
}


def rule_root_awareness(ctx):
    """R-C18-4: every selection whose directory operand can be the project root special-cases it."""
    for fq, why in ROOT_TABLE.items():
        fi = ctx.prog.func(fq)
        hit = None
        for n in ast.walk(fi.node):
            if isinstance(n, ast.Compare):
                consts = []
                for c in [n.left, *n.comparators]:
                    if isinstance(c, ast.Constant) and isinstance(c.value, str):
                        consts.append(c.value)
                    elif isinstance(c, (ast.Tuple, ast.List, ast.Set)):
                        consts += [e.value for e in c.elts if isinstance(e, ast.Constant) and isinstance(e.value, str)]
                if any(v in (".", "./") for v in consts):
                    hit = n
                    break
        ctx.check(hit is not None, fq, "project root as directory operand",
                  f"no special case for the project root ({why}); labels are root-relative without './', so the prefix './' selects nothing",
                  f"root handled: {ast.unparse(hit) if hit is not None else ''}", where=ctx.where_of(fi, hit))


def rule_find_owner(ctx):
    """R-C18-1 companion: _find_owning_static_tree probes with a separator-terminated argument."""
    fi = ctx.prog.func("workflow.Workflow._find_owning_static_tree")
    ok = False
    for s in fi.node.body:
        if isinstance(s, ast.Assign) and isinstance(s.value, ast.BinOp) and isinstance(s.value.op, ast.Div) and isinstance(s.value.right, ast.Constant) and s.value.right.value == "":
            ok = True
    ctx.check(ok, fi.fq, 'probe = Path(path) / ""', "the path compared with tree labels is not separator-terminated: tree 'sub/' would own file 'subx' is excluded only by the separator", "probe is separator-terminated", where=ctx.where_of(fi))
    stm = [s for s in ctx.sql.stmts_in(fi.fq)]
    kinds = [k for s in stm for k, _ in classify_statement(s.text)]
    ctx.check(kinds == ["eq-substr-of-arg"], fi.fq, "owner lookup idiom", f"owner lookup uses idioms {kinds}", "label = substr(?, 1, length(label))")
    ok_attached = all(re.search(r"NOT\s+detached", s.text, re.I) for s in stm) and bool(stm)
    ctx.check(ok_attached, fi.fq, "only attached trees own paths", "owner lookup no longer restricted to attached trees", "NOT detached")


RULES = [
    Rule("R-C18-1", "SQL prefix selections use an exact idiom", rule_idioms, min_instances=8),
    Rule("R-C18-1p", "Python prefix tests have a separator-terminated operand", rule_python_prefix, min_instances=5),
    Rule("R-C18-1o", "static-tree owner lookup", rule_find_owner, min_instances=3),
    Rule("R-C18-1c", "prefix_clause is a byte-exact prefix comparison", rule_prefix_clause, min_instances=1),
    Rule("R-C18-2", "range upper bounds come from dir_range_upper", rule_range_bounds, min_instances=4),
    Rule("R-C18-3", "label normal forms", rule_label_forms, min_instances=2),
    Rule("R-C18-4", "root awareness", rule_root_awareness, min_instances=4),
]


MUTANTS = [
    Mutant("report-without-range", "workflow.py", in_function("Workflow.has_regular_output_under", replace_once('            "AND onode.label >= ? AND onode.label < ? "\n', "").__call__ if False else (lambda s: s.replace('            "AND onode.label >= ? AND onode.label < ? "\n', "", 1).replace("            (dir_path, dir_range_upper(dir_path)),\n", "", 1) if '            "AND onode.label >= ? AND onode.label < ? "\n' in s else None)), ("R-C18-2",)),
    Mutant("like-back", "sqlite3.py", replace_once('return f"substr({column}, 1, {len(prefix):d}) = ?", prefix',
           'return f"{column} LIKE ? ESCAPE \'\\\\\'", prefix.replace("%", "\\\\%") + "%"'), ("R-C18-1",)),
    Mutant("like-no-escape", "sqlite3.py", replace_once('return f"substr({column}, 1, {len(prefix):d}) = ?", prefix',
           'return f"{column} LIKE ?", prefix + "%"'), ("R-C18-1",)),
    Mutant("glob-prefix", "sqlite3.py", replace_once('return f"substr({column}, 1, {len(prefix):d}) = ?", prefix',
           'return f"{column} GLOB ?", prefix + "*"'), ("R-C18-1",)),
    Mutant("nocase-label", "trellis.py", replace_once("label TEXT NOT NULL,", "label TEXT NOT NULL COLLATE NOCASE,"), ("R-C18-1",)),
    Mutant("upper-wrong", "path.py", replace_once('return parent[:-1] + "0"', 'return parent + "\\uffff"'), ("R-C18-2",)),
    Mutant("upper-tilde", "path.py", replace_once('return parent[:-1] + "0"', 'return parent[:-1] + "~"'), ("R-C18-2",)),
    Mutant("range-unpaired", "workflow.py", replace_once("(dir_path, dir_range_upper(dir_path)),", '(dir_path, dir_path + "\\uffff"),'), ("R-C18-2",)),
    Mutant("no-sep-normalisation", "workflow.py", in_function("Workflow.relevant_paths_under", replace_once(
        "        if not directory.endswith(os.sep):\n            directory += os.sep\n", "")), ("R-C18-1p",)),
    Mutant("owner-probe-raw", "workflow.py", in_function("Workflow._find_owning_static_tree", replace_once('path = Path(path) / ""', "path = Path(path)")), ("R-C18-1o",)),
    Mutant("tree-label-raw", "workflow.py", in_function("Workflow.register_static_tree", replace_once('path = Path(path) / ""', "path = Path(path)")), ("R-C18-3",)),
    Mutant("file-label-dir", "file.py", replace_once("        if label.endswith(os.sep):\n            raise PathError(f\"Invalid file name (directory): {label}\")\n", ""), ("R-C18-3",)),
    Mutant("root-unguarded-clean", "clean.py", replace_once('if tr_path == ".":', 'if tr_path == "":'), ("R-C18-4",)),
    Mutant("lower-label", "workflow.py", in_function("Workflow._find_owning_static_tree", replace_once(
        '"label = substr(?, 1, length(label))"', '"lower(label) = lower(substr(?, 1, length(label)))"')), ("R-C18-1", "R-C18-1o")),
    Mutant("range-between", "scheduler.py", replace_once("WHERE onode.label >= target_dir.path\n                        AND onode.label < target_dir.upper", "WHERE onode.label BETWEEN target_dir.path AND target_dir.upper"), ("R-C18-1",)),
    Mutant("range-inclusive-upper", "scheduler.py", replace_once("AND onode.label < target_dir.upper", "AND onode.label <= target_dir.upper"), ("R-C18-1",)),
]

VARIANTS = [
    Variant("reformat-owner-sql", "workflow.py", in_function("Workflow._find_owning_static_tree", replace_once(
        '"label = substr(?, 1, length(label))"', '"label   =   SUBSTR( ?, 1, LENGTH(label) )"'))),
    Variant("rename-local", "workflow.py", in_function("Workflow.has_regular_output_under", lambda seg: seg.replace("dir_path", "dpath"))),
    Variant("sep-literal", "workflow.py", in_function("Workflow.relevant_paths_under", replace_once(
        "        if not directory.endswith(os.sep):\n            directory += os.sep\n", '        if not directory.endswith("/"):\n            directory += "/"\n'))),
]
