"""C17 — named glob matching is consistent with the file system and with itself (structural clauses, weak)."""
from __future__ import annotations

import ast
import itertools
import re

from ..engine.mutate import Mutant, Variant, in_function, replace_once
from ..engine.runner import Rule
from ..engine.source import AnalysisError, Evaluator, FoldError
from ..engine.sqlfront import all_where_clauses, split_conjuncts
from . import C14
from .common import callee_name, calls_in, kwarg

EXPLANATION = (
    "Static analysis of the structure of the two pattern compilers and of where matchers are stored and rebuilt. "
    "Token exhaustiveness: each alternative of the tokenizer regex RE_WILD_PARTS has a branch in "
    "convert_nglob_to_regex and anything else raises; both compilers tokenise with the same regex. Merger agreement: "
    "the neighbour-merging if-chains of both compilers are interpreted (own evaluator, no import) over previous token "
    "x next token and must give the same append/drop/replace action table under the token correspondence * <-> "
    "[^/]*, ** <-> .*, **/ <-> (?:.*/|), ? <-> [^/]. One matcher per registration: the stored regex and data come from "
    "the same pattern and substitutions, the JSON hooks round-trip pattern, subs and results, and every place that "
    "rebuilds a NamedGlob passes both pattern and subs. Scan flags (recursive, include_hidden, trailing separator "
    "for directories) and the incremental update order (extend, then reduce, on a deep copy). Agreement of the regex "
    "and glob translations on every pattern and tree is value-level and is NOT claimed. "
    "Also: every application of a registration's regex to a path (matcher, relevance test, product check) is a fullmatch; the match set of a registration is rewritten by row id."
    " R-C17-6 single-component tokens are translated (finite interpretation + regex AST) into expressions that cannot match '/'; R-C17-9 both compilers interpret a substitution in the same context."
)
ASSUMPTIONS = ["CPython's glob.iglob semantics", "agreement of both translations for all patterns is not decided (see DESIGN.md C17)"]

TOK_MAP = {"[^/]*": "*", ".*": "**", "(?:.*/|)": "**/", "[^/]": "?"}


def _norm(s):
    return re.sub(r"\s+", " ", s).strip()


def _find_if_chain(fn_node, first_test_src):
    for n in ast.walk(fn_node):
        if isinstance(n, ast.If) and ast.unparse(n.test) == first_test_src:
            return n
    return None


def rule_tokens(ctx):
    """R-C17-1."""
    parts = ctx.prog.fold("nglob", "RE_WILD_PARTS")
    if not isinstance(parts, list) or len(parts) < 6:
        raise AnalysisError("RE_WILD_PARTS does not fold to a list")
    rx = re.compile("(" + "|".join(parts) + ")")
    examples = {"**": "a/**", "**/": "a/**/b", "[x]": "a[xy]b", "*": "a*b", "?": "a?b", "${*n}": "a${*n}b"}
    kinds = set()
    for k, ex in examples.items():
        toks = rx.split(ex)[1::2]
        ctx.check(len(toks) == 1, "nglob.RE_WILD_PARTS", f"tokenizer recognises {k}", f"'{ex}' splits into {toks}", f"{toks}")
        kinds.add(k)
    cr = ctx.prog.func("nglob.convert_nglob_to_regex")
    src = _norm(ast.unparse(cr.node))
    branches = {"?": "if part == '?':", "*": "elif part == '*':", "**": "elif part == '**':", "**/": "elif part == '**/':", "[x]": "elif part.startswith('[') and part.endswith(']'):", "${*n}": "elif part.startswith('${*') and part.endswith('}'):"}
    for k, b in branches.items():
        ctx.check(b in src, cr.fq, f"branch for token {k}", "a token kind of the tokenizer has no branch in the regex compiler", "handled")
    # the token dispatch chain ends in an else that raises
    chain_ok = False
    for n in ast.walk(cr.node):
        if isinstance(n, ast.If) and ast.unparse(n.test) == "part == '?'":
            cur = n
            while len(cur.orelse) == 1 and isinstance(cur.orelse[0], ast.If):
                cur = cur.orelse[0]
            chain_ok = bool(cur.orelse) and any(isinstance(x, ast.Raise) for x in cur.orelse)
    ctx.check(chain_ok, cr.fq, "unknown tokens raise", "unknown tokens are silently dropped", "raises")
    cg = ctx.prog.func("nglob.convert_nglob_to_glob")
    ctx.check("RE_ANY_WILD.split(pattern)" in ast.unparse(cr.node) and "RE_ANY_WILD.split(pattern)" in ast.unparse(cg.node), "nglob", "both compilers tokenise with RE_ANY_WILD", "the two compilers tokenise differently", "same tokenizer")
    ctx.check("re.escape(part)" in ast.unparse(cr.node), cr.fq, "literal text is escaped", "literal text is inserted into the regex unescaped", "re.escape")
    ctx.check("regex = f'(?P={name})'" in src.replace("rf'", "f'") and "if name in encountered:" in src, cr.fq, "a repeated name becomes a back-reference", "repeated names match independently", "back-reference")
    ctx.check("part_regex = convert_nglob_to_regex(subs.get(name, '*'), {}, False)" in src, cr.fq, "a named wildcard compiles its substitution (default *)", "substitution ignored", "subs.get(name, '*')")
    ctx.check("subs.get(_get_wildcard_name(part, pattern), '*')" in _norm(ast.unparse(cg.node)), cg.fq, "the glob translation substitutes the same way", "glob translation ignores substitutions", "subs.get(name, '*')")


def _regex_action(ctx, cr, prev, part):
    chain = _find_if_chain(cr.node, "part == '?'")
    if chain is None:
        raise AnalysisError("merge chain of convert_nglob_to_regex not found")
    env = {"part": part, "last": prev, "replace": False, "regex": None, "star_name": None, "subs": {}, "allow_names": True, "pattern": "p", "encountered": set()}
    ev = Evaluator(ctx.prog, cr.module, env)
    ev.st(chain)
    regex, replace = ev.env["regex"], ev.env["replace"]
    if regex is None:
        return ("drop", None)
    return ("replace" if replace else "append", TOK_MAP.get(regex, regex))


def _glob_action(ctx, cg, prev, part):
    chain = _find_if_chain(cg.node, "len(texts) == 0 or part == '?'")
    if chain is None:
        raise AnalysisError("merge chain of convert_nglob_to_glob not found")
    texts = [prev]
    ev = Evaluator(ctx.prog, cg.module, {"part": part, "texts": texts})
    ev.st(chain)
    if texts == [prev]:
        return ("drop", None)
    if len(texts) == 2:
        return ("append", texts[-1])
    return ("replace", texts[-1])


def _may_match_sep(items, guarded=False):
    """Can a string matched by this parsed regex fragment contain '/'?  (regex AST walk; conservative: unknown -> yes)"""
    import re._constants as C

    SEP = ord("/")
    skip_next = False
    for op, av in items:
        if skip_next:
            skip_next = False
            continue
        if op is C.ASSERT_NOT and av[0] == 1 and list(av[1]) == [(C.LITERAL, SEP)]:
            skip_next = True  # (?!/)X : the next single-character atom cannot be a separator
            continue
        if op is C.LITERAL:
            if av == SEP:
                return True
        elif op is C.NOT_LITERAL:
            if av != SEP:
                return True
        elif op is C.ANY:
            return True
        elif op is C.IN:
            neg = any(o is C.NEGATE for o, _ in av)
            hit = False
            for o, a in av:
                if o is C.LITERAL and a == SEP:
                    hit = True
                elif o is C.RANGE and a[0] <= SEP <= a[1]:
                    hit = True
                elif o is C.CATEGORY:
                    hit = hit or not neg  # conservative
            if hit != neg:
                return True
        elif op in (C.MAX_REPEAT, C.MIN_REPEAT):
            if _may_match_sep(av[2]):
                return True
        elif op is C.SUBPATTERN:
            if _may_match_sep(av[3]):
                return True
        elif op is C.BRANCH:
            if any(_may_match_sep(b) for b in av[1]):
                return True
        elif op in (C.AT, C.ASSERT, C.ASSERT_NOT, C.GROUPREF):
            continue
        else:
            return True
    return False


def rule_component_wildcards(ctx):
    """R-C17-6: a wildcard that stands for (part of) one path component never consumes a separator.

    The file-system scan splits the pattern on '/' before matching, so `?`, `*` and `[...]` can never match
    one.  The regex is what the incremental update, the watcher's relevance test and the glob-versus-product
    conflict check use; if a token's regex admits '/', those disagree with the scan.
    """
    import re._parser as P

    cr = ctx.prog.func("nglob.convert_nglob_to_regex")
    chain = _find_if_chain(cr.node, "part == '?'")
    if chain is None:
        raise AnalysisError("token chain of convert_nglob_to_regex not found")
    samples = [("?", "any one character"), ("*", "any run of characters"), ("[ab]", "a class"), ("[.-0]", "a class with a range across '/'"), ("[!ab]", "a negated class")]
    for part, what in samples:
        env = {"part": part, "last": "a", "replace": False, "regex": None, "star_name": None, "subs": {}, "allow_names": True, "pattern": "p", "encountered": set()}
        try:
            ev = Evaluator(ctx.prog, cr.module, env)
            ev.st(chain)
        except FoldError as exc:
            raise AnalysisError(f"cannot interpret the token chain for {part!r}: {exc}") from exc
        regex = ev.env["regex"]
        if not isinstance(regex, str):
            raise AnalysisError(f"token {part!r} yields no regex")
        try:
            parsed = list(P.parse(regex))
        except re.error as exc:
            ctx.bad(cr.fq, f"token {part} ({what}) translates to a valid regex", f"{regex!r}: {exc}")
            continue
        ctx.check(not _may_match_sep(parsed), cr.fq, f"token {part} ({what}) cannot match '/'", f"{part} is translated to {regex}, which matches '/': the matcher accepts paths in other directories that no file-system scan of the pattern returns, so an incremental update differs from a rescan and a valid output is reported as matched by the pattern", f"{regex}", where=ctx.where_of(cr))


def rule_substitution_context(ctx):
    """R-C17-9: both compilers interpret the substitution of a named wildcard in the same context.

    `**` means 'any number of directories' only as a whole path component; glued to other text it is a plain `*`
    (Python's glob, and the regex compiler's own `data**` rule).  A compiler that translates the substitution on
    its own cannot know which of the two applies.
    """
    cr = ctx.prog.func("nglob.convert_nglob_to_regex")
    cg = ctx.prog.func("nglob.convert_nglob_to_glob")
    iso_r = any(callee_name(c) == "convert_nglob_to_regex" and c.args and "subs.get" in ast.unparse(c.args[0]) for c in calls_in(cr.node))
    ctx_g = any(callee_name(c) == "extend" and c.args and "RE_ANY_WILD.split" in ast.unparse(c.args[0]) and "subs.get" in ast.unparse(c.args[0]) for c in calls_in(cg.node))
    iso_g = any(callee_name(c) == "convert_nglob_to_glob" and c.args and "subs.get" in ast.unparse(c.args[0]) for c in calls_in(cg.node))
    if not (iso_r or ctx_g or iso_g):
        raise AnalysisError("nglob: substitution handling not recognised in either compiler")
    same = (iso_r and iso_g and not ctx_g) or (not iso_r and ctx_g)
    ctx.check(same, "nglob.convert_nglob_to_regex/convert_nglob_to_glob", "a substitution is compiled in context by both compilers, or in isolation by both", f"regex compiler: {'isolated (recursive call on the substitution alone)' if iso_r else 'in context'}; glob compiler: {'tokens of the substitution are merged with their neighbours' if ctx_g else 'isolated'}: for glob('src/${{*mod}}.py', mod='**') the scan evaluates src/**.py (one directory level) while the matcher is src/(?P<mod>.*)\\.py (any depth), so an incremental update records src/pkg/b.py which a rescan drops again", "same context", where=ctx.where_of(cr))


def rule_mergers(ctx):
    """R-C17-2."""
    cr = ctx.prog.func("nglob.convert_nglob_to_regex")
    cg = ctx.prog.func("nglob.convert_nglob_to_glob")
    n = 0
    for prev, part in itertools.product(("*", "**", "**/", "?", "a", "a/"), ("*", "**", "**/", "?")):
        try:
            ra = _regex_action(ctx, cr, prev, part)
            ga = _glob_action(ctx, cg, prev, part)
        except FoldError as exc:
            raise AnalysisError(f"cannot interpret the merge chains at ({prev}, {part}): {exc}") from exc
        n += 1
        ctx.check(ra == ga, "nglob.convert_nglob_to_regex/convert_nglob_to_glob", f"previous={prev!r} next={part!r}",
                  f"regex compiler: {ra}, glob compiler: {ga}: the matcher and the file-system scan disagree on neighbouring wildcards", f"{ra}")
    if n != 24:
        raise AnalysisError("merge table incomplete")


def rule_one_matcher(ctx):
    """R-C17-3."""
    an = ctx.prog.func("step.Step.add_nglob")
    src = _norm(ast.unparse(an.node))
    ctx.check("convert_nglob_to_regex(ng.pattern, ng.subs)" in src and "json.dumps(json_converter.unstructure(ng))" in src and "ng.pattern," in src, an.fq, "stored regex, pattern and data come from the same NamedGlob (pattern and subs)", "the stored matcher is compiled from something else than the registered pattern and substitutions", "same object")
    hk = ctx.prog.func("cattrs._structure_named_glob")
    ctx.check("NamedGlob(data['pattern'], data['subs'], {tuple(key): {Path(path) for path in paths} for key, paths in data['results']})" in _norm(ast.unparse(hk.node)), hk.fq, "loading restores pattern, subs and results", "a loaded registration loses its substitutions or matches", "all three")
    uk = ctx.prog.func("cattrs._unstructure_named_glob")
    s2 = _norm(ast.unparse(uk.node))
    ctx.check("'pattern': ng.pattern" in s2 and "'subs': ng.subs" in s2 and "'results':" in s2, uk.fq, "saving stores pattern, subs and results", "not all three are stored", "all three")
    # every reconstruction of a NamedGlob from an existing one passes pattern and subs
    n = 0
    for fq in ("startup.rescan_nglobs",):
        fi = ctx.prog.func(fq)
        for c in calls_in(fi.node):
            if isinstance(c.func, ast.Name) and c.func.id == "NamedGlob":
                n += 1
                args = [ast.unparse(a) for a in c.args]
                ok = len(args) >= 2 and args[0].endswith(".pattern") and args[1].endswith(".subs") and args[0].split(".")[0] == args[1].split(".")[0]
                ctx.check(ok, fq, f"NamedGlob({', '.join(args)})", "the fresh scan uses another matcher than the registered one (substitutions dropped): every restart sees phantom changes or misses real ones", "pattern and subs of the same registration", where=ctx.where_of(fi, c))
    if n == 0:
        raise AnalysisError("rescan_nglobs no longer rebuilds a NamedGlob")
    ds = ctx.prog.func("director.DirectorHandler.declare_static")
    ok = any(isinstance(c.func, ast.Name) and c.func.id == "NamedGlob" and len(c.args) == 1 and ast.unparse(c.args[0]) == "pattern" for c in calls_in(ds.node))
    ctx.check(ok, ds.fq, "static() patterns carry no substitutions (api.static takes none)", "changed", "NamedGlob(pattern)")
    rg = ctx.prog.func("director.DirectorHandler.register_glob")
    ok = any(isinstance(c.func, ast.Name) and c.func.id == "NamedGlob" and [ast.unparse(a) for a in c.args] == ["pattern", "subs"] for c in calls_in(rg.node))
    ctx.check(ok, rg.fq, "glob() registrations are rebuilt from pattern and subs", "substitutions dropped on the director side", "NamedGlob(pattern, subs)")
    gl = ctx.prog.func("api.glob")
    src = _norm(ast.unparse(gl.node))
    ctx.check("ng = NamedGlob(su_pattern, subs)" in src and "register_glob(get_job_i(), tr_pattern, subs, tr_paths)" in src, gl.fq, "client scans and registers with the same substitutions", "client and director use different substitutions", "same subs")
    cls = ctx.prog.cls("nglob.NamedGlob")
    s3 = _norm(ast.unparse(cls.node))
    ctx.check("return convert_nglob_to_glob(self._pattern, self._subs)" in s3 and "return re.compile(convert_nglob_to_regex(self._pattern, self._subs))" in s3, "nglob.NamedGlob", "scan pattern and matcher derive from the same (pattern, subs)", "the two derived attributes use different inputs", "same inputs")
    # every application of a registration's regex to a path is a fullmatch (the three sites are siblings: the
    # NamedGlob matcher, the watcher's relevance test and the product check at declaration time)
    n = 0
    for modname in ("workflow", "nglob", "startup", "director", "watcher", "clean"):
        mod = ctx.prog.module(modname)
        for fi in mod.all_funcs.values():
            compiled = set()
            for a in ast.walk(fi.node):
                if isinstance(a, ast.Assign) and len(a.targets) == 1 and isinstance(a.targets[0], ast.Name) and isinstance(a.value, ast.Call) and ast.unparse(a.value.func) == "re.compile":
                    compiled.add(a.targets[0].id)
            for c in calls_in(fi.node):
                if not (isinstance(c.func, ast.Attribute) and c.func.attr in ("match", "search", "fullmatch", "findall", "finditer")):
                    continue
                recv = c.func.value
                is_glob_regex = (isinstance(recv, ast.Call) and ast.unparse(recv.func) == "re.compile" and recv.args and "regex" in ast.unparse(recv.args[0]).lower()) \
                    or (isinstance(recv, ast.Name) and recv.id in compiled) or ast.unparse(recv) == "self._regex"
                if not is_glob_regex:
                    continue
                n += 1
                ctx.check(c.func.attr == "fullmatch", fi.fq, f"{ast.unparse(c.func)}(...)", f"a registration's regex is applied with {c.func.attr}: a path that merely starts with (or contains) a match counts as matching here but not for the matcher that scanned the file system", "fullmatch", where=ctx.where_of(fi, c))
    if n < 3:
        raise AnalysisError(f"only {n} applications of a glob regex found (3 confirmed by hand)")


def rule_scan_flags(ctx):
    """R-C17-4."""
    g = ctx.prog.func("nglob.NamedGlob.glob")
    call = [c for c in calls_in(g.node) if ast.unparse(c.func) == "glob.iglob"]
    ok = bool(call) and ast.unparse(call[0].args[0]) == "self._glob_pattern" and kwarg(call[0], "recursive") is not None and ast.unparse(kwarg(call[0], "recursive")) == "True" and kwarg(call[0], "include_hidden") is not None and ast.unparse(kwarg(call[0], "include_hidden")) == "True"
    ctx.check(ok, g.fq, "iglob(self._glob_pattern, recursive=True, include_hidden=True)", "the file-system scan skips hidden entries or does not recurse: recorded matches differ from what the matcher accepts", "flags set")
    src = _norm(ast.unparse(g.node))
    ctx.check("if path.is_dir(): path = path / ''" in src and "self.extend(paths)" in src, g.fq, "directories get a trailing separator and results pass through the matcher", "directory matches are recorded without separator or bypass the regex", "ok")


def rule_incremental(ctx):
    """R-C17-5."""
    wc = ctx.prog.func("nglob.NamedGlob.will_change")
    seq = [ast.unparse(c.func) for c in calls_in(wc.node)]
    ok = seq[:3] == ["copy.deepcopy", "evolved.extend", "evolved.reduce"]
    ctx.check(ok, wc.fq, "deep copy, extend(added), then reduce(deleted)", f"order {seq}: a path that is both added and deleted ends up recorded", "order kept")
    ctx.check("return None if evolved._results == self._results else evolved" in _norm(ast.unparse(wc.node)), wc.fq, "changed iff the result sets differ", "change detection altered", "compare _results")
    pn = ctx.prog.func("workflow.Workflow.process_nglob_changes")
    ctx.check("if deleted & updated: raise ConsistencyError" in _norm(ast.unparse(pn.node)), pn.fq, "overlapping change sets are rejected", "overlap accepted", "raises")
    rd = ctx.prog.func("nglob.NamedGlob.reduce")
    ctx.check("if len(path_set) == 0: del self._results[values]" in _norm(ast.unparse(rd.node)), rd.fq, "empty groups are removed (results compare equal to a fresh scan)", "empty groups linger", "deleted")
    # a registration is one row: its match set is rewritten through the row id, nothing coarser (one step may
    # register the same pattern text twice with different substitutions)
    pm = ctx.prog.func("workflow.Workflow.persist_nglob_matches")
    ups = [st_ for st_ in ctx.sql.stmts_in(pm.fq) if st_.kind == "UPDATE" and any(w[1] == "nglob" for w in st_.writes)]
    if not ups:
        raise AnalysisError("persist_nglob_matches no longer updates nglob")
    pk = [c for c, info in ctx.cat.tables["nglob"].columns.items() if info.get("pk")]
    for st_ in ups:
        whs = all_where_clauses(st_.text)
        conj = sorted(re.sub(r"\s*\.\s*", ".", _norm(c)) for c in split_conjuncts(whs[0])) if whs else []
        ctx.check(len(conj) == 1 and re.fullmatch(rf"(nglob\.)?{pk[0]} = (\?|:\w+)", conj[0]) is not None, pm.fq, "the match set of a registration is rewritten by row id",
                  f"the update selects rows by {conj}: every registration of that step with the same pattern text is overwritten with one registration's matches (and substitutions), so the recorded set of the other no longer equals what its matcher accepts", f"WHERE {pk[0]} = ?")
    rn = ctx.prog.func("startup.rescan_nglobs")
    src = _norm(ast.unparse(rn.node))
    ctx.check("new_ng.glob()" in src and "deleted = old_paths - new_paths" in src and "added = new_paths - old_paths" in src and "workflow.persist_nglob_matches(nglob_i, step, new_ng)" in src, rn.fq, "restart compares the recorded set with a fresh scan and persists the fresh one", "restart-side comparison changed", "fresh scan")


RULES = [
    Rule("R-C17-9", "substitutions are interpreted in the same context by both compilers", rule_substitution_context, min_instances=1),
    Rule("R-C17-8", "events for paths that a pattern may match reach the incremental update (same relevance as the rescan)", C14.rule_same_filter, min_instances=5),
    Rule("R-C17-6", "single-component wildcards never consume a separator", rule_component_wildcards, min_instances=5),
    Rule("R-C17-1", "token exhaustiveness", rule_tokens, min_instances=15),
    Rule("R-C17-2", "the two neighbour mergers agree", rule_mergers, min_instances=24),
    Rule("R-C17-3", "one matcher per registration", rule_one_matcher, min_instances=11),
    Rule("R-C17-4", "scan flags", rule_scan_flags, min_instances=2),
    Rule("R-C17-5", "incremental update order", rule_incremental, min_instances=6),
]

MUTANTS = [
    Mutant("question-mark-matches-separator", "nglob.py", in_function("convert_nglob_to_regex", replace_once('                regex = r"[^/]"\n', '                regex = r"."\n')), ("R-C17-6",)),
    Mutant("star-matches-separator", "nglob.py", in_function("convert_nglob_to_regex", replace_once('                    regex = r"[^/]*"\n', '                    regex = r"[^\\n]*"\n')), ("R-C17-6",)),
    Mutant("persist-by-pattern", "workflow.py", in_function("Workflow.persist_nglob_matches", lambda s: s.replace("        data = (json.dumps(json_converter.unstructure(ng)), nglob_i)\n        self.db.execute(\"UPDATE nglob SET data = ? WHERE i = ?\", data)\n", "        data = (json.dumps(json_converter.unstructure(ng)), step.i, ng.pattern)\n        self.db.execute(\"UPDATE nglob SET data = ? WHERE node = ? AND pattern = ?\", data)\n") if "WHERE i = ?" in s else None), ("R-C17-5",)),
    Mutant("product-check-prefix-match", "workflow.py", in_function("Workflow._raise_if_glob_match", lambda s: s.replace("re.compile(regex).fullmatch(path)", "re.compile(regex).match(path)", 1) if "re.compile(regex).fullmatch(path)" in s else None), ("R-C17-3",)),
    Mutant("hidden-skipped", "nglob.py", in_function("NamedGlob.glob", replace_once("include_hidden=True", "include_hidden=False")), ("R-C17-4",)),
    Mutant("rescan-without-subs", "startup.py", replace_once("new_ng = NamedGlob(old_ng.pattern, old_ng.subs)", "new_ng = NamedGlob(old_ng.pattern)"), ("R-C17-3",)),
    Mutant("regex-without-subs", "step.py", in_function("Step.add_nglob", replace_once("convert_nglob_to_regex(ng.pattern, ng.subs)", "convert_nglob_to_regex(ng.pattern)")), ("R-C17-3",)),
    Mutant("load-drops-subs", "cattrs.py", replace_once('        data["subs"],\n', "        {},\n"), ("R-C17-3",)),
    Mutant("merge-star-doublestar-regex-only", "nglob.py", in_function("convert_nglob_to_regex", lambda s: s.replace('                    regex = r".*"\n                    if last == "*":\n                        replace = True\n', '                    regex = r".*"\n') if 'if last == "*":\n                        replace = True' in s else None), ("R-C17-2",)),
    Mutant("glob-keeps-double-star", "nglob.py", in_function("convert_nglob_to_glob", lambda s: s.replace('            if texts[-1] not in ["*", "**"]:\n                texts.append("*")\n', '            texts.append("*")\n') if 'if texts[-1] not in ["*", "**"]:' in s else None), ("R-C17-2",)),
    Mutant("reduce-before-extend", "nglob.py", in_function("NamedGlob.will_change", lambda s: s.replace("        evolved.extend(added)\n        evolved.reduce(deleted)\n", "        evolved.reduce(deleted)\n        evolved.extend(added)\n") if "evolved.extend(added)" in s else None), ("R-C17-5",)),
    Mutant("unknown-token-dropped", "nglob.py", in_function("convert_nglob_to_regex", lambda s: s.replace('                raise ValueError(f"Cannot convert wildcard to regex: {part}")\n', "                pass\n") if "Cannot convert wildcard to regex" in s else None), ("R-C17-1",)),
    Mutant("search-not-fullmatch", "workflow.py", in_function("Workflow.matches_any_glob", replace_once("re.compile(regex).fullmatch(path)", "re.compile(regex).match(path)")), ("R-C17-3",)),
]

VARIANTS = []
