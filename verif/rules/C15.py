"""C15 — requests that change the workflow are applied atomically (structural clauses)."""
from __future__ import annotations

import ast
import re

from ..engine import flow
from ..engine.mutate import Mutant, Variant, in_function, replace_once
from ..engine.runner import Rule
from ..engine.source import AnalysisError
from .C05 import TxModel
from . import shared
from .common import callee_name, calls_in

EXPLANATION = (
    "Static analysis of every @allow_rpc handler of DirectorHandler. Using the compiled write effects of all SQL "
    "reachable from each `async with self.db` region, every handler must have at most one mutating region (further "
    "regions read-only); queue/submit/wake/defer/mkdir effects must lie after the region's exit; no except clause in "
    "code reachable inside a mutating region may swallow a failure (each handler ends in raise on all paths); "
    "DBSession.__aenter__/__aexit__ are path-enumerated for BEGIN IMMEDIATE, commit iff no exception, rollback "
    "otherwise, release on all exits and re-entry rejection before waiting; the receive loop gathers in-flight "
    "handlers in finally and _call_and_capture_failure never raises. This covers every rejecting path of every "
    "handler at once. Does not decide interleavings or what SQLite does on a commit failure. "
    "Also: the wait for in-flight handlers in the receive loop's finally is unbounded (no timeout/wait_for); a graph mutation inside a helper counts as covered when every resolved call site of the helper is inside a region."
)
ASSUMPTIONS = ["a raised exception inside `async with db` reaches __aexit__ (Python semantics)", "SQLite rollback restores the pre-transaction state"]

DBCTX = lambda s: s.split(".")[-1] == "db"  # noqa: E731

ESCAPE_CALLS = ("_submit_to_check", "wake_job_loop.set", "executor.defer", "create_dirs", "run_promoted_hash_jobs", "hash_queue.submit", "resume.set", "end_watching.set")


def _norm(s):
    return re.sub(r"\s+", " ", s).strip()


def _region_writes(ctx, fi, region_node):
    """Direct SQL write effects reachable from the calls inside one `async with db` block."""
    writes = set()
    for c in calls_in(region_node):
        for cs in ctx.cg.sites.get(fi.fq, []):
            if cs.node is c and not cs.by_name:
                for t in cs.targets:
                    for f in ctx.cg.reachable(t.fq, include_by_name=False):
                        for s in ctx.sql.stmts_in(f):
                            for (op, tb, col, trig) in s.writes:
                                if trig is None and tb not in ("path_list", "node_list"):
                                    writes.add((op, tb, col))
    for s in ctx.sql.stmts_in(fi.fq):
        if region_node.lineno <= s.site.lineno <= region_node.end_lineno:
            for (op, tb, col, trig) in s.writes:
                if trig is None and tb not in ("path_list", "node_list"):
                    writes.add((op, tb, col))
    return writes


def _covered(ctx, tm, fq, lineno, depth=3):
    """Is the statement at ``lineno`` of ``fq`` executed inside a transaction region: lexically, or because every
    resolved call site of the (synchronous helper) function is?"""
    if tm._inside(fq, lineno):
        return True, "in region"
    if depth == 0:
        return False, "helper chain too deep"
    sites = [cs for cs in ctx.cg.call_sites_of(fq, include_by_name=False)]
    if not sites:
        return False, "not in a region and no resolved caller"
    for cs in sites:
        ok, how = _covered(ctx, tm, cs.caller.fq, cs.node.lineno, depth - 1)
        if not ok:
            return False, f"caller {cs.caller.fq}:{cs.node.lineno} is not in a region"
    return True, f"helper: all {len(sites)} call site(s) are in a region"


def rule_one_mutating_region(ctx):
    """R-C15-1 / R-C15-2."""
    cls = ctx.prog.cls("director.DirectorHandler")
    nh = 0
    for name, fi in sorted(cls.methods.items()):
        if "allow_rpc" not in fi.decorators():
            continue
        nh += 1
        regs = [n for n in ast.walk(fi.node) if isinstance(n, ast.AsyncWith) and any(DBCTX(ast.unparse(it.context_expr)) for it in n.items)]
        mut = []
        for r in regs:
            w = _region_writes(ctx, fi, r)
            if w:
                mut.append((r, w))
        ctx.check(len(mut) <= 1, fi.fq, f"{len(regs)} region(s), {len(mut)} mutating",
                  f"the request mutates the workflow in {len(mut)} transactions (second: line {mut[1][0].lineno if len(mut) > 1 else '?'}, e.g. {sorted(mut[1][1], key=str)[:2] if len(mut) > 1 else ''}): a rejection in the later one leaves the earlier one applied", "at most one mutating region", where=ctx.where_of(fi))
        # SQL outside any region in the handler or its callees is C05's rule; here: side effects before commit
        if mut:
            r = mut[0][0]
            inside = []
            for c in calls_in(r):
                src = ast.unparse(c.func)
                if any(src.endswith(e) for e in ESCAPE_CALLS):
                    inside.append(src)
            ctx.check(not inside, fi.fq, "follow-up effects happen after commit", f"{inside} inside the mutating region: a rollback leaves an orphaned follow-up (hash job, wake-up, deferral, created directory)", "after the region", where=ctx.where_of(fi, r))
    if nh < 12:
        raise AnalysisError(f"only {nh} @allow_rpc handlers found")
    # the mutating workflow API is reachable from handlers only (or from the build loop)
    tm = TxModel(ctx)
    for fq in ("workflow.Workflow.define_step", "workflow.Workflow.amend_step", "workflow.Workflow.declare_static_files", "workflow.Workflow.register_static_tree", "workflow.Workflow.register_nglob", "step.Step.hold", "step.Step.release"):
        for cs in ctx.cg.call_sites_of(fq, include_by_name=False):
            caller = cs.caller.fq
            if caller.startswith(("workflow.", "step.", "trellis.")):
                continue
            ok, how = _covered(ctx, tm, caller, cs.node.lineno)
            ctx.check(ok, caller, f"{fq.split('.')[-1]}(...) inside `async with db`", f"a graph mutation is called outside a transaction region ({how})", how, where=ctx.where_of(cs.caller, cs.node))


def rule_no_swallowed_failure(ctx):
    """R-C15-3."""
    cls = ctx.prog.cls("director.DirectorHandler")
    roots = [fi.fq for fi in cls.methods.values() if "allow_rpc" in fi.decorators()]
    seen = set()
    n = 0
    for r in roots:
        for f in ctx.cg.reachable(r, include_by_name=False):
            if f in seen:
                continue
            seen.add(f)
            fi = ctx.cg._func(f)
            if fi is None or fi.module.name not in ("workflow", "trellis", "step", "file", "static_tree", "director", "scheduler"):
                continue
            for t in [x for x in ast.walk(fi.node) if isinstance(x, ast.Try)]:
                for h in t.handlers:
                    n += 1
                    reraises = _always_raises(h.body)
                    ctx.check(reraises, f, f"except {ast.unparse(h.type) if h.type else ''}", "an exception raised inside a request's transaction is swallowed: the request reports success (and commits) although a stage failed", "handler ends in raise on all paths", where=ctx.where_of(fi, h))
    ctx.ok("handler-reachable graph code", f"{n} except clause(s) in {len(seen)} functions", "all re-raise")


def _always_raises(body):
    if not body:
        return False
    last = body[-1]
    if isinstance(last, ast.Raise):
        return True
    if isinstance(last, ast.If):
        return bool(last.orelse) and _always_raises(last.body) and _always_raises(last.orelse)
    return False


def rule_session_discipline(ctx):
    """R-C15-4."""
    ae = ctx.prog.func("sqlite3.DBSession.__aenter__")
    for tr, st in flow.paths_of(ae):
        names = [e[1] for e in tr if e[0] == "call"]
        if st == "raise":
            ctx.check("self._release" in names, ae.fq, "a failing BEGIN releases the lock", "the lock is kept when BEGIN IMMEDIATE fails: every later transaction deadlocks", "released")
        else:
            ok = "self._acquire" in names and "con.execute" in names and names.index("self._acquire") < names.index("con.execute")
            ctx.check(ok, ae.fq, "acquire, then BEGIN IMMEDIATE", "transaction opened before exclusive access", "order kept")
    ctx.check("con.execute('BEGIN IMMEDIATE')" in ast.unparse(ae.node), ae.fq, "BEGIN IMMEDIATE", "other BEGIN mode", "immediate")
    ax = ctx.prog.func("sqlite3.DBSession.__aexit__")
    for tr, st in flow.paths_of(ax):
        tests = [(e[1], e[2]) for e in tr if e[0] == "test"]
        names = [e[1] for e in tr if e[0] == "call"]
        rel = "self._release" in names
        ctx.check(rel, ax.fq, "the lock is released on every exit", "a path leaves __aexit__ holding the lock", "finally: _release")
        if ("exc is None", True) in tests and st != "raise":
            ctx.check("con.commit" in names and "con.rollback" not in names, ax.fq, "no exception => commit", "a clean exit does not commit", "commit")
        if ("exc is None", False) in tests:
            ctx.check("con.rollback" in names and "con.commit" not in names, ax.fq, "exception => rollback", "a failed request is committed", "rollback")
    aq = ctx.prog.func("sqlite3.DBSession._acquire")
    for tr, st in flow.paths_of(aq):
        k = [i for i, e in enumerate(tr) if e[0] == "await" and "_lock.acquire" in e[1]]
        tests = [(e[1], e[2], i) for i, e in enumerate(tr) if e[0] == "test"]
        nested = [i for t, v, i in tests if "held.task is task" in t]
        nobody = [i for t, v, i in tests if t == "held is not None" and v is False]
        if k:
            ctx.check((bool(nested) and nested[0] < k[0]) or (bool(nobody) and nobody[0] < k[0]), aq.fq, "re-entry by the holding task is rejected before waiting for the lock", "a nested request by the holder deadlocks instead of raising", "checked first")
    shared.check_rollback_possible(ctx, "a rejected request leaves the rows it wrote there (e.g. the trigger-maintained step_need_count mirror) behind")
    ex = ctx.prog.func("sqlite3.DBSession._require_transaction_con")
    ctx.check("held.task is not asyncio.current_task()" in ast.unparse(ex.node) and "not held.opened_transaction" in ast.unparse(ex.node), ex.fq, "execute() requires the calling task's own open transaction", "statements can run on another task's transaction", "checked")
    run = ctx.prog.func("sqlite3.DBSession._run")
    ctx.check("con = self._require_transaction_con()" in ast.unparse(run.node), run.fq, "every statement goes through the transaction check", "bypassed", "checked")


def rule_received_applied(ctx):
    """R-C15-5."""
    rl = ctx.prog.func("rpc.RPCServerConnection._recv_loop")
    tries = [n for n in ast.walk(rl.node) if isinstance(n, ast.Try)]
    ok = False
    cancel_only_in_except = True
    for t in tries:
        fin = " ".join(ast.unparse(s) for s in t.finalbody)
        if "asyncio.gather(*self._tasks" in fin:
            ok = True
        for n in ast.walk(t):
            if isinstance(n, ast.Call) and ast.unparse(n.func) == "task.cancel":
                inside_handler = any(n in list(ast.walk(h)) for h in t.handlers if h.type is not None and ast.unparse(h.type) == "BaseException")
                cancel_only_in_except = cancel_only_in_except and inside_handler
    ctx.check(ok, rl.fq, "in-flight handlers are awaited in finally", "the connection ends without waiting for handlers of requests that were received in full", "finally: gather", where=ctx.where_of(rl))
    # implicit cancellation: a bounded wait (asyncio.timeout / timeout_at / wait_for / wait(timeout=)) cancels what it
    # waits for when the bound expires
    bounded = []
    for t in tries:
        for st in t.finalbody:
            for n in ast.walk(st):
                if isinstance(n, (ast.AsyncWith, ast.With)):
                    for it in n.items:
                        if isinstance(it.context_expr, ast.Call) and callee_name(it.context_expr) in ("timeout", "timeout_at", "move_on_after", "fail_after"):
                            bounded.append(ast.unparse(it.context_expr))
                if isinstance(n, ast.Call) and callee_name(n) == "wait_for":
                    bounded.append(ast.unparse(n.func))
                if isinstance(n, ast.Call) and callee_name(n) == "wait" and any(k.arg == "timeout" for k in n.keywords):
                    bounded.append(ast.unparse(n.func) + "(timeout=)")
    ctx.check(not bounded, rl.fq, "the wait for in-flight handlers is unbounded", f"the wait is bounded by {bounded}: when the bound expires the handlers of fully received requests are cancelled, so a request is dropped or applied in part only because its client is gone", "no timeout", where=ctx.where_of(rl))
    ctx.check(cancel_only_in_except, rl.fq, "handlers are cancelled only when the loop itself fails", "handlers are cancelled on an ordinary disconnect: a received request is applied only in part", "cancel only in except BaseException")
    cc = ctx.prog.func("rpc._call_and_capture_failure")
    handlers = [h for t in ast.walk(cc.node) if isinstance(t, ast.Try) for h in t.handlers]
    ok = len(handlers) == 1 and handlers[0].type is not None and ast.unparse(handlers[0].type) == "BaseException" and not any(isinstance(n, ast.Raise) for n in ast.walk(handlers[0])) and any(isinstance(n, ast.Return) for n in ast.walk(handlers[0]))
    ctx.check(ok, cc.fq, "never raises: every failure becomes a reply", "a failing handler escapes as a task exception", "except BaseException: return failure")
    sv = ctx.prog.func("rpc.RPCServerConnection.serve")
    ctx.check("task_group.create_task(self._recv_loop()" in _norm(ast.unparse(sv.node)), sv.fq, "the receive loop owns the handler tasks", "changed", "ok")


RULES = [
    Rule("R-C15-1", "one mutating region per handler; follow-ups after commit", rule_one_mutating_region, min_instances=20),
    Rule("R-C15-3", "no swallowed failure inside a request's transaction", rule_no_swallowed_failure, min_instances=2),
    Rule("R-C15-4", "DBSession discipline", rule_session_discipline, min_instances=9),
    Rule("R-C15-5", "a received request is applied in full", rule_received_applied, min_instances=4),
]

MUTANTS = [
    Mutant("temp-schema-without-journal", "sqlite3.py", in_function("connect", replace_once('    con.execute("PRAGMA foreign_keys = ON")\n', '    con.execute("PRAGMA foreign_keys = ON")\n    con.execute("PRAGMA temp.journal_mode = OFF")\n')), ("R-C15-4",)),
    Mutant("gather-with-grace", "rpc.py", in_function("RPCServerConnection._recv_loop", replace_once("            await asyncio.gather(*self._tasks, return_exceptions=True)\n", "            try:\n                async with asyncio.timeout(5.0):\n                    await asyncio.gather(*self._tasks, return_exceptions=True)\n            except TimeoutError:\n                pass\n")), ("R-C15-5",)),
    Mutant("two-mutating-regions", "director.py", in_function("DirectorHandler.declare_static", lambda s: s.replace("            to_check.update(self.workflow.declare_static_files(creator, file_paths))\n", "        async with self.db:\n            to_check.update(self.workflow.declare_static_files(creator, file_paths))\n", 1) if "to_check.update(self.workflow.declare_static_files(creator, file_paths))" in s else None), ("R-C15-1",)),
    Mutant("submit-inside-region", "director.py", in_function("DirectorHandler.define_step", lambda s: s.replace("        self._submit_to_check(to_check)\n", "", 1).replace("                duration=duration,\n            )\n", "                duration=duration,\n            )\n            self._submit_to_check(to_check)\n", 1) if "self._submit_to_check(to_check)" in s else None), ("R-C15-1",)),
    Mutant("swallow-graph-error", "trellis.py", in_function("Node.add_source", lambda s: s.replace('            raise GraphError("Relation already exists") from exc\n', "            return -1\n") if "Relation already exists" in s else None), ("R-C15-3",)),
    Mutant("commit-on-exception", "sqlite3.py", in_function("DBSession.__aexit__", replace_once("                con.rollback()\n", "                con.commit()\n")), ("R-C15-4",)),
    Mutant("no-release-on-failed-begin", "sqlite3.py", in_function("DBSession.__aenter__", replace_once("        except Exception:\n            self._release()\n            raise\n", "        except Exception:\n            raise\n")), ("R-C15-4",)),
    Mutant("cancel-on-disconnect", "rpc.py", in_function("RPCServerConnection._recv_loop", replace_once("            await asyncio.gather(*self._tasks, return_exceptions=True)\n", "            for task in list(self._tasks):\n                task.cancel()\n            await asyncio.gather(*self._tasks, return_exceptions=True)\n")), ("R-C15-5",)),
    Mutant("no-gather", "rpc.py", in_function("RPCServerConnection._recv_loop", replace_once("            await asyncio.gather(*self._tasks, return_exceptions=True)\n", "            pass\n")), ("R-C15-5",)),
    Mutant("capture-reraises", "rpc.py", in_function("_call_and_capture_failure", replace_once("        return failure\n", "        if not failure.usage:\n            raise\n        return failure\n")), ("R-C15-5",)),
    Mutant("mutation-outside-region", "director.py", in_function("DirectorHandler.register_glob", lambda s: s.replace("        async with self.db:\n            creator = self.scheduler.get_job_step(job_i)\n            self.workflow.register_nglob(creator, ng)\n", "        creator = self.scheduler.get_job_step(job_i)\n        self.workflow.register_nglob(creator, ng)\n") if "self.workflow.register_nglob(creator, ng)" in s else None), ("R-C15-1",)),
]

VARIANTS = [
    Variant("register-through-helper", "director.py", lambda t: t.replace("    @allow_rpc\n    async def declare_static(", "    def _register_matches(self, creator, ng):\n        self.workflow.register_nglob(creator, ng)\n\n    @allow_rpc\n    async def declare_static(", 1).replace("            creator = self.scheduler.get_job_step(job_i)\n            self.workflow.register_nglob(creator, ng)\n", "            creator = self.scheduler.get_job_step(job_i)\n            self._register_matches(creator, ng)\n", 1) if "            creator = self.scheduler.get_job_step(job_i)\n            self.workflow.register_nglob(creator, ng)\n" in t else None),
]
