#!/venv/bin/python
"""Static checks of StepUp Core properties C01..C20.

Usage: check.py <Cxx> [--tier quick|thorough] [--repo DIR] [--replay FILE]

Exit status: 0 = every rule instance held (known findings are printed as KNOWN-FINDING lines),
1 = violation (a line ``VIOLATION property=<id> replay=<path>`` is printed),
2 = the analyser could not do its job (``ANALYSIS-ERROR``; never a pass, never a violation).

Nothing from /repo is imported or executed: the sources are parsed, their SQL is compiled by
SQLite against an empty in-memory schema, and rules are evaluated on those models.
"""
import argparse
import importlib
import json
import os
import pathlib
import sys

ROOT = pathlib.Path(__file__).resolve().parent
sys.path.insert(0, str(ROOT))
sys.dont_write_bytecode = True


def main(argv=None):
    if os.environ.get("PYTHONHASHSEED") != "0":
        # deterministic set iteration order in the folder (bounded enumerations are order dependent)
        env = dict(os.environ, PYTHONHASHSEED="0")
        os.execve(sys.executable, [sys.executable, str(pathlib.Path(__file__).resolve()), *sys.argv[1:]], env)
    ap = argparse.ArgumentParser()
    ap.add_argument("prop")
    ap.add_argument("--tier", default=os.environ.get("VERIF_TIER", "quick"), choices=["quick", "thorough"])
    ap.add_argument("--repo", default=os.environ.get("VERIF_REPO", "/repo"))
    ap.add_argument("--replay")
    ap.add_argument("--no-evidence", action="store_true")
    args = ap.parse_args(argv)
    prop = args.prop.upper()
    if args.replay:
        data = json.loads(pathlib.Path(args.replay).read_text())
        for v in data.get("violations", []):
            print(f"{v.get('where') or v['site']}: {v['rule']}: {v['site']}: {v['construct']}: {v['reason']}")
        return 1 if data.get("violations") else 0
    try:
        seed = int(os.environ.get("VERIF_SEED", "0"))
    except ValueError:
        seed = 0
    try:
        mod = importlib.import_module(f"verif.rules.{prop}")
    except ModuleNotFoundError:
        print(f"ANALYSIS-ERROR property={prop} no rule module for this property")
        return 2
    from verif.engine.runner import run_property

    audit = None
    if args.tier == "thorough" and (getattr(mod, "MUTANTS", None) or getattr(mod, "VARIANTS", None)):
        from verif.engine.mutate import run_audit

        def audit(repo, seed):
            return run_audit(prop, f"verif.rules.{prop}", getattr(mod, "MUTANTS", []), getattr(mod, "VARIANTS", []), repo, seed)

    return run_property(prop, mod.RULES, mod.EXPLANATION, mod.ASSUMPTIONS, args.repo, args.tier, seed, audit=audit,
                        write_evidence=not args.no_evidence)


if __name__ == "__main__":
    sys.exit(main())
