# Claim table for MANIFEST.json (executed by gen_manifest.py; `claim` and NOT_APPLICABLE are in scope).

STATIC_TB = ("Trusted base: CPython's ast parser, SQLite 3.40.1's parser/code generator/authorizer (used as SQL compiler "
             "front end on an empty in-memory schema), and the frozen instance tables of the rules (confirmed by reading, "
             "DESIGN.md appendix A). Decides structural clauses only.")

claim(
    "C18",
    "Clause level, near complete: every selection of stored labels by a directory prefix (all SQL call sites and the "
    "Python startswith tests in the graph modules) is enumerated and must be written in a byte-exact idiom; range upper "
    "bounds must be dir_range_upper of the lower bound by def-use; label normal forms and root awareness are checked per site. "
    "This is a static guarantee over all label strings for the idioms used, which a test over sampled names cannot give.",
    STATIC_TB + " Assumes BINARY collation is memcmp on UTF-8 and that labels are stored in normal form (checked on the client side by C20's rules). "
    "Known finding F13 (stepup build ./) is listed in known_findings.json.",
    "SQL idiom classification over folded statements + def-use of range bounds + dominance of separator normalisation",
)

claim(
    "C10",
    "Clause level, strong: the read sets of the four cached scheduling definitions are computed by the SQL compiler and every "
    "write event on a read-set column anywhere in the package (all call sites, triggers, FK cascades) must be covered by a "
    "flag-setting trigger on that event, an explicit flag update, dirty seeding, or a frozen reasoned exception; plus truth "
    "tables of the dispatch predicate and the _safe seed, flag consumption before each decision in one transaction, wake-ups, "
    "job_loop exit condition and the defer cap. This quantifies over all database states and mutation orders, which scripted "
    "mutation tests cannot. It decides that caches are recomputed when their inputs change, not that the recursive SQL "
    "definitions compute the intended fixed points, nor liveness under real timing.",
    STATIC_TB + " Assumes the single-threaded asyncio loop (code between awaits is atomic).",
    "SQL read-set / write-event coverage via SQLite authorizer + predicate truth tables + path enumeration (must-precede, same-region)",
)

claim(
    "C09",
    "Clause level, strong: catalogue facts (CHECK constraints, RAISE(ABORT) triggers with their events, WHEN clauses and kind "
    "predicates as truth tables over the enums) versus the row invariants; table ownership from the compiled write effects of all "
    "SQL call sites; detached-flag maintenance, cycle-check placement and the state-transition relation on all paths of each write "
    "site; the _HASH_TRANSITIONS whitelist versus its producers and the file table's constraints. Quantifies over all database "
    "states for the per-row and per-site clauses; graph-wide invariants after arbitrary operation sequences are not decided.",
    STATIC_TB,
    "catalogue introspection + truth tables of trigger/CHECK predicates + write-effect ownership + path enumeration per write site",
)

claim(
    "C06",
    "Clause level, strong: every file-system deletion effect in the package is enumerated against a frozen site table (no recursive "
    "delete anywhere); writers of the deletion queue are frozen; File.before_delete is interpreted over all 8 file states x hash "
    "known; the unlink in remove_deletable_files and in the clean tool is reachable only past the re-hash comparison on every "
    "path; Builder.finalize's guards are folded over all 64 ReturnCode flag sets x targets x --no-clean; the clean tool's filters "
    "and the held-node query are truth tables. Does not decide that database memories of every history describe files StepUp wrote.",
    STATIC_TB,
    "effect enumeration (who-may-delete) + finite-domain interpretation + guarded-by on all paths + guard truth table over the flag enum",
)

claim(
    "C07",
    "Clause level, weak: order and shape of the cleanup sequence and of the detached-node deletion loop (release edges, queue file, "
    "delete; repeat while something was deleted), static-tree pruning before the base deletion, directory queuing, optional-revert "
    "filter. Completeness of the deletion fixed point for arbitrary detached subgraphs is a run-time property and is NOT claimed.",
    STATIC_TB,
    "path enumeration (must-precede, on-all-paths) + loop-shape check + SQL filter truth table",
)

claim(
    "C03",
    "Clause level: the shared blocked-input predicate (identity in dispatch and report, truth table over state x detached x dynamic, "
    "cross-checked with _derive_job by finite-domain interpretation); hash-before/hash-after/fail-and-drain ordering on all paths of "
    "execute_job/_new_run/try_skip_job; atomic completion region without await; amend classification over Availability; agreement "
    "of the amend-time, defer-time and report-time predicates as tables; freshness test orientation and stop-time pruning. The race "
    "windows themselves (what an external writer does during the command) are not decided.",
    STATIC_TB + " Assumes the single-threaded asyncio loop.",
    "SQL predicate truth tables + finite-domain interpretation + path enumeration (order, same-region, no-await-between)",
)

claim(
    "C01",
    "Clause level: necessary mechanisms of incremental = fresh. Every selector on a change-reaction path (file content, environment "
    "variables, glob match sets, completion) must include detached nodes; the skip is reached only past both digest comparisons; a rerun "
    "starts from the declared state (compiled effects of reset_for_rerun, in a transaction before the command); a lost product "
    "invalidates its creator chain; the propagation chain is intact and each handler reacts per state (finite-domain tables over "
    "FileState/StepState); full recycle compares all four declaration lists; startup scans precede the builder. Equality of outputs and "
    "graphs for all histories is not decided.",
    STATIC_TB,
    "selector analysis (detached-inclusive) + path enumeration (guarded-by, must-precede, same-region) + call-graph reachability + finite-domain handler tables",
)

claim(
    "C13",
    "Clause level, strong: def-use of every ingredient into the digest (including FileHash's equality-relevant fields and both executor "
    "call sites), sorted iteration of every hashing loop, and a decision procedure for unique decodability of the word grammar "
    "(position automaton over typed words) that produces the ambiguous reading when it fails; stat shortcut compares the full stat "
    "signature; None/unknown pairing. This is an injectivity argument over all ingredient pairs up to SHA-256, which sampled examples "
    "cannot give. Known finding F1 (keyword '__env_overrides__' among str words) is listed.",
    STATIC_TB + " Assumes SHA-256 collision resistance, NUL-free variable words (as the property states) and fixed-width digest/int words.",
    "def-use analysis + regular-grammar ambiguity check (product of the Glushkov automaton with itself)",
)

claim(
    "C04",
    "Clause level: only PENDING rows satisfy the dispatch predicate (truth table) and a stored hash means check, not run; hash jobs apply "
    "unchanged results only for the CONFIRMED cause; the callers of Step.delete_hash and Workflow.mark_step_pending and the raw writers "
    "of step.state/step_hash are frozen tables (who may invalidate), so a new invalidation path is reported with its site; full recycle "
    "keeps state and hash (after_recycle interpreted over StepState x hash present); stat shortcut compares the whole stat signature. "
    "That no spurious rerun occurs for every reachable database, and cone minimality, are not decided.",
    STATIC_TB,
    "who-may-call tables over the resolved call graph + SQL write ownership + truth table + finite-domain interpretation",
)

claim(
    "C05",
    "Clause level: a fixed point over the call graph classifies functions as needs-transaction / opens-transaction; every task entry point "
    "(21 roots + all RPC handlers) must reach SQL only inside an `async with db` region and no region may nest; job completion, skip and "
    "dispatch are single regions; every transient state written by dispatch has a startup recovery (folded bound parameters), including "
    "detached rows; connection pragmas and the open-time check are unconditional. The deletion queue living only in memory while the "
    "deleting transaction commits first is reported as known finding F5. Equality with the uninterrupted build for every crash point is "
    "not decided.",
    STATIC_TB,
    "transaction-region fixed point over the call graph + path enumeration (same-region) + folded SQL parameters",
)

claim(
    "C12",
    "Clause level: task starts dominated by the slot guard and reachable only from job_loop; launch_command reachable only through "
    "_run_command <- execute_job <- RunJob.coro and unreachable from skip/validate/hash/promoted paths (who-may-reach); the resource test "
    "is part of the dispatch statement (read set, RUNNING constant, truth table of the arm) and check-then-claim is one region without "
    "await; a checkable job cannot run a command. That counts respect the limits at every instant follows from these clauses plus the "
    "single-threaded event loop, which is assumed, not analysed.",
    STATIC_TB + " Assumes the single-threaded asyncio loop.",
    "dominance on all paths + call-graph reachability (who-may-reach) + SQL read set and arm truth table",
)

claim(
    "C15",
    "Clause level, strong: for each of the @allow_rpc handlers the compiled write effects of everything reachable from each `async with "
    "self.db` block give the number of mutating regions (at most one); queue/wake/defer/mkdir follow-ups must lie after the region; every "
    "except clause reachable inside a request must re-raise; DBSession's enter/exit/acquire are path-enumerated (BEGIN IMMEDIATE, commit "
    "iff no exception, rollback otherwise, release on all exits, re-entry rejected before waiting); the receive loop gathers in-flight "
    "handlers and cancels them only when it fails itself. Covers every rejecting path of every handler at once. Interleavings and SQLite's "
    "behaviour on commit failure are not decided.",
    STATIC_TB,
    "SQL write effects per transaction region over the call graph + effect ordering + exception-flow (handlers end in raise) + path enumeration",
)

claim(
    "C08",
    "Clause level: the claim on a path is a database fact (unique binary (kind, label) index, exact attached lookup); each symmetric "
    "conflict relation has a guard in both arrival orders and each guard precedes the mutation it protects (tree lookup before a file is "
    "created; complete attached-label scan and complete detached adoption before a tree is created; glob check before the recycle "
    "short-circuit and before amended outputs; product query of register_nglob as a truth table; duplicate-step, out/vol and forbidden-"
    "target checks); every _declare_file call is dominated by _check_declaration for the same path and role; the no-op redeclaration "
    "requires equal role and equal creator (finite-domain table). All path spellings are not decided: the director trusts the client (C20).",
    STATIC_TB,
    "must-precede ordering of guards and mutations + SQL filter truth tables + who-may-call + finite-domain interpretation",
)

claim(
    "C02",
    "Clause level: observation never acquires ownership (no call path from the glob/relevance functions to create/_declare_file/reattach, no "
    "node writes; _resolve_supply_file creates only unowned or tree-owned files); declaration lists are rebound to sorted(set(...)) before "
    "any other use and observable row orders carry ORDER BY label; every GraphError raised under a database-dependent guard must use a "
    "shared formatter, symmetric formatters sort their parties and fixed-role formatters get new/existing arguments in consistent roles "
    "at all call sites. Identity of the final graph under all RPC interleavings is not decided.",
    STATIC_TB,
    "call-graph reachability (who-may-reach) + def-use ordering + control-dependence of raise sites on database lookups + formatter call-site role table",
)

claim(
    "C16",
    "Clause level: exposure gate dominance in _call_procedure and a cross-check of every procedure name used by clients in the package "
    "against the decorated handler methods; call-id pairing by def-use on server and both clients (register-before-send with no await after "
    "the liveness check, resolve by popped id, sync id comparison); one done callback per task, one enqueue per callback, one outcome per "
    "send-loop iteration; encoder/decoder agreement on field size, order and byte order with the size bound before every sized read; only "
    "UsageError subclasses are reconstructed; EOF/reset map to a clean end. Behaviour under every byte-level fragmentation and completion "
    "order is not decided.",
    STATIC_TB,
    "dominance on all paths + def-use of the call id + writer/reader table agreement + client/handler name cross-check",
)

claim(
    "C19",
    "Clause level: single source of the exit code (one assignment of Builder.returncode, serve's two returns); report_unbuilt is interpreted "
    "over failed count x draining x sub-report codes (48 points) and must equal the definition of each bit, with the FAILED-step query "
    "restricted to attached steps; partition structure of the pending report (primary keys, complement arm, distinct root kinds with "
    "BLOCK_STEP largest, each kind consumed once, PendingOther fields = formatted buckets, universe = dispatch's); scratch tables "
    "dropped in finally. That the attribution forest reaches every non-cyclic step for every leftover graph is not decided.",
    STATIC_TB,
    "finite-domain interpretation of the flag logic + catalogue facts + SQL text structure of the classification arms",
)

claim(
    "C20",
    "Clause level: static taint analysis in api.py (sources: path parameters; sanitiser: translate or the trailing-separator wrapper, with "
    "the new step's workdir for inp/out/vol in step() and none elsewhere; sinks: arguments of get_rpc_client().call.<procedure>), "
    "translate_back on paths handed back, no leading './' restored on label-bound flows, normalisation after every join on every path of "
    "translate/translate_back, reserved environment variables = the ones assigned after the overrides, clean tool translates in and back. "
    "The arithmetic of translate for all '..'/absolute/nested combinations is value-level and not decided.",
    STATIC_TB,
    "taint analysis (source/sanitiser/sink) by def-use + path enumeration for normalise-after-join + writer/reader table agreement",
)

claim(
    "C11",
    "Clause level, weak: wiring of the need mechanism only. Dispatch binds `_implied_need > need_threshold`, the threshold is DEFAULT iff "
    "any target was given; the compiled read set of the need recomputation contains every ingredient of the definition (declared need, "
    "consumers two hops away, attachedness, output state, labels, both target tables); reconcile_targets flags stale and newly matching "
    "producers before the first tick; one shared regular-output predicate (identity + truth table) at all four sites; the target "
    "classifier is pure; optional-revert and forbidden-target filters are truth tables. That _implied_need equals the least fixed point of "
    "the need definition for every graph, and that the set of executed commands equals the needed set, is NOT decided.",
    STATIC_TB,
    "SQL read-set inclusion + shared-constant identity + truth tables + purity (no file-system effect reachable)",
)

claim(
    "C14",
    "Clause level, weak: the watch side and the restart side are compared as sibling implementations: same set of workflow reactions "
    "reachable (modulo a reasoned difference table), same relevance filter (folded state sets, detached-filter of the glob selectors: "
    "known finding F3bw), record_change interpreted over the change kinds keeps the two event sets disjoint, run_once prunes unchanged "
    "paths before the glob reaction and signals only after clearing. Equivalence for all event sequences (delete-then-recreate, directory "
    "moves, inotify coalescing) is run-time behaviour and is NOT claimed.",
    STATIC_TB,
    "sibling cross-check over call-graph reachability + folded constant sets + finite-domain interpretation of the event folder",
)

claim(
    "C17",
    "Clause level, weak: structure of the two pattern compilers and of matcher storage. Token exhaustiveness against the tokenizer regex; "
    "the neighbour-merging if-chains of both compilers are interpreted over previous x next token (24 points) and must give the same "
    "append/drop/replace table under the token correspondence; stored regex, pattern and data come from one (pattern, subs) and every "
    "rebuild of a NamedGlob passes both; fullmatch everywhere; scan flags; extend-then-reduce on a deep copy. Agreement of the regex and "
    "glob translations on every pattern and tree (the enclosed/trailing single-component rules, back-references) is value-level and NOT "
    "claimed; a brute-force comparison outside the checks shows that gap is real (DESIGN.md, C17).",
    STATIC_TB,
    "exhaustiveness against the tokenizer + abstract interpretation of two sibling if-chains (table comparison) + def-use of matcher ingredients",
)

_PENDING = ""
