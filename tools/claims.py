# Claim table for MANIFEST.json (executed by gen_manifest.py; `claim` and NOT_APPLICABLE are in scope).

STATIC_TB = ("Trusted base: CPython's ast parser, SQLite 3.40.1's parser/code generator/authorizer (used as SQL compiler "
             "front end on an empty in-memory schema), and the frozen instance tables of the rules (confirmed by reading, "
             "DESIGN.md appendix A). Decides structural clauses only.")

claim(
    "C18",
    "Clause level, near complete: every selection of stored labels by a directory prefix (all SQL call sites and the "
    "Python startswith tests in the graph modules) is enumerated and must be written in a byte-exact idiom; range upper "
    "bounds must be dir_range_upper of the lower bound by def-use; label normal forms and root awareness are checked per site. "
    "This is a static guarantee over all label strings for the idioms used, which a test over sampled names cannot give.",
    STATIC_TB + " Assumes BINARY collation is memcmp on UTF-8 and that labels are stored in normal form (checked on the client side by C20's rules). "
    "Known finding F13 (stepup build ./) is listed in known_findings.json.",
    "SQL idiom classification over folded statements + def-use of range bounds + dominance of separator normalisation",
)

claim(
    "C10",
    "Clause level, strong: the read sets of the four cached scheduling definitions are computed by the SQL compiler and every "
    "write event on a read-set column anywhere in the package (all call sites, triggers, FK cascades) must be covered by a "
    "flag-setting trigger on that event, an explicit flag update, dirty seeding, or a frozen reasoned exception; plus truth "
    "tables of the dispatch predicate and the _safe seed, flag consumption before each decision in one transaction, wake-ups, "
    "job_loop exit condition and the defer cap. This quantifies over all database states and mutation orders, which scripted "
    "mutation tests cannot. It decides that caches are recomputed when their inputs change, not that the recursive SQL "
    "definitions compute the intended fixed points, nor liveness under real timing.",
    STATIC_TB + " Assumes the single-threaded asyncio loop (code between awaits is atomic).",
    "SQL read-set / write-event coverage via SQLite authorizer + predicate truth tables + path enumeration (must-precede, same-region)",
)

_PENDING = "rules designed in DESIGN.md section 4 but not implemented yet in this session; no claim is made until the check exists"
for _pid in ["C01", "C02", "C03", "C04", "C05", "C06", "C07", "C08", "C09", "C11", "C12", "C13", "C14", "C15", "C16", "C17", "C19", "C20"]:
    NOT_APPLICABLE[_pid] = _PENDING
